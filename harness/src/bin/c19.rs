//! C19 — trading start time. The REAL factory + minter + collection (all 11 minter crates, 4 collection crates, created
//! through the factory) vs `LP.TT` (Lean). Protocol: see lean/LaunchpadModel/Driver/C19.lean.
use lp_harness::minters::*;
use lp_harness::world::{addr, addr_id};
use lp_harness::*;
use serde_json::{json, Value};

const NS: u64 = 1_000_000_000;
const DAY: u64 = 86_400 * NS;
const CREATOR: u64 = 10;
const CREATOR2: u64 = 11;
const STRANGER: u64 = 20;

const COLL_NAMES: [&str; 4] = ["sg721-base", "sg721-updatable", "sg721-nt", "sg721-metadata-onchain"];
fn coll_kind(i: u64) -> CollKind {
    match i {
        1 => CollKind::Updatable,
        2 => CollKind::Nt,
        3 => CollKind::MetadataOnchain,
        _ => CollKind::Base,
    }
}

#[derive(Clone, Debug, Default)]
struct Obs {
    now: u64,
    off: u64,
    exists: bool,
    tr: Option<u64>,
    start: Option<u64>,
    end: Option<u64>,
    creator: Option<u64>,
    owner: Option<u64>,
    pend: Option<u64>,
}
impl Obs {
    fn render(&self) -> String {
        let tr = if !self.exists { "none".to_string() } else { fmt_opt(&self.tr) };
        format!(
            "now={} off={} tr={} start={} end={} creator={} owner={} pend={}",
            self.now,
            self.off,
            tr,
            fmt_opt(&self.start),
            fmt_opt(&self.end),
            fmt_opt(&self.creator),
            fmt_opt(&self.owner),
            fmt_opt(&self.pend)
        )
    }
}

fn jts(v: &Value) -> Option<u64> {
    v.as_str().and_then(|s| s.parse().ok())
}

struct S {
    w: Option<World>,
    kind: MinterKind,
    factory: String,
    params: Option<FactoryParams>,
    tm_source: Option<String>,
    minter: Option<String>,
    coll: Option<String>,
    coll_idx: u64,
    expect_minter: u64,
    // ---- monitor bookkeeping (implementation observations only)
    admin0: u64,
    last_valid: Option<Option<u64>>,
    finding: Option<(String, String)>,
    /// the harness impersonated the minter CONTRACT's address in a message to the collection (impossible on chain; used in
    /// the labelled `spoof` cases only, to validate the model's collection-side branches). The two monitors that speak
    /// about "the minter" are meaningless from then on and are switched off for the rest of that case.
    spoofed: bool,
}

impl S {
    fn new() -> S {
        S {
            w: None,
            kind: MinterKind::Vending,
            factory: String::new(),
            params: None,
            tm_source: None,
            minter: None,
            coll: None,
            coll_idx: 0,
            expect_minter: 0,
            admin0: 0,
            last_valid: None,
            finding: None,
            spoofed: false,
        }
    }
    fn world(&mut self) -> &mut World {
        self.w.as_mut().expect("case begun")
    }
    fn observe(&self) -> Obs {
        let w = self.w.as_ref().expect("case begun");
        let mut o = Obs { now: w.time(), ..Default::default() };
        if let Ok(p) = w.query(&self.factory, &json!({"params": {}})) {
            o.off = p["params"]["max_trading_offset_secs"].as_u64().unwrap_or(u64::MAX);
        }
        if let (Some(m), Some(c)) = (&self.minter, &self.coll) {
            o.exists = true;
            if let Ok(ci) = w.query(c, &json!({"collection_info": {}})) {
                o.tr = jts(&ci["start_trading_time"]);
                o.creator = ci["creator"].as_str().map(addr_id);
            }
            // cw_ownable's raw record (sg721-updatable has no `Ownership {}` query): {"owner":…, "pending_owner":…, …}
            if let Some((_, v)) = w.dump(c).into_iter().find(|(k, _)| k.as_slice() == b"ownership") {
                if let Ok(ow) = serde_json::from_slice::<Value>(&v) {
                    o.owner = ow["owner"].as_str().map(addr_id);
                    o.pend = ow["pending_owner"].as_str().map(addr_id);
                }
            }
            // cross-check with the public `Minter {}` query
            if let Ok(mq) = w.query(c, &json!({"minter": {}})) {
                if mq["minter"].as_str().map(addr_id) != o.owner {
                    o.owner = Some(u64::MAX);
                }
            }
            if self.kind != MinterKind::Base {
                if let Ok(cfg) = w.query(m, &json!({"config": {}})) {
                    o.start = jts(&cfg["start_time"]);
                    o.end = jts(&cfg["end_time"]);
                }
            }
        }
        o
    }
    fn flag(&mut self, key: String, what: String) {
        if self.finding.is_none() {
            self.finding = Some((key, what));
        }
    }
    fn sudo_msg(&self, v: Option<u64>) -> Value {
        let ext = if self.kind.factory() == FactoryKind::Base { Value::Null } else { json!({}) };
        json!({"update_params": {"max_trading_offset_secs": v, "extension": ext}})
    }
}

impl Sut for S {
    fn begin(&mut self, header: &str) -> (String, String) {
        let kind = MinterKind::from_idx(kv_u64(header, "kind").unwrap() as usize);
        let now = kv_u64(header, "now").unwrap();
        let offset = kv_u64(header, "offset").unwrap();
        let mut w = World::new(now);
        let mut p = w.default_params(kind);
        p.max_trading_offset_secs = offset;
        let mut tm_source = None;
        if kind == MinterKind::TokenMerge {
            let pb = w.default_params(MinterKind::Base);
            let fb = w.new_factory(FactoryKind::Base, &pb).expect("base factory");
            let ab = w.default_create(MinterKind::Base, &pb);
            w.fund(&addr(ab.creator), 0, pb.creation_fee.1);
            let (_mb, cb) = w.create_minter(&fb, MinterKind::Base, &ab).expect("source collection");
            tm_source = Some(cb);
        }
        let factory = w.new_factory(kind.factory(), &p).expect("factory");
        *self = S::new();
        self.expect_minter = addr_id(&factory) + 1;
        self.w = Some(w);
        self.kind = kind;
        self.factory = factory;
        self.params = Some(p);
        self.tm_source = tm_source;
        (format!("{header} minter={}", self.expect_minter), "case".into())
    }

    fn exec(&mut self, line: &str) -> (String, String) {
        let op = line.split_whitespace().next().unwrap_or("").to_string();
        let before = self.observe();
        let name = self.kind.name();
        let is_base = self.kind == MinterKind::Base;
        let sender = kv_u64(line, "sender").map(addr);
        let funds: Vec<(u64, u128)> = match kv_u128(line, "funds") {
            Some(f) if f > 0 => {
                let s = sender.clone().unwrap();
                self.world().fund(&s, 0, f);
                vec![(0, f)]
            }
            _ => vec![],
        };
        let need = |x: &Option<String>| x.clone();
        let ok: bool = match op.as_str() {
            "time" => {
                let t = kv_u64(line, "t").unwrap();
                self.world().set_time(t);
                true
            }
            "sudo_offset" => {
                let m = self.sudo_msg(kv_opt_u64(line, "v").unwrap());
                let f = self.factory.clone();
                self.world().sudo(&f, &m).is_ok()
            }
            "create" => {
                if self.minter.is_some() {
                    false // the model follows one minter per case; never generated
                } else {
                    let kind = self.kind;
                    let p = self.params.clone().unwrap();
                    let ci = kv_u64(line, "coll").unwrap();
                    let creator = kv_u64(line, "creator").unwrap();
                    let src = self.tm_source.clone();
                    let factory = self.factory.clone();
                    let w = self.world();
                    let mut a = w.default_create(kind, &p);
                    a.creator = creator;
                    a.sg721_code_id = w.coll_code(coll_kind(ci));
                    a.start_time = kv_u64(line, "start").unwrap();
                    a.end_time = kv_opt_u64(line, "end").unwrap();
                    a.start_trading_time = kv_opt_u64(line, "trading").unwrap();
                    if let Some(s) = src {
                        a.mint_tokens = vec![(s, 1)];
                    }
                    w.fund(&addr(creator), 0, p.creation_fee.1);
                    match w.create_minter(&factory, kind, &a) {
                        Ok((m, c)) => {
                            let got = addr_id(&m);
                            self.coll_idx = ci;
                            self.minter = Some(m);
                            self.coll = Some(c);
                            self.admin0 = creator;
                            if got != self.expect_minter {
                                return (line.to_string(), format!("minter-address-mispredicted {got}"));
                            }
                            true
                        }
                        Err(_) => false,
                    }
                }
            }
            "upd_trading" | "upd_start" | "upd_end" => match need(&self.minter) {
                None => false,
                Some(m) => {
                    let msg = match op.as_str() {
                        "upd_trading" => json!({"update_start_trading_time": jopt_time(kv_opt_u64(line, "t").unwrap())}),
                        "upd_start" => json!({"update_start_time": jtime(kv_u64(line, "t").unwrap())}),
                        _ => json!({"update_end_time": jtime(kv_u64(line, "t").unwrap())}),
                    };
                    let s = sender.clone().unwrap();
                    self.world().exec(&s, &m, &msg, &funds).is_ok()
                }
            },
            "coll_trading" | "coll_creator" | "coll_freeze" | "coll_own" => match need(&self.coll) {
                None => false,
                Some(c) => {
                    if sender == self.minter {
                        self.spoofed = true;
                    }
                    let ck = coll_kind(self.coll_idx);
                    let msg = match op.as_str() {
                        "coll_trading" => json!({"update_start_trading_time": jopt_time(kv_opt_u64(line, "t").unwrap())}),
                        "coll_creator" => {
                            let info = json!({"creator": addr(kv_u64(line, "new").unwrap())});
                            if ck == CollKind::Nt {
                                json!({"update_collection_info": {"new_collection_info": info}})
                            } else {
                                json!({"update_collection_info": {"collection_info": info}})
                            }
                        }
                        "coll_freeze" => {
                            if matches!(ck, CollKind::Base | CollKind::MetadataOnchain) {
                                json!("freeze_collection_info")
                            } else {
                                json!({"freeze_collection_info": {}})
                            }
                        }
                        _ => match kv_u64(line, "act").unwrap() {
                            0 => json!({"update_ownership": {"transfer_ownership": {"new_owner": addr(kv_u64(line, "new").unwrap()), "expiry": null}}}),
                            1 => json!({"update_ownership": "accept_ownership"}),
                            _ => json!({"update_ownership": "renounce_ownership"}),
                        },
                    };
                    let s = sender.clone().unwrap();
                    self.world().exec(&s, &c, &msg, &[]).is_ok()
                }
            },
            _ => return (line.to_string(), "bad-op".into()),
        };
        let after = self.observe();

        // ------------------------------------------------------------------ monitors: the property on the real trace
        let bound_of = |start: Option<u64>, off: u64| start.map(|s| s as u128 + off as u128 * NS as u128);
        if ok && op == "create" {
            let req = kv_opt_u64(line, "trading").unwrap();
            if !is_base {
                let b = bound_of(after.start, after.off);
                match (after.tr, b) {
                    (Some(t), Some(b)) if (t as u128) <= b => {}
                    _ => self.flag(format!("{name}/create/trading-after-bound"), format!("created with trading time {:?} later than mint start {:?} + offset {}s (or none stored) on `{line}`", after.tr, after.start, after.off)),
                }
                if req.is_none() && after.tr.map(|t| t as u128) != b {
                    self.flag(format!("{name}/create/default"), format!("default trading time {:?} is not mint start {:?} + offset {}s on `{line}`", after.tr, after.start, after.off));
                }
            } else if req.is_none() && after.tr.map(|t| t as u128) != Some(after.now as u128 + after.off as u128 * NS as u128) {
                self.flag(format!("{name}/create/default"), format!("default trading time {:?} is not creation time {} + offset {}s on `{line}`", after.tr, after.now, after.off));
            }
            if req.is_some() && after.tr != req {
                self.flag(format!("{name}/create/stored-differs"), format!("requested {:?}, collection shows {:?} on `{line}`", req, after.tr));
            }
            self.last_valid = Some(after.tr);
        }
        if ok && op == "upd_trading" {
            let req = kv_opt_u64(line, "t").unwrap();
            let snd = kv_u64(line, "sender").unwrap();
            let admin = if is_base { before.creator.unwrap_or(u64::MAX) } else { self.admin0 };
            if snd != admin {
                self.flag(format!("{name}/update/non-admin-accepted"), format!("sender {snd} is not the minter admin {admin} but `{line}` succeeded"));
            }
            if let Some(t) = req {
                if t < before.now {
                    self.flag(format!("{name}/update/past-accepted"), format!("trading time {t} earlier than the block time {} accepted on `{line}`", before.now));
                }
                if !is_base {
                    match bound_of(before.start, before.off) {
                        Some(b) if (t as u128) <= b => {}
                        _ => self.flag(format!("{name}/update/after-bound"), format!("trading time {t} later than current mint start {:?} + current offset {}s accepted on `{line}`", before.start, before.off)),
                    }
                }
            }
            if after.tr != req {
                self.flag(format!("{name}/update/stored-differs"), format!("requested {:?}, collection shows {:?} on `{line}`", req, after.tr));
            }
            self.last_valid = Some(req);
        }
        if ok && op == "coll_trading" && !self.spoofed {
            let snd = kv_u64(line, "sender").unwrap();
            if Some(addr(snd)) != self.minter {
                self.flag(format!("{}/direct-update/non-minter-accepted", COLL_NAMES[self.coll_idx as usize]), format!("the collection accepted UpdateStartTradingTime from {snd}, not its minter, on `{line}`"));
            }
        }
        if after.exists && !self.spoofed && self.last_valid != Some(after.tr) {
            self.flag(
                format!("{}/visible/not-validated", COLL_NAMES[self.coll_idx as usize]),
                format!("CollectionInfo shows trading time {:?} but the last minter-validated write was {:?} (after `{line}`)", after.tr, self.last_valid),
            );
        }
        (line.to_string(), format!("{} {}", if ok { "ok" } else { "err" }, after.render()))
    }

    fn monitor(&mut self) -> Option<(String, String)> {
        self.finding.take()
    }
}

// ---------------------------------------------------------------------------------------------------- generators

fn ob(out: &str, key: &str) -> Option<u64> {
    kv(out, key).and_then(|v| v.parse().ok())
}

#[derive(Clone, Debug)]
struct Shadow {
    now: u64,
    off: u64,
    exists: bool,
    tr: Option<u64>,
    start: Option<u64>,
    end: Option<u64>,
    creator: u64,
}
fn shadow(out: &str, prev: &Shadow) -> Shadow {
    Shadow {
        now: ob(out, "now").unwrap_or(prev.now),
        off: ob(out, "off").unwrap_or(prev.off),
        exists: kv(out, "tr").map(|v| v != "none").unwrap_or(prev.exists),
        tr: ob(out, "tr"),
        start: ob(out, "start"),
        end: ob(out, "end"),
        creator: ob(out, "creator").unwrap_or(prev.creator),
    }
}

fn fam(kind: MinterKind) -> &'static str {
    match kind.factory() {
        FactoryKind::Vending => "vending",
        FactoryKind::OpenEdition => "open-edition",
        FactoryKind::TokenMerge => "token-merge",
        FactoryKind::Base => "base",
    }
}

/// relation of a requested time to now / the bound, for the class keys
fn rel(t: Option<u64>, now: u64, bound: Option<u64>) -> String {
    match t {
        None => "none".into(),
        Some(t) => {
            let a = if t < now { "past" } else if t == now { "now" } else { "future" };
            let b = match bound {
                None => "nobound",
                Some(b) if t < b => "below",
                Some(b) if t == b => "at-bound",
                Some(b) if t == b + 1 => "bound+1",
                _ => "above",
            };
            format!("{a}/{b}")
        }
    }
}

struct Gen<'a> {
    ses: &'a mut Session,
    sut: &'a mut S,
    rng: Rng,
    kind: MinterKind,
    ci: u64,
    sh: Shadow,
}

impl Gen<'_> {
    fn bound(&self) -> Option<u64> {
        if self.kind == MinterKind::Base {
            None
        } else {
            self.sh.start.map(|s| s + self.sh.off * NS)
        }
    }
    fn step(&mut self, line: String, class: String) -> bool {
        let out = self.ses.step(self.sut, &line);
        let ok = out.starts_with("ok");
        self.sh = shadow(&out, &self.sh);
        self.ses.mark(format!("{}:{}:{}:{}", fam(self.kind), COLL_NAMES[self.ci as usize], class, if ok { "ok" } else { "err" }));
        self.ses.mark(format!("{}:{}", self.kind.name(), class.split(':').next().unwrap_or("")));
        ok
    }
    fn admin(&self) -> u64 {
        if self.kind == MinterKind::Base {
            self.sh.creator
        } else {
            CREATOR
        }
    }
    fn create(&mut self, start: u64, end: Option<u64>, trading: Option<u64>, tag: &str) -> bool {
        let b = if self.kind == MinterKind::Base { None } else { Some(start + self.sh.off * NS) };
        let class = format!("create:{tag}:{}", rel(trading, self.sh.now, b));
        self.step(format!("create coll={} creator={CREATOR} start={start} end={} trading={}", self.ci, fmt_opt(&end), fmt_opt(&trading)), class)
    }
    fn upd_trading(&mut self, sender: u64, t: Option<u64>, funds: u64) -> bool {
        let who = if sender == self.admin() { "admin" } else { "other" };
        let class = format!("upd_trading:{who}:f{}:{}", funds.min(1), rel(t, self.sh.now, self.bound()));
        self.step(format!("upd_trading sender={sender} t={} funds={funds}", fmt_opt(&t)), class)
    }
    /// the six requested times of the property's quantifier (+ two extras)
    fn probe_values(&self) -> Vec<Option<u64>> {
        let now = self.sh.now;
        let mut v = vec![None, Some(now.saturating_sub(1)), Some(now)];
        match self.bound() {
            Some(b) => v.extend([Some(b.saturating_sub(1)), Some(b), Some(b + 1)]),
            None => v.extend([Some(now + 1), Some(now + 400 * DAY)]),
        }
        v
    }
    fn six(&mut self) {
        let a = self.admin();
        for t in self.probe_values() {
            self.upd_trading(a, t, 0);
        }
    }
    fn some_sender(&mut self) -> u64 {
        let fac = addr_id(&self.sut.factory);
        let col = self.sut.coll.as_deref().map(addr_id).unwrap_or(STRANGER);
        let a = self.admin();
        match self.rng.below(10) {
            0..=5 => a,
            6 => STRANGER,
            7 => {
                if a == CREATOR {
                    CREATOR2
                } else {
                    CREATOR
                }
            }
            8 => fac,
            _ => col,
        }
    }
    fn non_minter_sender(&mut self) -> u64 {
        let fac = addr_id(&self.sut.factory);
        let col = self.sut.coll.as_deref().map(addr_id).unwrap_or(STRANGER);
        *self.rng.pick(&[self.admin(), CREATOR, CREATOR2, STRANGER, fac, col])
    }
    fn random_time_target(&mut self) -> Option<u64> {
        let now = self.sh.now;
        let mut c: Vec<u64> = vec![now, now + 1, now + self.rng.range(1, 3) * NS, now + self.rng.range(1, 30) * DAY / 10];
        for x in [self.sh.start, self.bound(), self.sh.tr, self.sh.end].into_iter().flatten() {
            c.extend([x.saturating_sub(1), x, x + 1]);
        }
        let c: Vec<u64> = c.into_iter().filter(|t| *t >= now).collect();
        if c.is_empty() {
            None
        } else {
            Some(*self.rng.pick(&c))
        }
    }
    fn random_trading_request(&mut self) -> Option<u64> {
        let now = self.sh.now;
        let mut v = self.probe_values();
        v.push(Some(now + 1));
        if let Some(b) = self.bound() {
            if b > now {
                v.push(Some(now + self.rng.below(b - now + 1)));
            }
            v.push(Some(b + self.rng.range(2, 5) * DAY));
        }
        if let Some(t) = self.sh.tr {
            v.push(Some(t));
        }
        *self.rng.pick(&v)
    }
    fn random_offset(&mut self) -> Option<u64> {
        let off = self.sh.off;
        let mut v: Vec<Option<u64>> = vec![None, Some(0), Some(1), Some(off.saturating_sub(1)), Some(off + 1), Some(off * 2 + 60), Some(off / 2), Some(self.rng.below(1_000_000))];
        // make the stored trading time sit exactly on / one second inside / outside the new bound
        if let (Some(tr), Some(s)) = (self.sh.tr, self.sh.start) {
            if tr >= s {
                let k = (tr - s) / NS;
                v.extend([Some(k), Some(k + 1), Some(k.saturating_sub(1))]);
            }
        }
        *self.rng.pick(&v)
    }
    fn random_start(&mut self) -> u64 {
        let now = self.sh.now;
        let mut v = vec![now.saturating_sub(1), now, now + 1, now + self.rng.range(1, 100) * NS, now + self.rng.range(1, 20) * DAY, GENESIS - 1, GENESIS, GENESIS + 1];
        if let Some(s) = self.sh.start {
            v.extend([s.saturating_sub(1), s + 1, s + DAY]);
        }
        if let Some(e) = self.sh.end {
            v.extend([e.saturating_sub(1), e, e + 1]);
        }
        if let Some(tr) = self.sh.tr {
            // mint start such that the stored trading time is exactly at / one ns beyond the new bound
            let d = self.sh.off * NS;
            if tr >= d {
                v.extend([tr - d, (tr - d).saturating_sub(1), tr - d + 1]);
            }
        }
        *self.rng.pick(&v)
    }
    fn random_op(&mut self) {
        let r = self.rng.below(100);
        match r {
            0..=14 => {
                if let Some(t) = self.random_time_target() {
                    let class = format!("time:{}", if Some(t) == self.bound() { "at-bound" } else if Some(t) == self.sh.start { "at-start" } else { "other" });
                    self.step(format!("time t={t}"), class);
                }
            }
            15..=24 => {
                let v = self.random_offset();
                let class = format!("sudo_offset:{}", match v { None => "none", Some(x) if x < self.sh.off => "down", Some(x) if x == self.sh.off => "same", _ => "up" });
                self.step(format!("sudo_offset v={}", fmt_opt(&v)), class);
            }
            25..=36 => {
                let s = if self.rng.chance(4, 5) { CREATOR } else { self.some_sender() };
                let t = self.random_start();
                let f = if self.rng.chance(1, 20) { 1 } else { 0 };
                let class = format!(
                    "upd_start:{}:f{f}:{}:{}",
                    if s == CREATOR { "admin" } else { "other" },
                    if self.sh.start.map(|x| self.sh.now >= x).unwrap_or(false) { "started" } else { "before" },
                    if t < self.sh.now { "past" } else if Some(t) < self.sh.start { "earlier" } else { "later" }
                );
                self.step(format!("upd_start sender={s} t={t} funds={f}"), class);
            }
            37..=41 => {
                let s = if self.rng.chance(4, 5) { CREATOR } else { self.some_sender() };
                let now = self.sh.now;
                let mut v = vec![now.saturating_sub(1), now, now + self.rng.range(1, 40) * DAY];
                if let Some(st) = self.sh.start {
                    v.extend([st.saturating_sub(1), st, st + 1, st + self.rng.range(1, 40) * DAY]);
                }
                if let Some(e) = self.sh.end {
                    v.extend([e.saturating_sub(1), e + 1, e + DAY]);
                }
                let t = *self.rng.pick(&v);
                let class = format!("upd_end:{}", if Some(t) < self.sh.start { "before-start" } else { "fine" });
                self.step(format!("upd_end sender={s} t={t} funds=0"), class);
            }
            42..=71 => {
                let s = self.some_sender();
                let t = self.random_trading_request();
                let f = if self.rng.chance(1, 15) { self.rng.range(1, 3) } else { 0 };
                self.upd_trading(s, t, f);
            }
            72..=83 => {
                let s = self.non_minter_sender();
                let t = self.random_trading_request();
                let class = format!("coll_trading:{}", if s == self.admin() { "admin" } else { "other" });
                self.step(format!("coll_trading sender={s} t={}", fmt_opt(&t)), class);
            }
            84..=89 => {
                let s = if self.rng.chance(2, 3) { self.sh.creator } else { self.non_minter_sender() };
                let n = *self.rng.pick(&[CREATOR, CREATOR2, STRANGER]);
                let class = format!("coll_creator:{}", if s == self.sh.creator { "creator" } else { "other" });
                self.step(format!("coll_creator sender={s} new={n}"), class);
            }
            90..=92 => {
                let s = if self.rng.chance(1, 2) { self.sh.creator } else { self.non_minter_sender() };
                let class = format!("coll_freeze:{}", if s == self.sh.creator { "creator" } else { "other" });
                self.step(format!("coll_freeze sender={s}"), class);
            }
            _ => {
                let s = self.non_minter_sender();
                let act = self.rng.below(3);
                let n = *self.rng.pick(&[STRANGER, CREATOR]);
                self.step(format!("coll_own sender={s} act={act} new={n}"), format!("coll_own:{act}"));
            }
        }
    }
    /// valid creation arguments for the current clock
    fn valid_create_args(&mut self) -> (u64, Option<u64>) {
        let now = self.sh.now;
        let base = now.max(GENESIS);
        let start = match self.rng.below(4) {
            0 => base + 1,
            1 => base + self.rng.range(1, 1000) * NS,
            _ => base + self.rng.range(1, 30) * DAY / 7,
        };
        let end = if self.kind.is_open_edition() {
            match self.rng.below(4) {
                0 => None,
                1 => Some(start + 1),
                _ => Some(start + self.rng.range(1, 60) * DAY),
            }
        } else {
            None
        };
        (start, end)
    }
    fn creation_phase(&mut self) {
        // up to three single-fault / boundary attempts, then a valid one (the first success ends the phase)
        for attempt in 0..4 {
            let (mut start, mut end) = self.valid_create_args();
            let now = self.sh.now;
            let off = self.sh.off;
            let mut tag = "valid";
            if attempt < 3 && self.rng.chance(1, 2) {
                match self.rng.below(6) {
                    0 => {
                        start = now.saturating_sub(1);
                        tag = "start-past";
                    }
                    1 => {
                        start = now;
                        tag = "start-now";
                    }
                    2 => {
                        start = GENESIS - 1;
                        tag = "start-pre-genesis";
                    }
                    3 => {
                        start = GENESIS.max(now);
                        tag = "start-genesis-or-now";
                    }
                    4 if self.kind.is_open_edition() => {
                        end = Some(start - self.rng.below(2));
                        tag = "end-not-after-start";
                    }
                    _ => {}
                }
            }
            let b = start + off * NS;
            let choices: Vec<Option<u64>> = if attempt < 3 {
                vec![None, Some(now.saturating_sub(1)), Some(now), Some(b.saturating_sub(1)), Some(b), Some(b + 1), Some(b + 1), Some(0), Some(start), Some(now + self.rng.below(b.saturating_sub(now) + 1))]
            } else if self.kind == MinterKind::Base {
                vec![None, Some(now), Some(b + 5 * DAY)]
            } else {
                vec![None, Some(now.saturating_sub(1)), Some(b.saturating_sub(1)), Some(b)]
            };
            let tr = *self.rng.pick(&choices);
            if self.create(start, end, tr, tag) {
                return;
            }
        }
        // deterministic fallback
        let (start, end) = self.valid_create_args();
        let end = end.map(|e| e.max(start + 1));
        assert!(self.create(start, end, None, "fallback"), "valid create failed for {:?}", self.kind);
    }
}

fn main() {
    let mut ses = Session::new("C19");
    let mut sut = S::new();
    if ses.maybe_replay(&mut sut) {
        ses.finish(&mut sut);
    }
    let rng = ses.rng.fork();
    let reps = ses.scale(20, 300);
    let n_ops = ses.scale(28, 40);
    let offsets: [u64; 8] = [0, 1, 59, 3600, 86_400, 604_800, 31_536_000, 999_999_937];
    let mut g_rng = rng;

    for kind in ALL_MINTERS {
        for ci in 0..4u64 {
            // ---------------- 1. the deterministic boundary grid of the property's quantifier
            for grid_variant in 0..ses.scale(1, 4) {
                let now0 = GENESIS + (1 + grid_variant) * 3 * DAY + 17 + g_rng.below(1000);
                let off0 = offsets[((kind.idx() as u64 + ci + grid_variant) % 6 + 1) as usize];
                let header = format!("case grid kind={} coll={ci} now={now0} offset={off0}", kind.idx());
                ses.begin_case(&mut sut, &header);
                let sh = Shadow { now: now0, off: off0, exists: false, tr: None, start: None, end: None, creator: CREATOR };
                let mut g = Gen { ses: &mut ses, sut: &mut sut, rng: g_rng.fork(), kind, ci, sh };
                let start = now0 + 2 * DAY;
                let end = if kind.is_open_edition() { Some(start + 30 * DAY) } else { None };
                // creation at bound+1 fails, then the grid variant picks the accepted creation value
                if kind != MinterKind::Base {
                    g.create(start, end, Some(start + off0 * NS + 1), "grid");
                }
                let tr0 = match grid_variant % 4 {
                    0 => None,
                    1 => Some(start + off0 * NS),
                    2 => Some(now0 - 1),
                    _ => Some(start + off0 * NS - 1),
                };
                assert!(g.create(start, end, tr0, "grid"), "grid create failed {:?} {}", kind, ci);
                g.six();
                // stranger / old values
                g.upd_trading(STRANGER, Some(g.sh.now), 0);
                g.upd_trading(g.admin(), Some(g.sh.now), 1);
                g.step(format!("coll_trading sender={STRANGER} t={}", g.sh.now + 5), "coll_trading:other".into());
                g.step(format!("coll_trading sender={CREATOR} t=-"), "coll_trading:admin".into());
                // move the mint start earlier: the bound moves with it
                g.step(format!("upd_start sender={CREATOR} t={} funds=0", start - DAY), "upd_start:grid-earlier".into());
                g.six();
                // and later
                g.step(format!("upd_start sender={CREATOR} t={} funds=0", start + DAY), "upd_start:grid-later".into());
                g.six();
                // governance lowers, then raises the offset
                g.step(format!("sudo_offset v={}", off0 / 2), "sudo_offset:down".into());
                g.six();
                g.step(format!("sudo_offset v={}", off0 * 2 + 7), "sudo_offset:up".into());
                g.six();
                g.step("sudo_offset v=-".into(), "sudo_offset:none".into());
                // the clock reaches the bound exactly, then passes it
                if let Some(b) = g.bound() {
                    if b > g.sh.now {
                        g.step(format!("time t={}", b - 1), "time:bound-1".into());
                        g.six();
                        g.step(format!("time t={b}"), "time:at-bound".into());
                        g.six();
                        g.step(format!("time t={}", b + 1), "time:bound+1".into());
                        g.six();
                    }
                } else {
                    let t = g.sh.now + 3 * DAY;
                    g.step(format!("time t={t}"), "time:other".into());
                    g.six();
                }
                // base-minter's admin is the collection's current creator
                g.step(format!("coll_creator sender={CREATOR} new={CREATOR2}"), "coll_creator:creator".into());
                let t = g.sh.now + 1;
                g.upd_trading(CREATOR, Some(t), 0);
                g.upd_trading(CREATOR2, Some(t), 0);
                g.step(format!("coll_own sender={CREATOR2} act=0 new={CREATOR2}"), "coll_own:0".into());
                g.step(format!("coll_own sender={CREATOR2} act=1 new={CREATOR2}"), "coll_own:1".into());
                g.step(format!("coll_trading sender={CREATOR2} t={}", t + 9), "coll_trading:other".into());
                g_rng = g.rng.fork();
                ses.end_case();
            }

            // ---------------- 1b. model validation of the collection-side branches: the harness impersonates the minter
            // contract's address (impossible on chain; monitors about "the minter" are off in these cases)
            {
                let now0 = GENESIS + 9 * DAY + g_rng.below(1000);
                let off0 = offsets[g_rng.below(offsets.len() as u64) as usize];
                let header = format!("case spoof kind={} coll={ci} now={now0} offset={off0}", kind.idx());
                ses.begin_case(&mut sut, &header);
                let sh = Shadow { now: now0, off: off0, exists: false, tr: None, start: None, end: None, creator: CREATOR };
                let mut g = Gen { ses: &mut ses, sut: &mut sut, rng: g_rng.fork(), kind, ci, sh };
                let start = now0 + DAY;
                let end = if kind.is_open_edition() { Some(start + DAY) } else { None };
                assert!(g.create(start, end, None, "spoof"), "spoof create failed");
                let mid = g.sut.expect_minter;
                let t = g.sh.now + 77;
                g.step(format!("coll_trading sender={mid} t={t}"), "spoof:coll_trading:minter".into());
                g.step(format!("coll_trading sender={mid} t=-"), "spoof:coll_trading:minter-none".into());
                g.step(format!("coll_own sender={STRANGER} act=1 new={STRANGER}"), "spoof:accept-nothing-pending".into());
                g.step(format!("coll_own sender={mid} act=0 new={STRANGER}"), "spoof:transfer".into());
                g.step(format!("coll_own sender={CREATOR} act=1 new={CREATOR}"), "spoof:accept-wrong".into());
                g.upd_trading(CREATOR, Some(t), 0); // minter still owner: fine
                if g.rng.chance(1, 2) {
                    g.step(format!("coll_own sender={STRANGER} act=1 new={STRANGER}"), "spoof:accept".into());
                    g.upd_trading(CREATOR, Some(t + 1), 0); // the minter is no longer the owner: its sub-message is refused
                    g.step(format!("coll_trading sender={mid} t={t}"), "spoof:coll_trading:ex-minter".into());
                    g.step(format!("coll_trading sender={STRANGER} t={}", t + 2), "spoof:coll_trading:new-owner".into());
                    g.step(format!("coll_own sender={STRANGER} act=2 new={STRANGER}"), "spoof:renounce".into());
                    g.step(format!("coll_trading sender={STRANGER} t={}", t + 3), "spoof:coll_trading:renounced".into());
                } else {
                    g.step(format!("coll_own sender={mid} act=2 new={mid}"), "spoof:renounce-by-minter".into());
                    g.step(format!("coll_own sender={STRANGER} act=1 new={STRANGER}"), "spoof:accept-after-renounce".into());
                    g.upd_trading(CREATOR, Some(t + 1), 0);
                }
                for _ in 0..6 {
                    g.random_op();
                }
                g_rng = g.rng.fork();
                ses.end_case();
            }

            // ---------------- 2. random traces: mostly valid ops, single-fault mutations, boundary instants
            for rep in 0..reps {
                let now0 = match g_rng.below(6) {
                    0 => GENESIS - 2 * DAY + g_rng.below(DAY),            // before genesis: the genesis check decides
                    1 => GENESIS - 1,
                    2 => GENESIS,
                    _ => GENESIS + g_rng.below(400) * DAY + g_rng.below(NS),
                };
                let off0 = offsets[g_rng.below(offsets.len() as u64) as usize];
                let header = format!("case rnd{rep} kind={} coll={ci} now={now0} offset={off0}", kind.idx());
                ses.begin_case(&mut sut, &header);
                let sh = Shadow { now: now0, off: off0, exists: false, tr: None, start: None, end: None, creator: CREATOR };
                let mut g = Gen { ses: &mut ses, sut: &mut sut, rng: g_rng.fork(), kind, ci, sh };
                // ops before any minter exists
                if g.rng.chance(1, 3) {
                    g.step(format!("upd_trading sender={CREATOR} t=- funds=0"), "upd_trading:no-minter".into());
                    let v = g.random_offset();
                    g.step(format!("sudo_offset v={}", fmt_opt(&v)), "sudo_offset:pre-create".into());
                }
                g.creation_phase();
                for _ in 0..n_ops {
                    g.random_op();
                }
                g_rng = g.rng.fork();
                ses.end_case();
            }
        }
    }
    ses.note("requested trading times: none, now-1, now, bound-1, bound, bound+1 (+ random in [now,bound], far future, 0) at clock values incl. start±1ns, bound±1ns, stored value±1ns; after UpdateStartTime moves (earlier/later, onto tr-offset) and sudo offset changes (down/up/none, onto the stored value); 11 minter crates x 4 collection crates, all created through the factory; direct collection calls by admin/creator/stranger/factory/collection itself (never by the minter contract's address)");
    ses.note("times < 2^62 ns, offsets < 10^9 s: u64 overflow of plus_seconds is outside the model");
    ses.finish(&mut sut);
}
