//! scratch exploration (will be replaced)
use lp_harness::minters::*;
use lp_harness::world::addr;
use serde_json::json;

fn supply(w: &World, d: u64) -> u128 {
    let den = lp_harness::world::denom(d);
    w.app.read_module(|_r, _a, st| {
        let mut pre: Vec<u8> = vec![0, 4];
        pre.extend_from_slice(b"bank");
        pre.extend_from_slice(&[0, 8]);
        pre.extend_from_slice(b"balances");
        let mut end = pre.clone();
        *end.last_mut().unwrap() += 1;
        let mut tot = 0u128;
        for (_k, v) in st.range(Some(&pre), Some(&end), cosmwasm_std::Order::Ascending) {
            let coins: Vec<cosmwasm_std::Coin> = serde_json::from_slice(&v).unwrap();
            for c in coins {
                if c.denom == den {
                    tot += c.amount.u128();
                }
            }
        }
        tot
    })
}

fn main() {
    for (fee, pay) in [(0u128, 1u128), (1, 1), (1, 3)] {
        let mut w = World::new(GENESIS + 1000);
        let kind = MinterKind::Vending;
        let mut p = w.default_params(kind);
        p.creation_fee = (0, fee);
        let f = w.new_factory(kind.factory(), &p).expect("factory");
        let mut a = w.default_create(kind, &p);
        w.fund(&addr(a.creator), 0, 1000);
        a.funds = vec![(0, pay)];
        let r = w.create_minter(&f, kind, &a);
        println!("fee={fee} pay={pay}: {:?} {}", r, supply(&w, 0));
    }
    // non-native
    for (fee, pay) in [(0u128, 1u128), (1, 1), (1, 3), (5, 4), (5, 9)] {
        let mut w = World::new(GENESIS + 1000);
        let kind = MinterKind::Vending;
        let mut p = w.default_params(kind);
        p.creation_fee = (1, fee);
        let f = w.new_factory(kind.factory(), &p).expect("factory");
        let mut a = w.default_create(kind, &p);
        w.fund(&addr(a.creator), 1, 1000);
        a.funds = vec![(1, pay)];
        let r = w.create_minter(&f, kind, &a);
        println!("nonnative fee={fee} pay={pay}: {:?} payer={} fac={} dao={}", r.map_err(|e| e.chars().rev().take(100).collect::<String>().chars().rev().collect::<String>()), w.balance(&addr(a.creator), 1), w.balance(&f, 1), w.balance(&addr(2), 1));
    }
    let t0 = std::time::Instant::now();
    let mut w = World::new(GENESIS + 1000);
    println!("world new {:?}", t0.elapsed());
    let kind = MinterKind::Vending;
    let mut p = w.default_params(kind);
    p.max_token_limit = 500;
    let f = w.new_factory(kind.factory(), &p).expect("factory");
    let mut a = w.default_create(kind, &p);
    w.fund(&addr(a.creator), 0, 1000_000_000_000_000);
    for n in [10u32, 100, 400] {
        a.num_tokens = Some(n);
        let t0 = std::time::Instant::now();
        for _ in 0..20 { w.create_minter(&f, kind, &a).unwrap(); }
        println!("n={n}: 20 creates {:?}", t0.elapsed());
    }
    let _ = json!({});
}
