//! C08 — factories create minters only within governance limits and for the fee.
//!
//! Real contracts (all four factories, all 11 minter code ids, the four sg721 codes, plain/flex whitelists) in one
//! cw-multi-test `App` (`lp_harness::minters::World`) vs the Lean model `LP.FC` (Model/FactoryCreate.lean).
//! Protocol: see lean/LaunchpadModel/Driver/C08.lean.
//!
//! Round 3:
//! * the monitors transcribe the property from GHOST bookkeeping — the governance parameters the harness itself sent
//!   (`mkfactory` + every accepted `params` update, applied with set semantics), and for every minter it created: factory, code,
//!   token count, creator named in the request, payer, last accepted per-address limit. The factory's `Params` query and the
//!   minter's `Config` are only observed (compared with the model), never used as the truth a monitor checks against;
//! * output lines are projected: `primary ## drift`. Primary = accept/reject, the registry facts (code, instantiator, wasm admin),
//!   minter `factory, admin, sg721, sg721 code, num_tokens, per_address_limit`, collection `owner(minter), creator`, payer / factory /
//!   DAO balances and `net = native supply − fair-burn pool` (moves by exactly the fee whatever the burn/pool split is), the
//!   governance parameters with the allow-list as a SET. Drift = start/end/price/whitelist/payment address, trading time, royalty,
//!   pool and supply separately (the split belongs to C06), the raw allow-list (order/duplicates belong to C18);
//! * model ids of contracts come from the harness' own table (k-th contract it saw created = 1000+k), not from
//!   cw-multi-test's `contract{k}` naming; new addresses come from the `instantiate` events with a naming fallback;
//! * the message surface of the eleven minters and four factories is enumerated at RUN TIME from the crates' JSON schemas; every
//!   variant other than `update_per_address_limit` / `create_minter` is sent (raw JSON, minimal arguments) under the monitors
//!   "the per-address limit changed outside UpdatePerAddressLimit" / "a contract was created outside CreateMinter".
#![allow(dead_code)]
use lp_harness::minters::*;
use lp_harness::world::{addr, addr_id, denom, denom_id};
use lp_harness::*;
use serde_json::{json, Map, Value};
use std::collections::{BTreeMap, BTreeSet};

const BAD_ADDR: &str = "BAD ADDR";
const BAD_URL: &str = "not a url";
const GOOD_URI: &str = "ipfs://bafybeigi3bwpvyvsmnbj46ra4hyffcxdeaj6ntfk5jpic5mx27x6ih2qvq/images";
const NS: u64 = 1_000_000_000;
const POOL: &str = "fairburn_pool";

// ------------------------------------------------------------------------------------------------ small helpers

#[derive(Clone, Copy, Debug, PartialEq, Eq)]
enum AF {
    Absent,
    Bad,
    Id(u64),
}
impl AF {
    fn parse(line: &str, key: &str) -> AF {
        match kv(line, key) {
            None | Some("-") => AF::Absent,
            Some("x") => AF::Bad,
            Some(v) => v.parse().map(AF::Id).unwrap_or(AF::Bad),
        }
    }
    fn json(self, a: &dyn Fn(u64) -> String) -> Value {
        match self {
            AF::Absent => Value::Null,
            AF::Bad => Value::String(BAD_ADDR.into()),
            AF::Id(i) => Value::String(a(i)),
        }
    }
    fn s(self) -> String {
        match self {
            AF::Absent => "-".into(),
            AF::Bad => "x".into(),
            AF::Id(i) => i.to_string(),
        }
    }
}

fn fk_idx(k: FactoryKind) -> u64 {
    match k {
        FactoryKind::Vending => 0,
        FactoryKind::OpenEdition => 1,
        FactoryKind::TokenMerge => 2,
        FactoryKind::Base => 3,
    }
}
fn fk_of(i: u64) -> FactoryKind {
    match i {
        0 => FactoryKind::Vending,
        1 => FactoryKind::OpenEdition,
        2 => FactoryKind::TokenMerge,
        _ => FactoryKind::Base,
    }
}
fn fk_name(k: FactoryKind) -> &'static str {
    match k {
        FactoryKind::Vending => "vending-factory",
        FactoryKind::OpenEdition => "open-edition-factory",
        FactoryKind::TokenMerge => "token-merge-factory",
        FactoryKind::Base => "base-factory",
    }
}
fn minter_name(code: u64) -> &'static str {
    ALL_MINTERS.get((code as usize).wrapping_sub(1)).map(|k| k.name()).unwrap_or("minter")
}
fn kv_coin(line: &str, key: &str) -> Option<(u64, u128)> {
    let v = kv(line, key)?;
    let (a, b) = v.split_once(':')?;
    Some((a.parse().ok()?, b.parse().ok()?))
}
fn kv_opt_coin(line: &str, key: &str) -> Option<(u64, u128)> {
    if kv(line, key) == Some("-") {
        None
    } else {
        kv_coin(line, key)
    }
}
fn coin_s(c: (u64, u128)) -> String {
    format!("{}:{}", c.0, c.1)
}
fn dec_str(a: u128) -> String {
    format!("{}.{:018}", a / 10u128.pow(18), a % 10u128.pow(18))
}
fn dec_atomics(s: &str) -> u128 {
    let (i, f) = s.split_once('.').unwrap_or((s, ""));
    let mut f = f.to_string();
    while f.len() < 18 {
        f.push('0');
    }
    i.parse::<u128>().unwrap_or(0) * 10u128.pow(18) + f[..18].parse::<u128>().unwrap_or(0)
}
fn jcoin_v(v: &Value) -> (u64, u128) {
    if v.is_null() {
        (0, 0)
    } else {
        (denom_id(v["denom"].as_str().unwrap_or("")), v["amount"].as_str().and_then(|x| x.parse().ok()).unwrap_or(0))
    }
}
fn jnum(v: &Value) -> String {
    if let Some(n) = v.as_u64() {
        n.to_string()
    } else if let Some(s) = v.as_str() {
        s.to_string()
    } else {
        "-".into()
    }
}
fn ceil3pct(n: u64) -> u64 {
    (3 * n + 99) / 100
}
/// the minters that enforce the 3 % rule (by code id as stored by `World::new`): vending, -featured, -merkle-wl,
/// -merkle-wl-featured, token-merge
fn enforces_3pct(code: u64) -> bool {
    matches!(code, 1 | 2 | 5 | 6 | 10)
}
fn sorted_set(xs: &[u64]) -> Vec<u64> {
    let s: BTreeSet<u64> = xs.iter().copied().collect();
    s.into_iter().collect()
}

/// governance parameters of a factory. Used both for what the REAL factory answers (`read_params`, observation only) and for the
/// harness' own GHOST copy (what it sent; the truth the monitors and generators use).
#[derive(Clone, Debug)]
struct P {
    kind: FactoryKind,
    code: u64,
    allowed: Vec<u64>,
    frozen: bool,
    fee: (u64, u128),
    minp: (u64, u128),
    off: u64,
    maxtok: u64,
    maxper: u64,
    airp: (u64, u128),
}
impl P {
    /// fields of an input line (`mkfactory`), raw allow-list
    fn obs(&self) -> String {
        format!(
            "code={} allowed={} frozen={} fee={} minp={} off={} maxtok={} maxper={} airp={}",
            self.code,
            fmt_list(&self.allowed),
            self.frozen as u8,
            coin_s(self.fee),
            coin_s(self.minp),
            self.off,
            self.maxtok,
            self.maxper,
            coin_s(self.airp)
        )
    }
    /// output: the allow-list as a set in the primary part, the stored list behind ` ## ` (order / duplicates: C18)
    fn out(&self) -> (String, String) {
        let mut q = self.clone();
        q.allowed = sorted_set(&self.allowed);
        (q.obs(), format!("allowedraw={}", fmt_list(&self.allowed)))
    }
    /// what C08 needs to be equal between ghost and query
    fn same_as(&self, o: &P) -> bool {
        self.code == o.code
            && sorted_set(&self.allowed) == sorted_set(&o.allowed)
            && self.frozen == o.frozen
            && self.fee == o.fee
            && (self.kind == FactoryKind::TokenMerge || self.minp == o.minp)
            && self.off == o.off
            && (self.kind == FactoryKind::Base || (self.maxtok == o.maxtok && self.maxper == o.maxper && self.airp == o.airp))
    }
}

type Balances = BTreeMap<(String, String), u128>;

// ------------------------------------------------------------------------------------------------ run-time message surface (JSON schemas of the crates)

fn minter_schema(code: u64) -> Value {
    use cosmwasm_schema::schema_for;
    let r = match code {
        1 => schema_for!(vending_minter::msg::ExecuteMsg),
        2 => schema_for!(vending_minter_featured::msg::ExecuteMsg),
        3 => schema_for!(vending_minter_wl_flex::msg::ExecuteMsg),
        4 => schema_for!(vending_minter_wl_flex_featured::msg::ExecuteMsg),
        5 => schema_for!(vending_minter_merkle_wl::msg::ExecuteMsg),
        6 => schema_for!(vending_minter_merkle_wl_featured::msg::ExecuteMsg),
        7 => schema_for!(open_edition_minter::msg::ExecuteMsg),
        8 => schema_for!(open_edition_minter_wl_flex::msg::ExecuteMsg),
        9 => schema_for!(open_edition_minter_merkle_wl::msg::ExecuteMsg),
        10 => schema_for!(token_merge_minter::msg::ExecuteMsg),
        _ => schema_for!(base_minter::msg::ExecuteMsg),
    };
    serde_json::to_value(&r).expect("schema to json")
}
fn factory_schema(kind: FactoryKind) -> Value {
    use cosmwasm_schema::schema_for;
    let r = match kind {
        FactoryKind::Vending => schema_for!(vending_factory::msg::ExecuteMsg),
        FactoryKind::OpenEdition => schema_for!(open_edition_factory::msg::ExecuteMsg),
        FactoryKind::TokenMerge => schema_for!(token_merge_factory::msg::ExecuteMsg),
        FactoryKind::Base => schema_for!(base_factory::msg::ExecuteMsg),
    };
    serde_json::to_value(&r).expect("schema to json")
}

/// (variant name in snake case, schema of its payload; None for a unit variant serialised as a bare string)
fn schema_variants(root: &Value) -> Vec<(String, Option<Value>)> {
    let mut out = vec![];
    let mut alts: Vec<Value> = vec![];
    for k in ["oneOf", "anyOf"] {
        if let Some(a) = root[k].as_array() {
            alts.extend(a.iter().cloned());
        }
    }
    if alts.is_empty() {
        alts.push(root.clone());
    }
    for alt in alts {
        if let Some(en) = alt["enum"].as_array() {
            for e in en {
                if let Some(s) = e.as_str() {
                    out.push((s.to_string(), None));
                }
            }
        } else if let Some(req) = alt["required"].as_array() {
            if let Some(name) = req.first().and_then(|x| x.as_str()) {
                out.push((name.to_string(), Some(alt["properties"][name].clone())));
            }
        }
    }
    out.sort_by(|a, b| a.0.cmp(&b.0));
    out.dedup_by(|a, b| a.0 == b.0);
    out
}

/// minimal JSON value for a schema: integers = 0, strings = "0" (an account address when the field name looks like one), options = null
fn fill(s: &Value, defs: &Value, hint: &str, depth: u32) -> Value {
    if depth > 8 {
        return Value::Null;
    }
    if let Some(r) = s["$ref"].as_str() {
        let name = r.rsplit('/').next().unwrap_or("");
        return fill(&defs[name], defs, hint, depth + 1);
    }
    if let Some(a) = s["allOf"].as_array() {
        if let Some(f) = a.first() {
            return fill(f, defs, hint, depth + 1);
        }
    }
    for key in ["anyOf", "oneOf"] {
        if let Some(a) = s[key].as_array() {
            if a.iter().any(|x| x["type"] == "null") {
                return Value::Null;
            }
            if let Some(f) = a.first() {
                if let Some(req) = f["required"].as_array().and_then(|r| r.first()).and_then(|x| x.as_str()) {
                    let mut m = Map::new();
                    m.insert(req.to_string(), fill(&f["properties"][req], defs, req, depth + 1));
                    return Value::Object(m);
                }
                return fill(f, defs, hint, depth + 1);
            }
        }
    }
    if let Some(en) = s["enum"].as_array() {
        return en.first().cloned().unwrap_or(Value::Null);
    }
    let ty: String = match &s["type"] {
        Value::String(t) => t.clone(),
        Value::Array(ts) => {
            if ts.iter().any(|t| t == "null") {
                return Value::Null;
            }
            ts.first().and_then(|t| t.as_str()).unwrap_or("").to_string()
        }
        _ => String::new(),
    };
    match ty.as_str() {
        "integer" | "number" => json!(0),
        "string" => {
            let h = hint.to_lowercase();
            if ["addr", "recipient", "whitelist", "contract", "owner", "sender", "admin"].iter().any(|w| h.contains(w)) {
                json!(addr(20))
            } else {
                json!("0")
            }
        }
        "boolean" => json!(false),
        "array" => json!([]),
        "object" => {
            let mut m = Map::new();
            if let Some(req) = s["required"].as_array() {
                for r in req.iter().filter_map(|x| x.as_str()) {
                    m.insert(r.to_string(), fill(&s["properties"][r], defs, r, depth + 1));
                }
            }
            Value::Object(m)
        }
        _ => Value::Null,
    }
}

/// every variant of a schema with a minimal raw message for it
fn surface_of(root: &Value) -> Vec<(String, Value)> {
    let defs = &root["definitions"];
    schema_variants(root)
        .into_iter()
        .map(|(n, sch)| {
            let msg = match sch {
                None => Value::String(n.clone()),
                Some(s) => {
                    let mut m = Map::new();
                    m.insert(n.clone(), fill(&s, defs, &n, 0));
                    Value::Object(m)
                }
            };
            (n, msg)
        })
        .collect()
}

struct Surface {
    minter: BTreeMap<u64, Vec<(String, Value)>>,
    factory: BTreeMap<u64, Vec<(String, Value)>>, // by fk_idx
}
impl Surface {
    fn new() -> Surface {
        let mut minter = BTreeMap::new();
        for code in 1..=11u64 {
            minter.insert(code, surface_of(&minter_schema(code)));
        }
        let mut factory = BTreeMap::new();
        for k in [FactoryKind::Vending, FactoryKind::OpenEdition, FactoryKind::TokenMerge, FactoryKind::Base] {
            factory.insert(fk_idx(k), surface_of(&factory_schema(k)));
        }
        Surface { minter, factory }
    }
}

// ------------------------------------------------------------------------------------------------ the SUT

/// GHOST record of a minter the harness created: everything here is what the harness SENT (or was told by the registry at
/// creation), never read back from the minter under test
#[derive(Clone, Debug)]
struct GM {
    addr: String,
    f: u64,
    code: u64,
    n: Option<u64>,
    /// last per-address limit an accepted create / update carried
    per: u64,
    /// creator named in the request
    creator: String,
    /// payer (sender of CreateMinter)
    sender: String,
    start: u64,
}

/// collects the first violated predicate of one op
struct Mon {
    prefix: String,
    ctx: String,
    viol: Option<(String, String)>,
}
impl Mon {
    fn bad(&mut self, pred: &str, what: String) {
        if self.viol.is_none() {
            self.viol = Some((format!("{}/{}", self.prefix, pred), format!("{what} — {}", self.ctx)));
        }
    }
}

struct S {
    w: World,
    log: Vec<String>,
    fkind: BTreeMap<u64, FactoryKind>,
    /// the harness' own contract table: the k-th contract it saw created has model id 1000+k
    ids: Vec<String>,
    /// ghost governance parameters by factory id
    gf: BTreeMap<u64, P>,
    /// ghost minters by minter id
    gm: BTreeMap<u64, GM>,
    viol: Option<(String, String)>,
    panics: u64,
    /// header flag `literal=1`: monitor the LITERAL reading "administered by the creator" also for the wasm (migration) admin
    literal: bool,
    /// header flag `usable=1`: monitor (outside the property) that a created minter can mint
    usable: bool,
    ghost_query_diffs: u64,
    surface: Surface,
    dao: String,
}

impl S {
    fn new() -> S {
        S {
            w: World::new(0),
            log: vec![],
            fkind: BTreeMap::new(),
            ids: vec![],
            gf: BTreeMap::new(),
            gm: BTreeMap::new(),
            viol: None,
            panics: 0,
            literal: false,
            usable: false,
            ghost_query_diffs: 0,
            surface: Surface::new(),
            dao: addr(2),
        }
    }
    fn reset(&mut self) {
        self.w = World::new(0);
        self.log.clear();
        self.fkind.clear();
        self.ids.clear();
        self.gf.clear();
        self.gm.clear();
        self.viol = None;
    }
    /// model id -> real address (contracts through the harness' own table)
    fn a(&self, id: u64) -> String {
        if id >= 1000 {
            if let Some(s) = self.ids.get((id - 1000) as usize) {
                return s.clone();
            }
        }
        addr(id)
    }
    /// real address -> model id
    fn id_of(&self, s: &str) -> u64 {
        if let Some(k) = self.ids.iter().position(|x| x == s) {
            return 1000 + k as u64;
        }
        if let Some(k) = s.strip_prefix("acct") {
            if let Ok(k) = k.parse::<u64>() {
                return k;
            }
        }
        addr_id(s)
    }
    fn jaddr(&self, v: &Value) -> String {
        match v.as_str() {
            Some(s) => self.id_of(s).to_string(),
            None => "-".into(),
        }
    }
    fn ghost(&self, f: u64) -> P {
        self.gf.get(&f).cloned().expect("ghost params of a factory the harness created")
    }
    /// does cw-multi-test still name the k-th contract `contract{k}`? (only used for tripwires that can never false-alarm)
    fn numbering_holds(&self) -> bool {
        self.ids.iter().enumerate().all(|(k, s)| *s == format!("contract{k}"))
    }
    /// every (account, denom) balance in the bank module (cw-multi-test 1.2 has no supply query)
    fn balances(&self) -> Balances {
        self.w.all_balances()
    }
    fn supply_of(b: &Balances, d: &str) -> u128 {
        b.iter().filter(|((_, dd), _)| dd == d).map(|(_, a)| *a).sum()
    }
    fn bal_of(b: &Balances, who: &str, d: &str) -> u128 {
        b.get(&(who.to_string(), d.to_string())).copied().unwrap_or(0)
    }
    fn exists(&self, a: &str) -> bool {
        self.w.app.wrap().query_wasm_contract_info(a).is_ok()
    }
    fn read_params(&self, f: &str, kind: FactoryKind) -> Option<P> {
        let v = self.w.query(f, &json!({"params":{}})).ok()?;
        let p = &v["params"];
        let ext = if kind == FactoryKind::TokenMerge { p } else { &p["extension"] };
        Some(P {
            kind,
            code: p["code_id"].as_u64()?,
            allowed: p["allowed_sg721_code_ids"].as_array()?.iter().filter_map(|x| x.as_u64()).collect(),
            frozen: p["frozen"].as_bool()?,
            fee: jcoin_v(&p["creation_fee"]),
            minp: jcoin_v(&p["min_mint_price"]),
            off: p["max_trading_offset_secs"].as_u64()?,
            maxtok: ext["max_token_limit"].as_u64().unwrap_or(0),
            maxper: ext["max_per_address_limit"].as_u64().unwrap_or(0),
            airp: jcoin_v(&ext["airdrop_mint_price"]),
        })
    }
    /// (primary, drift). primary: payer / factory / DAO balances and `net` = native supply − fair-burn pool, which a native
    /// creation fee lowers by exactly the fee whatever the burn/pool split; drift: pool and supply separately (the split is C06's)
    fn bank_obs(&self, f: &str, sender: &str, fd: u64) -> (String, String) {
        let b = self.balances();
        let fds = denom(fd);
        let nat = denom(0);
        let pool = S::bal_of(&b, POOL, &nat);
        let sup = S::supply_of(&b, &nat);
        (
            format!(
                "bal={},{},{},{},{},{} net={} supfd={} next={}",
                S::bal_of(&b, sender, &fds),
                S::bal_of(&b, sender, &nat),
                S::bal_of(&b, f, &fds),
                S::bal_of(&b, f, &nat),
                S::bal_of(&b, &self.dao, &fds),
                S::bal_of(&b, &self.dao, &nat),
                sup - pool,
                if fd == 0 { "-".to_string() } else { S::supply_of(&b, &fds).to_string() },
                self.ids.len()
            ),
            format!("pool={pool} sup={sup}"),
        )
    }
    fn info_obs(&self, a: &str) -> String {
        match self.w.app.wrap().query_wasm_contract_info(a) {
            Ok(i) => format!("{}:{}:{}", i.code_id, self.id_of(&i.creator), i.admin.map(|x| self.id_of(&x).to_string()).unwrap_or("-".into())),
            Err(_) => "-".into(),
        }
    }
    /// primary: factory,admin,sg721,sg721code,n,per — drift: start,end,price,wl,pay
    fn minter_obs(&self, m: &str) -> (String, String) {
        let Ok(v) = self.w.query(m, &json!({"config":{}})) else { return ("-".into(), "-".into()) };
        let inner = if v.get("config").is_some() { v["config"].clone() } else { v.clone() };
        let sg = if v.get("sg721_address").is_some() { &v["sg721_address"] } else { &v["collection_address"] };
        let code = if v.get("sg721_code_id").is_some() { &v["sg721_code_id"] } else { &inner["collection_code_id"] };
        let price = if inner["mint_price"].is_object() { coin_s(jcoin_v(&inner["mint_price"])) } else { "-".into() };
        (
            format!("{},{},{},{},{},{}", self.jaddr(&inner["factory"]), self.jaddr(&v["admin"]), self.jaddr(sg), jnum(code), jnum(&v["num_tokens"]), jnum(&v["per_address_limit"])),
            format!("{},{},{},{},{}", jnum(&v["start_time"]), jnum(&v["end_time"]), price, self.jaddr(&v["whitelist"]), self.jaddr(&v["payment_address"])),
        )
    }
    /// primary: owner,creator — drift: trade,royshare,roypay
    fn coll_obs(&self, c: &str) -> (String, String) {
        // sg721-updatable has no `Ownership` query; `Minter` (= the cw-ownable owner) exists on all four collections
        let own = self.w.query(c, &json!({"minter":{}})).unwrap_or(Value::Null);
        let Ok(ci) = self.w.query(c, &json!({"collection_info":{}})) else { return ("-".into(), "-".into()) };
        let (rs, rp) = if ci["royalty_info"].is_object() {
            (dec_atomics(ci["royalty_info"]["share"].as_str().unwrap_or("0")).to_string(), self.jaddr(&ci["royalty_info"]["payment_address"]))
        } else {
            ("-".into(), "-".into())
        };
        (format!("{},{}", self.jaddr(&own["minter"]), self.jaddr(&ci["creator"])), format!("{},{},{}", jnum(&ci["start_trading_time"]), rs, rp))
    }
    fn per_of(&self, m: &str) -> String {
        let cfg = self.w.query(m, &json!({"config":{}})).unwrap_or(Value::Null);
        jnum(&cfg["per_address_limit"])
    }

    fn rebuild(&mut self) {
        // a panic inside the contracts: start over and replay the case's op log (the failed op is not in it yet)
        self.panics += 1;
        let log = std::mem::take(&mut self.log);
        self.reset();
        for l in &log {
            let _ = self.exec_inner(l);
            self.log.push(l.clone());
        }
        self.viol = None;
    }

    fn create_json(&self, kind: FactoryKind, line: &str) -> Value {
        let a = |i: u64| self.a(i);
        let creator = match AF::parse(line, "creator") {
            AF::Id(i) => a(i),
            _ => BAD_ADDR.to_string(),
        };
        let url = |ok: bool, good: &str| if ok { good.to_string() } else { BAD_URL.to_string() };
        let link = match kv(line, "link") {
            Some("1") => Value::String("https://example.com/external.html".into()),
            Some("0") => Value::String(BAD_URL.into()),
            _ => Value::Null,
        };
        let roy = match kv_opt_u128(line, "roys").flatten() {
            Some(s) => json!({"payment_address": match AF::parse(line, "royp") { AF::Id(i) => a(i), _ => BAD_ADDR.to_string() }, "share": dec_str(s)}),
            None => Value::Null,
        };
        let cp = json!({
            "code_id": kv_u64(line, "sg721").unwrap_or(0), "name": "Collection", "symbol": "COL",
            "info": {
                "creator": creator, "description": "d".repeat(kv_u64(line, "desc").unwrap_or(0) as usize),
                "image": url(kv_bool(line, "img").unwrap_or(true), "https://example.com/image.png"),
                "external_link": link, "explicit_content": false,
                "start_trading_time": jopt_time(kv_opt_u64(line, "trade").flatten()),
                "royalty_info": roy,
            }
        });
        let n = kv_opt_u64(line, "n").flatten();
        let per = kv_u64(line, "per").unwrap_or(0);
        let start = kv_u64(line, "start").unwrap_or(0);
        let price = kv_coin(line, "price").unwrap_or((0, 0));
        let uri_ok = kv_bool(line, "uri").unwrap_or(true);
        let init = match kind {
            FactoryKind::Vending => json!({
                "base_token_uri": url(uri_ok, GOOD_URI), "payment_address": AF::parse(line, "pay").json(&a),
                "start_time": jtime(start), "num_tokens": n.unwrap_or(0), "mint_price": jcoin(price),
                "per_address_limit": per, "whitelist": AF::parse(line, "wl").json(&a)}),
            FactoryKind::OpenEdition => {
                let nft_ok = kv_bool(line, "nft").unwrap_or(true);
                let token_uri = if nft_ok { Value::String(url(uri_ok, "ipfs://bafybeigi3bwpvyvsmnbj46ra4hyffcxdeaj6ntfk5jpic5mx27x6ih2qvq/1.json")) } else { Value::Null };
                json!({
                    "nft_data": {"nft_data_type": "off_chain_metadata", "extension": null, "token_uri": token_uri},
                    "start_time": jtime(start), "end_time": jopt_time(kv_opt_u64(line, "end").flatten()), "mint_price": jcoin(price),
                    "per_address_limit": per, "num_tokens": n,
                    "payment_address": AF::parse(line, "pay").json(&a), "whitelist": AF::parse(line, "wl").json(&a)})
            }
            FactoryKind::TokenMerge => json!({
                "base_token_uri": url(uri_ok, GOOD_URI), "start_time": jtime(start), "num_tokens": n.unwrap_or(0),
                "mint_tokens": [{"collection": a(1000), "amount": 1}], "per_address_limit": per}),
            FactoryKind::Base => Value::Null,
        };
        json!({"create_minter": {"init_msg": init, "collection_params": cp}})
    }

    fn update_json(kind: FactoryKind, line: &str) -> Value {
        let list = |k: &str| -> Value {
            match kv(line, k) {
                Some("x") | None => Value::Null,
                _ => json!(kv_list(line, k).unwrap_or_default().iter().map(|x| *x as u64).collect::<Vec<u64>>()),
            }
        };
        let optn = |k: &str| -> Value { kv_opt_u64(line, k).flatten().map(|x| json!(x)).unwrap_or(Value::Null) };
        let optc = |k: &str| -> Value { kv_opt_coin(line, k).map(jcoin).unwrap_or(Value::Null) };
        let frozen = match kv(line, "frozen") {
            Some("1") => json!(true),
            Some("0") => json!(false),
            _ => Value::Null,
        };
        let mut m = json!({
            "code_id": optn("code"), "add_sg721_code_ids": list("add"), "rm_sg721_code_ids": list("rm"), "frozen": frozen,
            "creation_fee": optc("fee"), "max_trading_offset_secs": optn("off")});
        if kind != FactoryKind::TokenMerge {
            m["min_mint_price"] = optc("minp");
            m["mint_fee_bps"] = Value::Null;
        }
        m["extension"] = match kind {
            FactoryKind::Vending | FactoryKind::TokenMerge => json!({
                "max_token_limit": optn("maxtok"), "max_per_address_limit": optn("maxper"), "airdrop_mint_price": optc("airp"),
                "airdrop_mint_fee_bps": null, "shuffle_fee": null}),
            FactoryKind::OpenEdition => json!({
                "max_token_limit": optn("maxtok"), "max_per_address_limit": optn("maxper"), "min_mint_price": null,
                "airdrop_mint_fee_bps": null, "airdrop_mint_price": optc("airp"), "dev_fee_address": null}),
            FactoryKind::Base => Value::Null,
        };
        json!({"update_params": m})
    }

    /// GHOST: what an accepted `UpdateParams` the harness sent means for the parameters C08 speaks about. Scalars: the value
    /// sent; allow-list: set union / difference (membership is all C08 needs; order and duplicates are C18's).
    fn ghost_apply(g: &mut P, line: &str) {
        if let Some(c) = kv_opt_u64(line, "code").flatten() {
            g.code = c;
        }
        match kv(line, "frozen") {
            Some("1") => g.frozen = true,
            Some("0") => g.frozen = false,
            _ => {}
        }
        if let Some(c) = kv_opt_coin(line, "fee") {
            g.fee = c;
        }
        if let Some(o) = kv_opt_u64(line, "off").flatten() {
            g.off = o;
        }
        if g.kind != FactoryKind::TokenMerge {
            if let Some(c) = kv_opt_coin(line, "minp") {
                g.minp = c;
            }
        }
        if !matches!(kv(line, "add"), Some("x") | None) {
            for c in kv_list(line, "add").unwrap_or_default() {
                if !g.allowed.contains(&(c as u64)) {
                    g.allowed.push(c as u64);
                }
            }
        }
        if !matches!(kv(line, "rm"), Some("x") | None) {
            let rm: Vec<u64> = kv_list(line, "rm").unwrap_or_default().iter().map(|x| *x as u64).collect();
            g.allowed.retain(|c| !rm.contains(c));
        }
        if g.kind != FactoryKind::Base {
            if let Some(x) = kv_opt_u64(line, "maxtok").flatten() {
                g.maxtok = x;
            }
            if let Some(x) = kv_opt_u64(line, "maxper").flatten() {
                g.maxper = x;
            }
            if let Some(c) = kv_opt_coin(line, "airp") {
                g.airp = c;
            }
        }
    }

    fn params_out(&mut self, f: u64, fa: &str, kind: FactoryKind) -> String {
        match self.read_params(fa, kind) {
            Some(q) => {
                if let Some(g) = self.gf.get(&f) {
                    if !g.same_as(&q) {
                        self.ghost_query_diffs += 1;
                    }
                }
                let (p, d) = q.out();
                format!("{p} ## {d}")
            }
            None => "-".into(),
        }
    }

    /// returns (model line, output); sets `self.viol` when the PROPERTY is violated on the real code
    fn exec_inner(&mut self, line: &str) -> (String, String) {
        let op = line.split_whitespace().next().unwrap_or("");
        match op {
            "time" => {
                self.w.set_time(kv_u64(line, "t").unwrap_or(0));
                (line.to_string(), "ok".into())
            }
            "fund" => {
                let who = self.a(kv_u64(line, "who").unwrap());
                self.w.fund(&who, kv_u64(line, "denom").unwrap(), kv_u128(line, "amt").unwrap());
                (line.to_string(), "ok".into())
            }
            "mkfactory" => {
                let kind = fk_of(kv_u64(line, "kind").unwrap());
                let g = P {
                    kind,
                    code: kv_u64(line, "code").unwrap(),
                    allowed: kv_list(line, "allowed").unwrap().iter().map(|x| *x as u64).collect(),
                    frozen: kv_bool(line, "frozen").unwrap(),
                    fee: kv_coin(line, "fee").unwrap(),
                    minp: kv_coin(line, "minp").unwrap(),
                    off: kv_u64(line, "off").unwrap(),
                    maxtok: kv_u64(line, "maxtok").unwrap(),
                    maxper: kv_u64(line, "maxper").unwrap(),
                    airp: kv_coin(line, "airp").unwrap(),
                };
                let p = FactoryParams {
                    code_id: g.code,
                    allowed_sg721_code_ids: g.allowed.clone(),
                    frozen: g.frozen,
                    creation_fee: g.fee,
                    min_mint_price: g.minp,
                    mint_fee_bps: 1000,
                    max_trading_offset_secs: g.off,
                    max_token_limit: g.maxtok as u32,
                    max_per_address_limit: g.maxper as u32,
                    airdrop_mint_price: g.airp,
                    airdrop_mint_fee_bps: 10_000,
                    shuffle_fee: (0, 500_000_000),
                    dev_fee_address: 60,
                };
                match self.w.new_factory(kind, &p) {
                    Ok(f) => {
                        self.ids.push(f.clone());
                        let id = self.id_of(&f);
                        self.fkind.insert(id, kind);
                        self.gf.insert(id, g);
                        let obs = self.params_out(id, &f, kind);
                        (line.to_string(), format!("ok f={} {}", id, obs))
                    }
                    Err(_) => (line.to_string(), "err".into()),
                }
            }
            "params" => {
                let f = kv_u64(line, "f").unwrap();
                let Some(kind) = self.fkind.get(&f).copied() else { return (line.to_string(), "err -".into()) };
                let fa = self.a(f);
                let r = self.w.sudo(&fa, &S::update_json(kind, line));
                if r.is_ok() {
                    if let Some(g) = self.gf.get_mut(&f) {
                        S::ghost_apply(g, line);
                    }
                }
                let obs = self.params_out(f, &fa, kind);
                (line.to_string(), format!("{} {}", if r.is_ok() { "ok" } else { "err" }, obs))
            }
            "mkwl" => {
                let flex = kv_bool(line, "flex").unwrap();
                let (s, e) = (kv_u64(line, "start").unwrap(), kv_u64(line, "end").unwrap());
                let nat = denom(0);
                let b0 = self.balances();
                let st = WlStage { start: s, end: e, mint_price: (0, 60_000_000), per_address_limit: 2, mint_count_limit: None, members: vec![(20, 1)], merkle_root: String::new() };
                let a = WlArgs { admin: 11, member_limit: 1000, admins_mutable: true, whale_cap: None, stages: vec![st] };
                let r = self.w.new_whitelist(if flex { WlKind::Flex } else { WlKind::Plain }, &a);
                // whatever stays with the whitelist admin is not tracked by the model: burn it so the books stay comparable
                let left = self.w.balance(&addr(11), 0);
                if left > 0 {
                    let _ = cw_multi_test::Executor::execute(&mut self.w.app, cosmwasm_std::Addr::unchecked(addr(11)), cosmwasm_std::BankMsg::Burn { amount: vec![cosmwasm_std::coin(left, nat.clone())] }.into());
                }
                let b1 = self.balances();
                let poold = S::bal_of(&b1, POOL, &nat) - S::bal_of(&b0, POOL, &nat);
                let supd = S::supply_of(&b1, &nat).saturating_sub(S::supply_of(&b0, &nat));
                let base = line.split(" ok=").next().unwrap().to_string();
                match r {
                    Ok(wl) => {
                        self.ids.push(wl.clone());
                        (format!("{base} ok=1 poold={poold} supd={supd}"), format!("ok wl={}", self.id_of(&wl)))
                    }
                    Err(_) => (format!("{base} ok=0 poold=0 supd=0"), "err".into()),
                }
            }
            "create" => self.do_create(line),
            "setlimit" => self.do_setlimit(line),
            "probe" => self.do_probe(line),
            "migrate" => self.do_migrate(line),
            _ => (line.to_string(), "bad-op".into()),
        }
    }

    /// `migrate m=<a> sender=<a>`: wasm-level migration of a created contract to its own code id, by `sender`
    fn do_migrate(&mut self, line: &str) -> (String, String) {
        let mid = kv_u64(line, "m").unwrap();
        let m = self.a(mid);
        let sender = self.a(kv_u64(line, "sender").unwrap());
        let code = self.w.app.wrap().query_wasm_contract_info(&m).map(|i| i.code_id).unwrap_or(0);
        let r = self.w.migrate(&sender, &m, code, &json!({}));
        if let Err(e) = &r {
            if e.starts_with("panic") {
                self.rebuild();
            }
        }
        if let (Ok(_), Some(g)) = (&r, self.gm.get(&mid)) {
            if self.literal && sender != g.creator {
                let f = g.f;
                let kind = self.fkind.get(&f).copied().unwrap_or(FactoryKind::Base);
                self.viol = Some((
                    format!("{}/create_minter/minter-migrated-by-non-creator", fk_name(kind)),
                    format!("LITERAL reading of 'administered by the creator named in the request': the minter {m} created for creator {} was migrated by {sender} (the payer of CreateMinter, its wasm admin) (`{line}`)", g.creator),
                ));
            }
        }
        // who may migrate is decided by the chain (wasm admin), whether the crate's `migrate` accepts is the crate's business: both
        // sides print the wasm admin check in the primary part, the outcome is an observation
        let admin_ok = self.w.app.wrap().query_wasm_contract_info(&m).ok().and_then(|i| i.admin).map(|x| x == sender).unwrap_or(false);
        (line.to_string(), format!("admin={} ## {}", admin_ok as u8, if r.is_ok() { "ok" } else { "err" }))
    }

    /// `probe m=<contract> sender=<a> variant=<name> [funds=<d:a>]`: a message variant found in the crate's schema, sent as raw JSON
    fn do_probe(&mut self, line: &str) -> (String, String) {
        let mid = kv_u64(line, "m").unwrap();
        let m = self.a(mid);
        let sender = self.a(kv_u64(line, "sender").unwrap());
        let variant = kv(line, "variant").unwrap_or("").to_string();
        let funds: Vec<(u64, u128)> = kv_pairs(line, "funds").unwrap_or_default().into_iter().map(|(d, a)| (d as u64, a)).collect();
        let g = self.gm.get(&mid).cloned();
        let fk = self.fkind.get(&mid).copied();
        let msg = match (&g, fk) {
            (Some(g), _) => self.surface.minter.get(&g.code).and_then(|v| v.iter().find(|(n, _)| *n == variant)).map(|x| x.1.clone()),
            (None, Some(k)) => self.surface.factory.get(&fk_idx(k)).and_then(|v| v.iter().find(|(n, _)| *n == variant)).map(|x| x.1.clone()),
            _ => None,
        }
        .unwrap_or_else(|| {
            let mut o = Map::new();
            o.insert(variant.clone(), json!({}));
            Value::Object(o)
        });
        let n0 = self.ids.len();
        let r = self.w.exec(&sender, &m, &msg, &funds);
        if let Err(e) = &r {
            if e.starts_with("panic") {
                self.rebuild();
            }
        }
        let who = match (&g, fk) {
            (Some(g), _) => minter_name(g.code).to_string(),
            (None, Some(k)) => fk_name(k).to_string(),
            _ => "contract".to_string(),
        };
        let mut mon = Mon { prefix: format!("{who}/{variant}"), ctx: format!("op `{line}` msg {msg}"), viol: None };
        if let Ok(resp) = &r {
            let created = resp.events.iter().filter(|e| e.ty == "instantiate").count();
            if created > 0 || (self.numbering_holds() && self.exists(&format!("contract{n0}"))) {
                mon.bad("created-contract-outside-create-minter", format!("a message other than CreateMinter instantiated {created} contract(s)"));
            }
        }
        let per_now = self.per_of(&m);
        if let Some(g) = &g {
            if g.code != 11 && per_now != g.per.to_string() {
                mon.bad("per-address-limit-changed-outside-update", format!("per_address_limit is {per_now}, the last accepted create/UpdatePerAddressLimit carried {}", g.per));
            }
            let can_pay = funds.iter().all(|(d, a)| self.w.balance(&sender, *d) >= *a) && !funds.is_empty();
            if self.usable && variant == "mint" && r.is_err() && can_pay && self.w.time() >= g.start {
                let kind = self.fkind.get(&g.f).copied().unwrap_or(FactoryKind::Base);
                mon.prefix = format!("{}/create_minter", fk_name(kind));
                mon.bad("created-minter-cannot-mint", format!("(OUTSIDE the property text) the minter {m} ({}) created through this factory rejects a fully paid public mint after its start time: {}", minter_name(g.code), r.as_ref().err().map(|e| e.rsplit(": ").take(2).collect::<Vec<_>>().into_iter().rev().collect::<Vec<_>>().join(": ")).unwrap_or_default()));
            }
        }
        if self.viol.is_none() {
            self.viol = mon.viol;
        }
        (line.to_string(), format!("per={} next={} ## {}", per_now, self.ids.len(), if r.is_ok() { "ok" } else { "err" }))
    }

    fn do_setlimit(&mut self, line: &str) -> (String, String) {
        let mid = kv_u64(line, "m").unwrap();
        let m = self.a(mid);
        let sender = self.a(kv_u64(line, "sender").unwrap());
        let funds: Vec<(u64, u128)> = kv_pairs(line, "funds").unwrap().into_iter().map(|(d, a)| (d as u64, a)).collect();
        let l = kv_u64(line, "limit").unwrap();
        let r = self.w.exec(&sender, &m, &json!({"update_per_address_limit": {"per_address_limit": l}}), &funds);
        if let Err(e) = &r {
            if e.starts_with("panic") {
                self.rebuild();
            }
        }
        let per = self.per_of(&m);
        // monitor: "a later per-address-limit update on the minter is held to the same bounds" — against the GHOST: the factory
        // parameters the harness sent, the token count and the creator it named when it created this minter
        if let Some(g) = self.gm.get(&mid).cloned() {
            let p = self.ghost(g.f);
            let mut mon = Mon { prefix: format!("{}/update_per_address_limit", minter_name(g.code)), ctx: format!("ghost params [{}] op `{line}`", p.obs()), viol: None };
            if r.is_ok() {
                if l < 1 || l > p.maxper {
                    mon.bad("outside-governance-bound", format!("limit {l} accepted, the factory's max_per_address_limit is {}", p.maxper));
                } else if enforces_3pct(g.code) {
                    let n = g.n.unwrap_or(0);
                    let bound = if n < 100 { 3 } else { ceil3pct(n) };
                    if l > bound {
                        mon.bad("outside-3pct", format!("limit {l} accepted for {n} tokens (3% bound {bound})"));
                    }
                }
                if sender != g.creator {
                    mon.bad("not-admin", format!("limit updated by {sender}; the creator named in the request is {}", g.creator));
                }
                if g.code != 11 && per != l.to_string() {
                    mon.bad("accepted-limit-not-stored", format!("update to {l} accepted, Config says {per}"));
                }
                if let Some(gm) = self.gm.get_mut(&mid) {
                    gm.per = l;
                }
            } else if g.code != 11 && per != g.per.to_string() {
                mon.bad("rejected-update-changed-limit", format!("update to {l} rejected, per_address_limit went {} -> {per}", g.per));
            }
            if self.viol.is_none() {
                self.viol = mon.viol;
            }
        }
        (line.to_string(), format!("{} per={}", if r.is_ok() { "ok" } else { "err" }, per))
    }

    fn do_create(&mut self, line: &str) -> (String, String) {
        let f = kv_u64(line, "f").unwrap();
        let sender_id = kv_u64(line, "sender").unwrap();
        let fa = self.a(f);
        let sender = self.a(sender_id);
        let funds: Vec<(u64, u128)> = kv_pairs(line, "funds").unwrap().into_iter().map(|(d, a)| (d as u64, a)).collect();
        let Some(kind) = self.fkind.get(&f).copied() else {
            let (bp, bd) = self.bank_obs(&fa, &sender, 0);
            return (line.to_string(), format!("err {bp} ## {bd}"));
        };
        // GHOST parameters: what the harness itself sent to this factory (instantiate + accepted updates)
        let p = self.ghost(f);
        let b0 = self.balances();
        let n0 = self.ids.len();
        let fdump0 = self.w.dump(&fa);
        let now = self.w.time();
        let msg = self.create_json(kind, line);
        let res = self.w.exec(&sender, &fa, &msg, &funds);
        if let Err(e) = &res {
            if e.starts_with("panic") {
                self.rebuild();
            }
        }
        let b1 = self.balances();
        let mut mon = Mon { prefix: format!("{}/create_minter", fk_name(kind)), ctx: format!("ghost params [{}] now={now} op `{line}`", p.obs()), viol: None };
        let out = match res {
            Err(_) => {
                // "on rejection nothing is created and no funds move" (cannot fire while the chain executes transactions
                // atomically; kept as a tripwire for the harness / a factory that swallows a failed instantiate)
                if b0 != b1 {
                    mon.bad("rejected-moved-funds", "rejected create changed bank balances".into());
                }
                if self.numbering_holds() && self.exists(&format!("contract{n0}")) {
                    mon.bad("rejected-created-contract", format!("rejected create left a new contract contract{n0} in the registry"));
                }
                if fdump0 != self.w.dump(&fa) {
                    mon.bad("rejected-changed-factory-state", "rejected create changed the factory's storage".into());
                }
                let (bp, bd) = self.bank_obs(&fa, &sender, p.fee.0);
                format!("err {bp} ## {bd}")
            }
            Ok(r) => {
                let mut addrs: Vec<String> = r.events.iter().filter(|e| e.ty == "instantiate").filter_map(|e| e.attributes.iter().find(|at| at.key == "_contract_address" || at.key == "_contract_addr").map(|at| at.value.clone())).collect();
                if addrs.is_empty() && self.numbering_holds() {
                    // event attribute names changed: fall back to cw-multi-test's naming
                    addrs = (0..8).map(|k| format!("contract{}", n0 + k)).take_while(|a| self.exists(a)).collect();
                }
                let fresh = addrs.iter().all(|a| self.exists(a) && !self.ids.contains(a)) && addrs.iter().collect::<BTreeSet<_>>().len() == addrs.len();
                if addrs.len() != 2 || !fresh {
                    mon.bad("not-exactly-two-contracts", format!("CreateMinter succeeded and instantiated {:?} (expected exactly one new minter and one new collection)", addrs));
                }
                let (m, c) = (addrs.first().cloned().unwrap_or_default(), addrs.get(1).cloned().unwrap_or_default());
                let live: Vec<String> = addrs.iter().filter(|a| self.exists(a)).cloned().collect();
                for a in live {
                    if !self.ids.contains(&a) {
                        self.ids.push(a);
                    }
                }
                if self.numbering_holds() && self.exists(&format!("contract{}", self.ids.len())) {
                    mon.bad("not-exactly-two-contracts", format!("a contract beyond the {} instantiate events exists", addrs.len()));
                }
                // ---- monitor: preconditions the property lists
                if p.frozen {
                    mon.bad("created-while-frozen", "minter created while the factory is frozen".into());
                }
                let sg721 = kv_u64(line, "sg721").unwrap_or(0);
                if !p.allowed.contains(&sg721) {
                    mon.bad("disallowed-code-id", format!("collection code id {sg721} not on the allow-list"));
                }
                let paid = match funds.as_slice() {
                    [(d, a)] if *d == p.fee.0 => Some(*a),
                    _ => None,
                };
                match paid {
                    None => mon.bad("wrong-coins", "created without exactly one coin in the fee denom".into()),
                    Some(a) if a < p.fee.1 => mon.bad("underpaid", format!("paid {a} < fee {}", p.fee.1)),
                    Some(a) if kind == FactoryKind::OpenEdition && a != p.fee.1 => mon.bad("not-exact-fee", format!("open edition paid {a} != fee {}", p.fee.1)),
                    _ => {}
                }
                let n = kv_opt_u64(line, "n").flatten();
                let per = kv_u64(line, "per").unwrap_or(0);
                let price = kv_coin(line, "price").unwrap_or((0, 0));
                let start = kv_u64(line, "start").unwrap_or(0);
                let end = kv_opt_u64(line, "end").flatten();
                match kind {
                    FactoryKind::Vending | FactoryKind::TokenMerge => {
                        let nn = n.unwrap_or(0);
                        if nn < 1 || nn > p.maxtok {
                            mon.bad("token-count-out-of-bounds", format!("num_tokens {nn} not in 1..={}", p.maxtok));
                        }
                        if per < 1 || per > p.maxper {
                            mon.bad("per-address-limit-out-of-bounds", format!("per_address_limit {per} not in 1..={}", p.maxper));
                        }
                        if enforces_3pct(p.code) {
                            let bound = if nn < 100 { 3 } else { ceil3pct(nn) };
                            if per > bound {
                                mon.bad("outside-3pct", format!("per_address_limit {per} > 3% bound {bound} of {nn} tokens"));
                            }
                        }
                        if kind == FactoryKind::Vending && (price.0 != p.minp.0 || price.1 < p.minp.1) {
                            mon.bad("price-below-min-or-wrong-denom", format!("mint price {} vs minimum {}", coin_s(price), coin_s(p.minp)));
                        }
                    }
                    FactoryKind::OpenEdition => {
                        if let Some(nn) = n {
                            if nn < 1 || nn > p.maxtok {
                                mon.bad("token-count-out-of-bounds", format!("num_tokens {nn} not in 1..={}", p.maxtok));
                            }
                        }
                        if per < 1 || per > p.maxper {
                            mon.bad("per-address-limit-out-of-bounds", format!("per_address_limit {per} not in 1..={}", p.maxper));
                        }
                        if price.0 != p.minp.0 || price.1 < p.minp.1 {
                            mon.bad("price-below-min-or-wrong-denom", format!("mint price {} vs minimum {}", coin_s(price), coin_s(p.minp)));
                        }
                        if start <= now {
                            mon.bad("start-not-in-future", format!("start {start} <= now {now}"));
                        }
                        if let Some(e) = end {
                            if e <= start {
                                mon.bad("end-not-after-start", format!("end {e} <= start {start}"));
                            }
                        }
                        if end.is_none() && n.is_none() {
                            mon.bad("no-end-and-no-cap", "neither end time nor token cap".into());
                        }
                        if price.1 == 0 && n.is_none() {
                            mon.bad("zero-price-without-cap", "zero mint price without a token cap".into());
                        }
                    }
                    FactoryKind::Base => {}
                }
                // ---- monitor: wiring
                let creator = match AF::parse(line, "creator") {
                    AF::Id(i) => self.a(i),
                    _ => String::new(),
                };
                let mi = self.w.app.wrap().query_wasm_contract_info(&m).ok();
                let ci = self.w.app.wrap().query_wasm_contract_info(&c).ok();
                let cfg = self.w.query(&m, &json!({"config":{}})).unwrap_or(Value::Null);
                let inner = if cfg.get("config").is_some() { cfg["config"].clone() } else { cfg.clone() };
                let sg_in_minter = cfg.get("sg721_address").or(cfg.get("collection_address")).and_then(|x| x.as_str()).unwrap_or("").to_string();
                let coll_minter = self.w.query(&c, &json!({"minter":{}})).ok().and_then(|v| v["minter"].as_str().map(String::from)).unwrap_or_default();
                // (sg721-updatable does not expose `Ownership`; where it exists it must agree)
                let coll_owner = self.w.query(&c, &json!({"ownership":{}})).ok().map(|v| v["owner"].as_str().map(String::from).unwrap_or_default()).unwrap_or(m.clone());
                let coll_info = self.w.query(&c, &json!({"collection_info":{}})).unwrap_or(Value::Null);
                match (&mi, &ci) {
                    (Some(mi), Some(ci)) => {
                        if mi.creator != fa || mi.code_id != p.code {
                            mon.bad("minter-not-from-this-factory", format!("minter {m}: instantiated by {} with code {}", mi.creator, mi.code_id));
                        }
                        if ci.creator != m || ci.code_id != sg721 {
                            mon.bad("collection-not-from-this-minter", format!("collection {c}: instantiated by {} with code {}", ci.creator, ci.code_id));
                        }
                        if ci.admin.as_deref() != Some(creator.as_str()) {
                            mon.bad("collection-admin-not-creator", format!("collection wasm admin {:?}, creator {creator}", ci.admin));
                        }
                        if mi.admin.as_deref() != Some(sender.as_str()) {
                            mon.bad("minter-wasm-admin-not-sender", format!("minter wasm admin {:?}, sender {sender}", mi.admin));
                        }
                        if self.literal && mi.admin.as_deref() != Some(creator.as_str()) {
                            mon.bad("minter-wasm-admin-not-creator", format!("LITERAL reading of 'administered by the creator named in the request': the minter's wasm (migration) admin is {:?}, the creator named in the request is {creator}", mi.admin));
                        }
                    }
                    _ => mon.bad("new-contracts-missing", format!("minter `{m}` / collection `{c}` not in the registry")),
                }
                if inner["factory"].as_str() != Some(fa.as_str()) {
                    mon.bad("minter-factory-link", format!("minter config factory {} != {fa}", inner["factory"]));
                }
                if sg_in_minter != c {
                    mon.bad("minter-collection-link", format!("minter records collection `{sg_in_minter}`, created `{c}`"));
                }
                if coll_minter != m || coll_owner != m {
                    mon.bad("collection-minter-link", format!("collection minter `{coll_minter}` / owner `{coll_owner}`, created minter `{m}`"));
                }
                if coll_info["creator"].as_str() != Some(creator.as_str()) {
                    mon.bad("collection-creator", format!("collection creator {} != {creator}", coll_info["creator"]));
                }
                if p.code != 11 && cfg["admin"].as_str() != Some(creator.as_str()) {
                    mon.bad("minter-admin-not-creator", format!("minter admin {} != creator {creator}", cfg["admin"]));
                }
                if p.code != 11 && kind != FactoryKind::Base && jnum(&cfg["per_address_limit"]) != per.to_string() {
                    mon.bad("stored-limit-not-requested", format!("minter stores per_address_limit {}, requested {per}", cfg["per_address_limit"]));
                }
                // ---- monitor: fee disposal ("never less than the fee, never more than was paid")
                if let Some(paid) = paid {
                    let fd = denom(p.fee.0);
                    let dao = self.dao.clone();
                    let d = |who: &str| S::bal_of(&b1, who, &fd) as i128 - S::bal_of(&b0, who, &fd) as i128;
                    let burned = S::supply_of(&b0, &fd) as i128 - S::supply_of(&b1, &fd) as i128;
                    let disposed = burned + d(POOL) + d(&dao);
                    if disposed < p.fee.1 as i128 {
                        mon.bad("fee-disposed-less-than-fee", format!("burned {burned} + pool {} + dao {} = {disposed} < fee {}", d(POOL), d(&dao), p.fee.1));
                    }
                    if disposed > paid as i128 {
                        mon.bad("fee-disposed-more-than-paid", format!("disposed {disposed} > paid {paid}"));
                    }
                    if d(&sender) != -(paid as i128) {
                        mon.bad("payer-delta", format!("payer balance changed by {} for a payment of {paid}", d(&sender)));
                    }
                    if d(&fa) != paid as i128 - disposed {
                        mon.bad("factory-delta", format!("factory balance changed by {}, paid {paid}, disposed {disposed}", d(&fa)));
                    }
                    // nothing else moved
                    let mut keys: Vec<&(String, String)> = b0.keys().chain(b1.keys()).collect();
                    keys.sort();
                    keys.dedup();
                    for k in keys {
                        let same = b0.get(k) == b1.get(k);
                        let expected = k.1 == fd && (k.0 == sender || k.0 == fa || k.0 == POOL || k.0 == dao);
                        if !same && !expected {
                            mon.bad("unexpected-transfer", format!("balance of {:?} changed {:?} -> {:?}", k, b0.get(k), b1.get(k)));
                        }
                    }
                }
                if !m.is_empty() {
                    let mid = self.id_of(&m);
                    self.gm.insert(mid, GM { addr: m.clone(), f, code: p.code, n, per, creator: creator.clone(), sender: sender.clone(), start });
                }
                let (bp, bd) = self.bank_obs(&fa, &sender, p.fee.0);
                let (cfgp, cfgd) = self.minter_obs(&m);
                let (colp, cold) = self.coll_obs(&c);
                format!(
                    "ok m={} c={} mi={} ci={} cfg={} col={} {} ## cfgx={} colx={} {}",
                    self.id_of(&m),
                    self.id_of(&c),
                    self.info_obs(&m),
                    self.info_obs(&c),
                    cfgp,
                    colp,
                    bp,
                    cfgd,
                    cold,
                    bd
                )
            }
        };
        if self.viol.is_none() {
            self.viol = mon.viol;
        }
        (line.to_string(), out)
    }
}

impl Sut for S {
    fn begin(&mut self, header: &str) -> (String, String) {
        self.reset();
        self.literal = kv(header, "literal") == Some("1");
        self.usable = kv(header, "usable") == Some("1");
        (header.to_string(), "case".into())
    }
    fn exec(&mut self, line: &str) -> (String, String) {
        self.viol = None;
        let r = self.exec_inner(line);
        self.log.push(line.to_string());
        r
    }
    fn monitor(&mut self) -> Option<(String, String)> {
        self.viol.take()
    }
}

// ------------------------------------------------------------------------------------------------ generators

#[derive(Clone, Debug)]
struct Cr {
    f: u64,
    sender: u64,
    funds: Vec<(u64, u128)>,
    sg721: u64,
    creator: AF,
    n: Option<u64>,
    per: u64,
    start: u64,
    end: Option<u64>,
    price: (u64, u128),
    pay: AF,
    wl: AF,
    trade: Option<u64>,
    roys: Option<u128>,
    royp: AF,
    desc: u64,
    img: bool,
    link: Option<bool>,
    uri: bool,
    nft: bool,
}
impl Cr {
    fn line(&self) -> String {
        format!(
            "create f={} sender={} funds={} sg721={} creator={} n={} per={} start={} end={} price={} pay={} wl={} trade={} roys={} royp={} desc={} img={} link={} uri={} nft={}",
            self.f,
            self.sender,
            fmt_pairs(&self.funds),
            self.sg721,
            self.creator.s(),
            fmt_opt(&self.n),
            self.per,
            self.start,
            fmt_opt(&self.end),
            coin_s(self.price),
            self.pay.s(),
            self.wl.s(),
            fmt_opt(&self.trade),
            fmt_opt(&self.roys),
            self.royp.s(),
            self.desc,
            self.img as u8,
            match self.link {
                None => "-".to_string(),
                Some(b) => (b as u8).to_string(),
            },
            self.uri as u8,
            self.nft as u8
        )
    }
}

#[derive(Clone, Copy, Debug, PartialEq, Eq)]
enum Fault {
    None,
    FundsUnder,
    FundsOver1,
    FundsOverLots,
    FundsEmpty,
    FundsWrongDenom,
    FundsTwoCoins,
    FundsZero,
    CodeNotAllowed,
    NZero,
    NOver,
    PerZero,
    PerOverMax,
    PerOver3pct,
    PriceUnder,
    PriceDenom,
    PriceDenom2,
    StartPast,
    StartNow,
    StartBeforeGenesis,
    EndAtStart,
    EndBeforeStart,
    NoEndNoCap,
    NoCap,
    ZeroPriceNoCap,
    BadCreator,
    BadPay,
    BadWlString,
    WlOther,
    WlNotAContract,
    TradeOver,
    TradeAt,
    RoyOver,
    RoyMax,
    RoyBadPay,
    DescLong,
    DescMax,
    BadImg,
    BadLink,
    BadUri,
    BadNft,
    OtherCreator,
    JunkAllowedCode,
    PoorSender,
}
const FAULTS: [Fault; 44] = [
    Fault::None,
    Fault::FundsUnder,
    Fault::FundsOver1,
    Fault::FundsOverLots,
    Fault::FundsEmpty,
    Fault::FundsWrongDenom,
    Fault::FundsTwoCoins,
    Fault::FundsZero,
    Fault::CodeNotAllowed,
    Fault::NZero,
    Fault::NOver,
    Fault::PerZero,
    Fault::PerOverMax,
    Fault::PerOver3pct,
    Fault::PriceUnder,
    Fault::PriceDenom,
    Fault::PriceDenom2,
    Fault::StartPast,
    Fault::StartNow,
    Fault::StartBeforeGenesis,
    Fault::EndAtStart,
    Fault::EndBeforeStart,
    Fault::NoEndNoCap,
    Fault::NoCap,
    Fault::ZeroPriceNoCap,
    Fault::BadCreator,
    Fault::BadPay,
    Fault::BadWlString,
    Fault::WlOther,
    Fault::WlNotAContract,
    Fault::TradeOver,
    Fault::TradeAt,
    Fault::RoyOver,
    Fault::RoyMax,
    Fault::RoyBadPay,
    Fault::DescLong,
    Fault::DescMax,
    Fault::BadImg,
    Fault::BadLink,
    Fault::BadUri,
    Fault::BadNft,
    Fault::OtherCreator,
    Fault::JunkAllowedCode,
    Fault::PoorSender,
];

#[derive(Clone, Debug)]
struct Wl {
    id: u64,
    flex: bool,
    start: u64,
    end: u64,
}

fn three_bound(code: u64, n: u64, maxper: u64) -> u64 {
    if enforces_3pct(code) {
        maxper.min(if n < 100 { 3 } else { ceil3pct(n) })
    } else {
        maxper
    }
}

/// a create message that is valid under `p` at `now` whenever one exists (boundary values preferred)
fn baseline(rng: &mut Rng, f: u64, p: &P, now: u64, wls: &[Wl]) -> Cr {
    let sender = *rng.pick(&[10u64, 12]);
    let creator = if rng.chance(2, 3) { sender } else { 13 };
    let sg_ok: Vec<u64> = p.allowed.iter().copied().filter(|c| (16..=19).contains(c)).collect();
    let sg721 = if sg_ok.is_empty() { 16 } else { *rng.pick(&sg_ok) };
    let oe = p.kind == FactoryKind::OpenEdition;
    // token count
    let n_choices: Vec<u64> = [1u64, 2, 33, 34, 99, 100, 101, 133, 134, 167, p.maxtok.saturating_sub(1), p.maxtok].iter().copied().filter(|x| *x >= 1 && *x <= p.maxtok.max(1)).collect();
    let mut n = Some(*rng.pick(&n_choices));
    let mut end = None;
    let start = if oe { now + *rng.pick(&[1u64, 2, 86_400 * NS]) } else { now.max(GENESIS) + *rng.pick(&[0u64, 0, 1, 86_400 * NS]) };
    if oe {
        end = if rng.chance(2, 3) { Some(start + *rng.pick(&[1u64, 7 * 86_400 * NS])) } else { None };
        if end.is_some() && p.airp.1 != 0 && rng.chance(1, 3) {
            n = None;
        }
    }
    let bound = three_bound(p.code, n.unwrap_or(0), p.maxper);
    let per_choices: Vec<u64> = [1u64, bound.saturating_sub(1), bound, bound].iter().copied().filter(|x| *x >= 1).collect();
    let per = if per_choices.is_empty() { 1 } else { *rng.pick(&per_choices) };
    let mut price = (p.minp.0, p.minp.1 + *rng.pick(&[0u128, 0, 1, 50_000_000]));
    if oe && n.is_none() && price.1 == 0 {
        price.1 = 1;
    }
    // whitelist: mostly none, sometimes a compatible one
    let flex_needed = matches!(p.code, 3 | 4 | 8);
    let compat: Vec<&Wl> = wls.iter().filter(|w| w.flex == flex_needed).collect();
    let wl = if !compat.is_empty() && rng.chance(1, 3) && p.kind != FactoryKind::TokenMerge && p.kind != FactoryKind::Base { AF::Id(rng.pick(&compat).id) } else { AF::Absent };
    let trade = match rng.below(6) {
        0 => Some(start + p.off * NS),
        1 => Some((start + p.off * NS).saturating_sub(1)),
        2 => Some(start),
        _ => None,
    };
    let (roys, royp) = match rng.below(6) {
        0 => (Some(50_000_000_000_000_000u128), AF::Id(14)),
        1 => (Some(0), AF::Id(14)),
        _ => (None, AF::Absent),
    };
    Cr {
        f,
        sender,
        funds: vec![p.fee],
        sg721,
        creator: AF::Id(creator),
        n,
        per,
        start,
        end,
        price,
        pay: if rng.chance(1, 5) { AF::Id(15) } else { AF::Absent },
        wl,
        trade,
        roys,
        royp,
        desc: *rng.pick(&[0u64, 12, 100]),
        img: true,
        link: if rng.chance(1, 2) { Some(true) } else { None },
        uri: true,
        nft: true,
    }
}

/// single-fault mutation; returns false when the fault makes no sense for this factory
fn apply_fault(rng: &mut Rng, c: &mut Cr, fault: Fault, p: &P, now: u64, wls: &[Wl], other_contract: u64) -> bool {
    let oe = p.kind == FactoryKind::OpenEdition;
    let has_sale = matches!(p.kind, FactoryKind::Vending | FactoryKind::OpenEdition | FactoryKind::TokenMerge);
    let has_price = matches!(p.kind, FactoryKind::Vending | FactoryKind::OpenEdition);
    let has_wl = has_price;
    match fault {
        Fault::None => {}
        Fault::FundsUnder => {
            if p.fee.1 == 0 {
                return false;
            }
            c.funds = vec![(p.fee.0, p.fee.1 - 1)]
        }
        Fault::FundsOver1 => c.funds = vec![(p.fee.0, p.fee.1 + 1)],
        Fault::FundsOverLots => c.funds = vec![(p.fee.0, p.fee.1 + 1 + rng.sized_u128(40))],
        Fault::FundsEmpty => c.funds = vec![],
        Fault::FundsWrongDenom => c.funds = vec![((p.fee.0 + 1) % 3, p.fee.1.max(1))],
        Fault::FundsTwoCoins => c.funds = vec![(p.fee.0, p.fee.1.max(1)), ((p.fee.0 + 1) % 3, 5)],
        Fault::FundsZero => c.funds = vec![(p.fee.0, 0)],
        Fault::CodeNotAllowed => {
            let not: Vec<u64> = (16..=19).filter(|x| !p.allowed.contains(x)).collect();
            c.sg721 = if not.is_empty() { 999 } else { *rng.pick(&not) }
        }
        Fault::NZero if has_sale => c.n = Some(0),
        Fault::NOver if has_sale => c.n = Some(p.maxtok + 1),
        Fault::PerZero if has_sale => c.per = 0,
        Fault::PerOverMax if has_sale => c.per = p.maxper + 1,
        Fault::PerOver3pct if has_sale => {
            let n = c.n.unwrap_or(0);
            c.per = (if n < 100 { 3 } else { ceil3pct(n) }) + 1
        }
        Fault::PriceUnder if has_price => {
            if p.minp.1 == 0 {
                return false;
            }
            c.price.1 = p.minp.1 - 1
        }
        Fault::PriceDenom if has_price => c.price.0 = (p.minp.0 + 1) % 3,
        // the other wrong denom: under a NON-native minimum this is the native one
        Fault::PriceDenom2 if has_price => c.price.0 = (p.minp.0 + 2) % 3,
        Fault::StartPast if has_sale => c.start = now.saturating_sub(1),
        Fault::StartNow if has_sale => c.start = now,
        Fault::StartBeforeGenesis if has_sale => c.start = GENESIS - 1,
        Fault::EndAtStart if oe => c.end = Some(c.start),
        Fault::EndBeforeStart if oe => c.end = Some(c.start.saturating_sub(1)),
        Fault::NoEndNoCap if oe => {
            c.end = None;
            c.n = None
        }
        Fault::NoCap if oe => {
            c.n = None;
            if c.end.is_none() {
                c.end = Some(c.start + 1)
            }
        }
        Fault::ZeroPriceNoCap if oe => {
            c.n = None;
            c.price.1 = 0;
            if c.end.is_none() {
                c.end = Some(c.start + 1)
            }
        }
        Fault::BadCreator => c.creator = AF::Bad,
        Fault::BadPay if has_price => c.pay = AF::Bad,
        Fault::BadWlString if has_wl => c.wl = AF::Bad,
        Fault::WlOther if has_wl => {
            if wls.is_empty() {
                return false;
            }
            c.wl = AF::Id(rng.pick(wls).id)
        }
        Fault::WlNotAContract if has_wl => c.wl = AF::Id(other_contract),
        Fault::TradeOver => c.trade = Some(c.start + p.off * NS + 1),
        Fault::TradeAt => c.trade = Some(c.start + p.off * NS),
        Fault::RoyOver => {
            c.roys = Some(10u128.pow(18) + 1);
            c.royp = AF::Id(14)
        }
        Fault::RoyMax => {
            c.roys = Some(10u128.pow(18));
            c.royp = AF::Id(14)
        }
        Fault::RoyBadPay => {
            c.roys = Some(10u128.pow(16));
            c.royp = AF::Bad
        }
        Fault::DescLong => c.desc = 513,
        Fault::DescMax => c.desc = 512,
        Fault::BadImg => c.img = false,
        Fault::BadLink => c.link = Some(false),
        Fault::BadUri if has_sale => c.uri = false,
        Fault::BadNft if oe => c.nft = false,
        Fault::OtherCreator => c.creator = AF::Id(if c.sender == 10 { 12 } else { 10 }),
        Fault::JunkAllowedCode => {
            // allow-listed, but not the code of a collection contract
            let junk: Vec<u64> = p.allowed.iter().copied().filter(|x| !(16..=19).contains(x)).collect();
            if junk.is_empty() {
                return false;
            }
            c.sg721 = *rng.pick(&junk)
        }
        Fault::PoorSender => c.sender = 17, // an account that owns nothing (or, in the grid, exactly one fee)
        _ => return false,
    }
    true
}

fn family_codes(k: FactoryKind) -> Vec<u64> {
    match k {
        FactoryKind::Vending => vec![1, 2, 3, 4, 5, 6],
        FactoryKind::OpenEdition => vec![7, 8, 9],
        FactoryKind::TokenMerge => vec![10],
        FactoryKind::Base => vec![11],
    }
}

fn mkfactory_line(p: &P) -> String {
    format!("mkfactory kind={} {}", fk_idx(p.kind), p.obs())
}

fn random_params(rng: &mut Rng, kind: FactoryKind) -> P {
    let fam = family_codes(kind);
    let mut code = *rng.pick(&fam);
    if rng.chance(1, 25) {
        code = *rng.pick(&[1u64, 7, 10, 11, 16, 999]); // cross-family / not a minter / no such code
    }
    let mut allowed: Vec<u64> = vec![16, 17, 18, 19].into_iter().filter(|_| rng.chance(3, 4)).collect();
    if rng.chance(1, 10) {
        allowed.push(*rng.pick(&[20u64, 999, 11, 16]));
    }
    rng.shuffle(&mut allowed);
    let fee_denom = if rng.chance(7, 10) { 0 } else { 1 };
    let fee_amt = match rng.below(8) {
        0 => rng.below(4) as u128,
        1 => 2,
        2 => 3,
        _ => 1_000_000 + rng.sized_u128(34),
    };
    // instantiate stores the minimum price verbatim, so a non-native minimum is a reachable parameter setting
    let minp = (if rng.chance(1, 4) { 1u64 } else { 0 }, *rng.pick(&[0u128, 1, 50_000_000, 50_000_000]));
    let has_ext = kind != FactoryKind::Base;
    P {
        kind,
        code,
        allowed,
        frozen: rng.chance(1, 12),
        fee: (fee_denom, fee_amt),
        minp: if kind == FactoryKind::TokenMerge { (0, 0) } else { minp },
        off: *rng.pick(&[0u64, 1, 604_800]),
        maxtok: if has_ext { *rng.pick(&[1u64, 2, 50, 99, 100, 101, 134, 200, 400]) } else { 0 },
        maxper: if has_ext { *rng.pick(&[1u64, 2, 3, 4, 5, 6, 50]) } else { 0 },
        airp: if has_ext { (0, *rng.pick(&[0u128, 0, 5])) } else { (0, 0) },
    }
}

fn upd_line(f: u64, fields: &BTreeMap<&str, String>) -> String {
    let g = |k: &str, none: &str| fields.get(k).cloned().unwrap_or(none.to_string());
    format!(
        "params f={f} code={} add={} rm={} frozen={} fee={} minp={} off={} maxtok={} maxper={} airp={}",
        g("code", "-"),
        g("add", "x"),
        g("rm", "x"),
        g("frozen", "-"),
        g("fee", "-"),
        g("minp", "-"),
        g("off", "-"),
        g("maxtok", "-"),
        g("maxper", "-"),
        g("airp", "-")
    )
}

fn upd(f: u64, field: &'static str, val: String) -> String {
    let mut m = BTreeMap::new();
    m.insert(field, val);
    upd_line(f, &m)
}

fn params_update_line(rng: &mut Rng, f: u64, p: &P) -> (String, String) {
    let mut fields: BTreeMap<&str, String> = BTreeMap::new();
    let fam = family_codes(p.kind);
    let has_ext = p.kind != FactoryKind::Base;
    let what = match rng.below(12) {
        0 => {
            fields.insert("frozen", (!p.frozen as u8).to_string());
            "frozen"
        }
        1 => {
            fields.insert("code", if rng.chance(1, 8) { rng.pick(&[1u64, 7, 10, 11, 999]).to_string() } else { rng.pick(&fam).to_string() });
            "code"
        }
        2 => {
            let add: Vec<u64> = (0..rng.range(1, 3)).map(|_| *rng.pick(&[16u64, 17, 18, 19, 19, 20])).collect();
            fields.insert("add", fmt_list(&add));
            "add"
        }
        3 => {
            let rm: Vec<u64> = (0..rng.range(1, 2)).map(|_| *rng.pick(&[16u64, 17, 18, 19])).collect();
            fields.insert("rm", fmt_list(&rm));
            if rng.chance(1, 2) {
                fields.insert("add", fmt_list(&[*rng.pick(&[16u64, 17, 18, 19])]));
            }
            "rm"
        }
        4 => {
            let d = if rng.chance(1, 3) { 1 - p.fee.0.min(1) } else { p.fee.0 };
            let a = match rng.below(4) {
                0 => p.fee.1 + 1,
                1 => p.fee.1.saturating_sub(1),
                2 => rng.below(4) as u128,
                _ => 1_000_000 + rng.sized_u128(30),
            };
            fields.insert("fee", coin_s((d, a)));
            "fee"
        }
        5 if p.kind != FactoryKind::TokenMerge => {
            let d = if rng.chance(1, 6) { 1 } else { 0 };
            fields.insert("minp", coin_s((d, *rng.pick(&[0u128, 1, p.minp.1 + 1, p.minp.1.saturating_sub(1), 50_000_000]))));
            "minp"
        }
        6 => {
            fields.insert("off", rng.pick(&[0u64, 1, 60, 604_800]).to_string());
            "off"
        }
        7 | 8 if has_ext => {
            fields.insert("maxtok", rng.pick(&[p.maxtok + 1, p.maxtok.saturating_sub(1).max(1), 99, 100, 101, 200]).to_string());
            "maxtok"
        }
        9 | 10 if has_ext => {
            fields.insert("maxper", rng.pick(&[p.maxper + 1, p.maxper.saturating_sub(1).max(1), 3, 4, 50]).to_string());
            "maxper"
        }
        11 if has_ext => {
            let d = if rng.chance(1, 6) { 1 } else { 0 };
            fields.insert("airp", coin_s((d, *rng.pick(&[0u128, 0, 5]))));
            "airp"
        }
        _ => {
            fields.insert("frozen", (p.frozen as u8).to_string());
            "noop"
        }
    };
    (upd_line(f, &fields), what.to_string())
}

#[derive(Clone, Debug)]
struct Created {
    m: u64,
    sender: u64,
    code: u64,
    n: u64,
    admin: u64,
    f: u64,
}

fn parse_created(line: &str, out: &str, code: u64) -> Option<Created> {
    if !out.starts_with("ok ") {
        return None;
    }
    Some(Created {
        m: kv_u64(out, "m")?,
        sender: kv_u64(line, "sender")?,
        code,
        n: kv_opt_u64(line, "n").flatten().unwrap_or(0),
        admin: match AF::parse(line, "creator") {
            AF::Id(i) => i,
            _ => 0,
        },
        f: kv_u64(line, "f")?,
    })
}

fn class_of(p: &P, fault: Fault, out: &str) -> String {
    format!(
        "create:{:?}:code{}:{:?}:{}:fee{}:minp{}:airp{}",
        p.kind,
        p.code,
        fault,
        if out.starts_with("ok") { "ok" } else { "err" },
        if p.fee.0 == 0 { "native" } else { "other" },
        if p.minp.0 == 0 { "native" } else { "other" },
        if p.airp.1 == 0 { "zero" } else { "set" }
    )
}

/// `(minp denom, airp amount)` passes of the directed grid per factory: a NON-native minimum price (instantiate stores it verbatim)
/// and, for open editions, a non-zero airdrop price (so that messages without a token cap are not all rejected by
/// `NoTokenLimitWithZeroAirdropPrice`, which would mask the three cap clauses of the property)
fn grid_passes(kind: FactoryKind) -> Vec<(u64, u128)> {
    match kind {
        FactoryKind::Vending => vec![(0, 0), (1, 0)],
        FactoryKind::OpenEdition => vec![(0, 0), (0, 5), (1, 5)],
        _ => vec![(0, 0)],
    }
}

/// per-address-limit probing of one created minter (bounds, stranger, payer vs creator, funds, after governance moved the bound)
fn probe_limits(ses: &mut Session, sut: &mut S, cr: &Created, has_ext: bool) {
    let p = sut.ghost(cr.f);
    let b = three_bound(cr.code, cr.n, p.maxper);
    let who = if cr.sender != cr.admin { "other-creator" } else { "self-creator" };
    for l in [0, 1, b.saturating_sub(1), b, b + 1, p.maxper, p.maxper + 1] {
        let o = ses.step(sut, &format!("setlimit m={} sender={} funds=- limit={l}", cr.m, cr.admin));
        ses.mark(format!("setlimit:code{}:{}:{}", cr.code, if l == 0 { "zero" } else if l <= b { "within" } else if l <= p.maxper { "over3pct" } else { "overmax" }, &o[..2]));
    }
    let o = ses.step(sut, &format!("setlimit m={} sender=77 funds=- limit=1", cr.m));
    ses.mark(format!("setlimit:stranger:{}", &o[..2]));
    if cr.sender != cr.admin {
        // created on someone else's behalf: the creator named in the request administers the limit, the payer does not
        let o = ses.step(sut, &format!("setlimit m={} sender={} funds=- limit=1", cr.m, cr.sender));
        ses.mark(format!("setlimit:{who}:payer:{}", &o[..2]));
        let o = ses.step(sut, &format!("setlimit m={} sender={} funds=- limit=1", cr.m, cr.admin));
        ses.mark(format!("setlimit:{who}:creator:{}", &o[..2]));
    }
    let o = ses.step(sut, &format!("setlimit m={} sender={} funds=0:1 limit=1", cr.m, cr.admin));
    ses.mark(format!("setlimit:funds:{}", &o[..2]));
    if has_ext {
        ses.step(sut, &upd(cr.f, "maxper", (b + 2).to_string()));
        for l in [b, b + 1, b + 2, b + 3] {
            let o = ses.step(sut, &format!("setlimit m={} sender={} funds=- limit={l}", cr.m, cr.admin));
            ses.mark(format!("setlimit-after-governance:code{}:{}:{}", cr.code, l as i64 - b as i64, &o[..2]));
        }
        ses.step(sut, &upd(cr.f, "maxper", "1".into()));
        for l in [1, 2] {
            let o = ses.step(sut, &format!("setlimit m={} sender={} funds=- limit={l}", cr.m, cr.admin));
            ses.mark(format!("setlimit-after-lowering:code{}:{l}:{}", cr.code, &o[..2]));
        }
        ses.step(sut, &upd(cr.f, "maxper", p.maxper.to_string()));
    }
}

/// every ExecuteMsg variant of the minter's crate (enumerated from its JSON schema at run time) other than
/// `update_per_address_limit`, sent by the minter's admin with minimal arguments: none may move the per-address limit
fn probe_surface(ses: &mut Session, sut: &mut S, cr: &Created) {
    let variants: Vec<String> = sut.surface.minter.get(&cr.code).map(|v| v.iter().map(|x| x.0.clone()).collect()).unwrap_or_default();
    for v in variants {
        let known = KNOWN_MINTER_EXEC.contains(&v.as_str());
        ses.mark(format!("surface:minter:code{}:{}{}", cr.code, v, if known { "" } else { ":UNKNOWN" }));
        if !known {
            ses.note(format!("minter code {} has an ExecuteMsg variant this check has no named op for: `{v}` (sent as raw JSON under the per-address-limit monitor)", cr.code));
        }
        if v == "update_per_address_limit" {
            continue;
        }
        let o = ses.step(sut, &format!("probe m={} sender={} variant={v}", cr.m, cr.admin));
        ses.mark(format!("probe:minter:code{}:{v}:{}", cr.code, drift_part(&o)));
    }
}

const KNOWN_MINTER_EXEC: [&str; 15] = [
    "mint", "mint_to", "mint_for", "shuffle", "purge", "burn_remaining", "receive_nft", "set_whitelist", "update_mint_price", "update_start_time",
    "update_end_time", "update_start_trading_time", "update_per_address_limit", "update_discount_price", "remove_discount_price",
];

fn main() {
    let mut ses = Session::new("C08");
    let mut sut = S::new();
    if ses.maybe_replay(&mut sut) {
        ses.finish(&mut sut);
    }
    // the model's static code table mirrors the order in which World::new stores code
    {
        let w = World::new(0);
        assert_eq!(w.codes.minters, (1..=11).collect::<Vec<u64>>(), "code table");
        assert_eq!((w.codes.vending_factory, w.codes.open_edition_factory, w.codes.token_merge_factory, w.codes.base_factory), (12, 13, 14, 15));
        assert_eq!((w.codes.sg721_base, w.codes.sg721_updatable, w.codes.sg721_nt, w.codes.sg721_metadata_onchain), (16, 17, 18, 19));
        assert_eq!((w.codes.wl[0], w.codes.wl[1]), (20, 21));
    }
    let mut rng = ses.rng.fork();
    let kinds = [FactoryKind::Vending, FactoryKind::OpenEdition, FactoryKind::TokenMerge, FactoryKind::Base];
    let fund_lines = |who: u64| -> Vec<String> { (0..3).map(|d| format!("fund who={who} denom={d} amt=1000000000000000000000000")).collect() };

    // ---------------------------------------------------------------- 0. fixed scenarios (observations; see docs/C08.md)
    // 0a. created on someone else's behalf: the payer is the minter's wasm (migration) admin, the creator named in the request is
    //     not. Generated runs use the proved reading (`C08_post_wiring`); the corpus replay with `literal=1` switches the monitor
    //     of the literal reading on (corpus/C08/minter-wasm-admin-is-payer.json).
    {
        ses.begin_case(&mut sut, "case fixed=wasm-admin-is-payer");
        let now = GENESIS + 77 * NS;
        ses.step(&mut sut, &format!("time t={now}"));
        ses.step(&mut sut, "fund who=10 denom=0 amt=1000000000000");
        let p0 = P { kind: FactoryKind::Vending, code: 1, allowed: vec![16], frozen: false, fee: (0, 5_000_000), minp: (0, 50_000_000), off: 604_800, maxtok: 200, maxper: 5, airp: (0, 0) };
        let out = ses.step(&mut sut, &mkfactory_line(&p0));
        let f = kv_u64(&out, "f").unwrap();
        let mut c = baseline(&mut rng, f, &p0, now, &[]);
        c.sender = 10;
        c.creator = AF::Id(13);
        let o = ses.step(&mut sut, &c.line());
        if let Some(m) = kv_u64(&o, "m") {
            let o1 = ses.step(&mut sut, &format!("migrate m={m} sender=13"));
            let o2 = ses.step(&mut sut, &format!("migrate m={m} sender=10"));
            ses.mark(format!("observed:migrate:creator:{}:payer:{}", primary_part(&o1), primary_part(&o2)));
            ses.note(format!("minter created by payer 10 for creator 13: wasm-admin check creator `{}` payer `{}` (the payer can migrate the creator's minter)", o1, o2));
        }
        ses.end_case();
    }
    // 0b. which collection codes can a created minter actually mint into? (OUTSIDE the property text: C08 speaks about creation.)
    //     A vending minter sends `extension: None` with every mint; sg721-metadata-onchain (code 19) needs a `Metadata` object.
    for (kind, code) in [(FactoryKind::Vending, 1u64), (FactoryKind::OpenEdition, 7)] {
        for sg in [16u64, 17, 18, 19] {
            ses.begin_case(&mut sut, &format!("case fixed=mint-after-create kind={:?} sg721={sg}", kind));
            let now = GENESIS + 77 * NS;
            ses.step(&mut sut, &format!("time t={now}"));
            ses.step(&mut sut, "fund who=10 denom=0 amt=1000000000000");
            ses.step(&mut sut, "fund who=20 denom=0 amt=1000000000000");
            let p0 = P { kind, code, allowed: vec![16, 17, 18, 19], frozen: false, fee: (0, 5_000_000), minp: (0, 50_000_000), off: 604_800, maxtok: 200, maxper: 5, airp: (0, 0) };
            let out = ses.step(&mut sut, &mkfactory_line(&p0));
            let f = kv_u64(&out, "f").unwrap();
            let mut c = baseline(&mut rng, f, &p0, now, &[]);
            c.sender = 10;
            c.creator = AF::Id(10);
            c.sg721 = sg;
            c.wl = AF::Absent;
            c.start = now + 10 * NS;
            c.trade = None;
            c.end = if kind == FactoryKind::OpenEdition { Some(now + 1000 * NS) } else { None };
            c.n = Some(50);
            c.per = 2;
            let o = ses.step(&mut sut, &c.line());
            ses.mark(format!("observed:create:{:?}:sg721-{sg}:{}", kind, &o[..2]));
            if let Some(m) = kv_u64(&o, "m") {
                ses.step(&mut sut, &format!("time t={}", now + 20 * NS));
                let o = ses.step(&mut sut, &format!("probe m={m} sender=20 variant=mint funds={}", coin_s(c.price)));
                ses.mark(format!("observed:mint-after-create:{:?}:sg721-{sg}:{}", kind, drift_part(&o)));
                if drift_part(&o) == "err" {
                    ses.note(format!("OBSERVATION (outside C08's text): a {:?} minter created with collection code {sg} rejects a fully paid public mint after its start time — created, fee spent, cannot mint", kind));
                }
            }
            ses.end_case();
        }
    }

    // ---------------------------------------------------------------- 1. the grid: every fault × every factory × every minter code,
    // against default parameters, then against parameters moved by governance so that the same message flips.
    for kind in kinds {
        // the factory's own message surface, enumerated at run time
        let fvariants: Vec<String> = sut.surface.factory.get(&fk_idx(kind)).map(|v| v.iter().map(|x| x.0.clone()).collect()).unwrap_or_default();
        for code in family_codes(kind).into_iter().chain(if matches!(kind, FactoryKind::Vending | FactoryKind::OpenEdition) { vec![11u64] } else { vec![] }) {
            for fee_denom in [0u64, 1] {
                for (minpd, airpa) in grid_passes(kind) {
                    ses.begin_case(&mut sut, &format!("case grid kind={:?} code={code} feedenom={fee_denom} minpdenom={minpd} airp={airpa}", kind));
                    let now = GENESIS + 5_000 * NS;
                    ses.step(&mut sut, &format!("time t={now}"));
                    for who in [10u64, 12] {
                        for l in fund_lines(who) {
                            ses.step(&mut sut, &l);
                        }
                    }
                    let has_ext = kind != FactoryKind::Base;
                    let oe = kind == FactoryKind::OpenEdition;
                    let p0 = P {
                        kind,
                        code,
                        allowed: vec![16, 17, 18],
                        frozen: false,
                        fee: (fee_denom, 5_000_000),
                        minp: if kind == FactoryKind::TokenMerge { (0, 0) } else { (minpd, 50_000_000) },
                        off: 604_800,
                        maxtok: if has_ext { 200 } else { 0 },
                        maxper: if has_ext { 5 } else { 0 },
                        airp: (0, airpa),
                    };
                    let out = ses.step(&mut sut, &mkfactory_line(&p0));
                    let f = kv_u64(&out, "f").unwrap();
                    for v in &fvariants {
                        ses.mark(format!("surface:factory:{:?}:{v}", kind));
                        if v != "create_minter" {
                            ses.note(format!("{} has an ExecuteMsg variant other than create_minter: `{v}` (sent as raw JSON under the nothing-is-created monitor)", fk_name(kind)));
                            let o = ses.step(&mut sut, &format!("probe m={f} sender=10 variant={v}"));
                            ses.mark(format!("probe:factory:{:?}:{v}:{}", kind, drift_part(&o)));
                        }
                    }
                    let mut wls: Vec<Wl> = vec![];
                    for flex in [false, true] {
                        let (s, e) = (now + 100 * NS, now + 200 * NS);
                        let o = ses.step(&mut sut, &format!("mkwl flex={} start={s} end={e}", flex as u8));
                        if let Some(id) = kv_u64(&o, "wl") {
                            wls.push(Wl { id, flex, start: s, end: e });
                        }
                    }
                    let mut created: Vec<Created> = vec![];
                    for fault in FAULTS {
                        let p = sut.ghost(f);
                        let mut c = baseline(&mut rng, f, &p, now, &wls);
                        if !apply_fault(&mut rng, &mut c, fault, &p, now, &wls, f) {
                            continue;
                        }
                        let line = c.line();
                        let o = ses.step(&mut sut, &line);
                        ses.mark(class_of(&p, fault, &o));
                        if let Some(cr) = parse_created(&line, &o, p.code) {
                            created.push(cr);
                        }
                        // governance moves the bound; the very same message is sent again, then the bound moves back
                        let two = |a: (&'static str, String), b: (&'static str, String)| -> String {
                            let mut m = BTreeMap::new();
                            m.insert(a.0, a.1);
                            m.insert(b.0, b.1);
                            upd_line(f, &m)
                        };
                        let shift: Option<(String, String)> = match fault {
                            Fault::NOver if has_ext => Some((upd(f, "maxtok", (p.maxtok + 1).to_string()), upd(f, "maxtok", p.maxtok.to_string()))),
                            Fault::PerOverMax if has_ext => Some((upd(f, "maxper", (p.maxper + 1).to_string()), upd(f, "maxper", p.maxper.to_string()))),
                            // (sudo only accepts a native minimum: under a non-native one the bound cannot be moved)
                            Fault::PriceUnder if p.minp.0 == 0 => Some((upd(f, "minp", coin_s((0, p.minp.1 - 1))), upd(f, "minp", coin_s(p.minp)))),
                            Fault::FundsUnder => Some((upd(f, "fee", coin_s((p.fee.0, p.fee.1 - 1))), upd(f, "fee", coin_s(p.fee)))),
                            Fault::FundsOver1 => Some((upd(f, "fee", coin_s((p.fee.0, p.fee.1 + 1))), upd(f, "fee", coin_s(p.fee)))),
                            Fault::CodeNotAllowed if c.sg721 != 999 => Some((upd(f, "add", c.sg721.to_string()), upd(f, "rm", c.sg721.to_string()))),
                            Fault::None => Some((upd(f, "frozen", "1".into()), upd(f, "frozen", "0".into()))),
                            Fault::FundsWrongDenom => Some((upd(f, "fee", coin_s(c.funds[0])), upd(f, "fee", coin_s(p.fee)))),
                            Fault::TradeOver => Some((upd(f, "off", (p.off + 1).to_string()), upd(f, "off", p.off.to_string()))),
                            // the open-edition cap clauses: flip the airdrop price (zero ⇒ every cap-less message is rejected for THAT
                            // reason; non-zero ⇒ the property's own clauses decide), and for the zero-price clause also drop the minimum
                            Fault::NoCap | Fault::NoEndNoCap if oe => Some((upd(f, "airp", coin_s((0, if p.airp.1 == 0 { 5 } else { 0 }))), upd(f, "airp", coin_s(p.airp)))),
                            Fault::ZeroPriceNoCap if oe && p.minp.0 == 0 => Some((two(("airp", coin_s((0, 5))), ("minp", coin_s((0, 0)))), two(("airp", coin_s(p.airp)), ("minp", coin_s(p.minp))))),
                            _ => None,
                        };
                        if let Some((go, back)) = shift {
                            ses.step(&mut sut, &go);
                            let p2 = sut.ghost(f);
                            let o2 = ses.step(&mut sut, &line);
                            ses.mark(format!("{}:after-governance", class_of(&p2, fault, &o2)));
                            if let Some(cr) = parse_created(&line, &o2, p2.code) {
                                created.push(cr);
                            }
                            ses.step(&mut sut, &back);
                        }
                    }
                    // the open-edition cap clauses, each at its boundary, under a non-zero airdrop price and a zero minimum price
                    // (when sudo can set one): (no cap, end, price 0) ✗ / (no cap, end, price 1) ✓ / (no cap, no end, price 1) ✗ /
                    // (cap, no end, price 0) ✓ / (no cap, end = start+1 ns) ✓ / (no cap, end = start) ✗
                    if oe {
                        let p = sut.ghost(f);
                        let zero_min = p.minp.0 == 0;
                        if zero_min {
                            ses.step(&mut sut, &upd(f, "minp", "0:0".into()));
                        }
                        ses.step(&mut sut, &upd(f, "airp", "0:5".into()));
                        let pz = sut.ghost(f);
                        let lo = pz.minp.1; // 0 when the minimum could be lowered
                        let cases: [(&str, Option<u64>, Option<u64>, u128); 6] = [
                            ("zero-price-no-cap", None, Some(1), 0),
                            ("priced-no-cap", None, Some(86_400 * NS), lo.max(1)),
                            ("no-end-no-cap", None, None, lo.max(1)),
                            ("zero-price-capped-no-end", Some(7), None, lo),
                            ("no-cap-end-just-after-start", None, Some(1), lo.max(1)),
                            ("no-cap-end-at-start", None, Some(0), lo.max(1)),
                        ];
                        for (name, n, end_off, price) in cases {
                            let mut c = baseline(&mut rng, f, &pz, now, &[]);
                            c.n = n;
                            c.per = 1;
                            c.end = end_off.map(|d| c.start + d);
                            c.price = (pz.minp.0, price);
                            let line = c.line();
                            let o = ses.step(&mut sut, &line);
                            ses.mark(format!("oecap:{name}:{}:price{}:code{code}", &o[..2], if price == 0 { "zero" } else { "pos" }));
                            if let Some(cr) = parse_created(&line, &o, pz.code) {
                                created.push(cr);
                            }
                        }
                        ses.step(&mut sut, &upd(f, "airp", coin_s(p.airp)));
                        if zero_min {
                            ses.step(&mut sut, &upd(f, "minp", coin_s(p.minp)));
                        }
                    }
                    // allow-listed code ids that are not collections: a whitelist code, a minter code, no code at all
                    ses.step(&mut sut, &upd(f, "add", "20,11,999".into()));
                    for junk in [20u64, 11, 999] {
                        let p = sut.ghost(f);
                        let mut c = baseline(&mut rng, f, &p, now, &wls);
                        c.sg721 = junk;
                        let o = ses.step(&mut sut, &c.line());
                        ses.mark(format!("junk-allowed-code:{:?}:code{code}:{junk}:{}", kind, &o[..2]));
                    }
                    ses.step(&mut sut, &upd(f, "rm", "20,11,999".into()));
                    // a payer that owns exactly one fee: pays once, then cannot pay again; overpaying is impossible for it
                    {
                        let p = sut.ghost(f);
                        ses.step(&mut sut, &format!("fund who=17 denom={} amt={}", p.fee.0, p.fee.1));
                        for (tag, extra) in [("over", 1u128), ("exact", 0), ("again", 0)] {
                            let mut c = baseline(&mut rng, f, &p, now, &wls);
                            c.sender = 17;
                            c.funds = vec![(p.fee.0, p.fee.1 + extra)];
                            let o = ses.step(&mut sut, &c.line());
                            ses.mark(format!("poor-sender:{:?}:code{code}:{tag}:{}", kind, &o[..2]));
                        }
                    }
                    // whitelist activity: exact instants
                    if matches!(kind, FactoryKind::Vending | FactoryKind::OpenEdition) && code != 11 {
                        let flex_needed = matches!(code, 3 | 4 | 8);
                        if let Some(w) = wls.iter().find(|w| w.flex == flex_needed).cloned() {
                            for t in [w.start - 1, w.start, w.end - 1, w.end] {
                                ses.step(&mut sut, &format!("time t={t}"));
                                let p = sut.ghost(f);
                                let mut c = baseline(&mut rng, f, &p, t, &wls);
                                c.wl = AF::Id(w.id);
                                let o = ses.step(&mut sut, &c.line());
                                ses.mark(format!("wl-instant:{:?}:code{code}:{}:{}", kind, if t < w.start { "before" } else if t < w.end { "active" } else { "after" }, &o[..2]));
                            }
                        }
                    }
                    // per-address-limit updates on what was created, against moved governance bounds: the first four, the last four,
                    // and every minter created on someone else's behalf (creator ≠ payer)
                    let mut pick: Vec<usize> = (0..created.len().min(4)).collect();
                    pick.extend(created.len().saturating_sub(4)..created.len());
                    pick.extend(created.iter().enumerate().filter(|(_, c)| c.sender != c.admin).map(|(i, _)| i).take(3));
                    pick.sort();
                    pick.dedup();
                    for i in &pick {
                        let cr = created[*i].clone();
                        probe_limits(&mut ses, &mut sut, &cr, has_ext);
                    }
                    // the rest of the minter's message surface must leave the limit alone
                    if let Some(cr) = created.first().cloned() {
                        probe_surface(&mut ses, &mut sut, &cr);
                    }
                    ses.end_case();
                }
            }
        }
    }

    // ---------------------------------------------------------------- 2. the 3 % rule: every (n, limit) around every step of ⌈3n/100⌉
    for code in [1u64, 2, 3, 4, 5, 6, 10] {
        let kind = if code == 10 { FactoryKind::TokenMerge } else { FactoryKind::Vending };
        ses.begin_case(&mut sut, &format!("case three-percent code={code}"));
        let now = GENESIS + 9 * NS;
        ses.step(&mut sut, &format!("time t={now}"));
        for l in fund_lines(10) {
            ses.step(&mut sut, &l);
        }
        for l in fund_lines(12) {
            ses.step(&mut sut, &l);
        }
        // (a fee that any burn/pool split can divide into two non-zero parts: the split is C06's, not this scenario's subject)
        let p0 = P { kind, code, allowed: vec![16], frozen: false, fee: (0, 1000), minp: (0, 0), off: 0, maxtok: 400, maxper: 9, airp: (0, 0) };
        let out = ses.step(&mut sut, &mkfactory_line(&p0));
        let f = kv_u64(&out, "f").unwrap();
        let ns: Vec<u64> = if ses.tier() == Tier::Quick { vec![1, 50, 99, 100, 101, 133, 134, 166, 167, 200, 201, 233, 234, 300, 301] } else { (1..=320).collect() };
        for n in ns {
            let b = if n < 100 { 3 } else { ceil3pct(n) };
            for per in [b.saturating_sub(1).max(1), b, b + 1, 9, 10] {
                let p = sut.ghost(f);
                let mut c = baseline(&mut rng, f, &p, now, &[]);
                c.n = Some(n);
                c.per = per;
                let o = ses.step(&mut sut, &c.line());
                ses.mark(format!("3pct:code{code}:{}:{}:{}", if n < 100 { "lt100" } else { "ge100" }, per as i64 - b as i64, &o[..2]));
            }
        }
        ses.end_case();
    }

    // ---------------------------------------------------------------- 3. random histories: governance updates between creations
    let ncases = ses.scale(1200, 30000);
    for ci in 0..ncases {
        let kind = kinds[(ci % 4) as usize];
        ses.begin_case(&mut sut, &format!("case random i={ci} kind={:?}", kind));
        let mut now = match rng.below(10) {
            0 => GENESIS - 10 * NS,
            1 => GENESIS,
            _ => GENESIS + rng.below(1_000_000) * NS + rng.below(3),
        };
        ses.step(&mut sut, &format!("time t={now}"));
        for who in [10u64, 12] {
            for l in fund_lines(who) {
                ses.step(&mut sut, &l);
            }
        }
        let mut facs: Vec<(u64, FactoryKind)> = vec![];
        let p0 = random_params(&mut rng, kind);
        let out = ses.step(&mut sut, &mkfactory_line(&p0));
        facs.push((kv_u64(&out, "f").unwrap(), kind));
        if rng.chance(1, 3) {
            let k2 = *rng.pick(&kinds);
            let out = ses.step(&mut sut, &mkfactory_line(&random_params(&mut rng, k2)));
            facs.push((kv_u64(&out, "f").unwrap(), k2));
        }
        let mut wls: Vec<Wl> = vec![];
        for _ in 0..rng.below(3) {
            let flex = rng.chance(1, 2);
            let s = now.max(GENESIS) + rng.range(1, 50) * NS;
            let e = s + rng.range(1, 50) * NS;
            let o = ses.step(&mut sut, &format!("mkwl flex={} start={s} end={e}", flex as u8));
            if let Some(id) = kv_u64(&o, "wl") {
                wls.push(Wl { id, flex, start: s, end: e });
            }
        }
        let mut created: Vec<Created> = vec![];
        let nops = rng.range(8, 28);
        for _ in 0..nops {
            let (f, k) = *rng.pick(&facs);
            let p = sut.ghost(f);
            match rng.below(20) {
                0..=11 => {
                    let mut c = baseline(&mut rng, f, &p, now, &wls);
                    let fault = if rng.chance(11, 20) { Fault::None } else { *rng.pick(&FAULTS) };
                    let other = facs[0].0;
                    let applied = apply_fault(&mut rng, &mut c, fault, &p, now, &wls, other);
                    let line = c.line();
                    let o = ses.step(&mut sut, &line);
                    ses.mark(class_of(&p, if applied { fault } else { Fault::None }, &o));
                    if p.frozen {
                        ses.mark(format!("create:frozen:{:?}:{}", p.kind, &o[..2]));
                    }
                    if let Some(cr) = parse_created(&line, &o, p.code) {
                        created.push(cr);
                    }
                }
                12..=15 => {
                    let (l, what) = params_update_line(&mut rng, f, &p);
                    let o = ses.step(&mut sut, &l);
                    ses.mark(format!("params:{:?}:{what}:{}", k, &o[..2]));
                }
                16 => {
                    // move the clock: to a whitelist edge, or forward
                    if !wls.is_empty() && rng.chance(1, 2) {
                        let w = rng.pick(&wls).clone();
                        now = *rng.pick(&[w.start - 1, w.start, w.end - 1, w.end]);
                    } else {
                        now += rng.below(100) * NS + rng.below(2);
                    }
                    ses.step(&mut sut, &format!("time t={now}"));
                }
                17 if !created.is_empty() && rng.chance(1, 3) => {
                    // a random other message of the minter's surface, by its admin or by the payer
                    let cr = rng.pick(&created).clone();
                    let vs: Vec<String> = sut.surface.minter.get(&cr.code).map(|v| v.iter().map(|x| x.0.clone()).filter(|n| n != "update_per_address_limit").collect()).unwrap_or_default();
                    if !vs.is_empty() {
                        let v = rng.pick(&vs).clone();
                        let who = if rng.chance(1, 4) { cr.sender } else { cr.admin };
                        let o = ses.step(&mut sut, &format!("probe m={} sender={who} variant={v}", cr.m));
                        ses.mark(format!("probe:random:{v}:{}", drift_part(&o)));
                    }
                }
                _ => {
                    if created.is_empty() {
                        continue;
                    }
                    let cr = rng.pick(&created);
                    let pf = sut.ghost(cr.f);
                    let b = three_bound(cr.code, cr.n, pf.maxper);
                    let l = *rng.pick(&[0, 1, b.saturating_sub(1), b, b + 1, pf.maxper, pf.maxper + 1]);
                    let sender = match rng.below(8) {
                        0 => 77,
                        1 => cr.sender,
                        _ => cr.admin,
                    };
                    let o = ses.step(&mut sut, &format!("setlimit m={} sender={sender} funds=- limit={l}", cr.m));
                    ses.mark(format!("setlimit:random:code{}:{}:{}", cr.code, if sender != cr.admin { "non-admin" } else if l == 0 { "zero" } else if l <= b { "within" } else { "over" }, &o[..2]));
                }
            }
        }
        ses.end_case();
    }

    // ---------------------------------------------------------------- coverage floor: without these the run would be vacuous
    for (kind, code) in [("Vending", 1u64), ("Vending", 2), ("Vending", 3), ("Vending", 4), ("Vending", 5), ("Vending", 6), ("Vending", 11), ("OpenEdition", 7), ("OpenEdition", 8), ("OpenEdition", 9), ("OpenEdition", 11), ("TokenMerge", 10), ("Base", 11)] {
        // a valid create of every factory × minter code succeeded, with a native and a non-native fee; the same one is rejected frozen
        ses.require(format!("create:{kind}:code{code}:None:ok:feenative"));
        ses.require(format!("create:{kind}:code{code}:None:ok:feeother"));
        ses.require(format!("*create:{kind}:code{code}:None:err:feenative:minpnative:airpzero:after-governance*"));
        ses.require(format!("create:{kind}:code{code}:FundsUnder:err"));
        ses.require(format!("create:{kind}:code{code}:CodeNotAllowed:err"));
        if kind != "Base" {
            // accept at the bound, reject one above, accept again after governance moved the bound
            ses.require(format!("create:{kind}:code{code}:NOver:err"));
            ses.require(format!("create:{kind}:code{code}:PerOverMax:err"));
            if code != 11 {
                ses.require(format!("setlimit:code{code}:within:ok"));
                ses.require(format!("setlimit:code{code}:overmax:er"));
                ses.require(format!("setlimit:code{code}:zero:er"));
                ses.require(format!("probe:minter:code{code}:"));
            }
        }
        if kind == "Vending" || kind == "OpenEdition" {
            // the minimum's denom, with a native and with a NON-native minimum
            ses.require(format!("create:{kind}:code{code}:None:ok:feenative:minpother"));
            ses.require(format!("create:{kind}:code{code}:PriceDenom:err:feenative:minpnative"));
            ses.require(format!("create:{kind}:code{code}:PriceDenom2:err:feenative:minpother"));
            ses.require(format!("create:{kind}:code{code}:PriceUnder:err"));
        }
        if kind == "OpenEdition" {
            // each cap clause rejected AND its neighbour accepted, with the airdrop-price rule out of the way
            ses.require(format!("oecap:zero-price-no-cap:er:pricezero:code{code}"));
            ses.require(format!("oecap:priced-no-cap:ok:pricepos:code{code}"));
            ses.require(format!("oecap:no-end-no-cap:er:pricepos:code{code}"));
            ses.require(format!("oecap:zero-price-capped-no-end:ok:pricezero:code{code}"));
            ses.require(format!("oecap:no-cap-end-just-after-start:ok:pricepos:code{code}"));
            ses.require(format!("oecap:no-cap-end-at-start:er:pricepos:code{code}"));
            ses.require(format!("create:{kind}:code{code}:NoCap:ok:feenative:minpnative:airpset"));
            ses.require(format!("create:{kind}:code{code}:NoCap:err:feenative:minpnative:airpzero"));
            ses.require(format!("create:{kind}:code{code}:NoEndNoCap:err:feenative:minpnative:airpset"));
            ses.require(format!("create:{kind}:code{code}:StartNow:err"));
            ses.require(format!("create:{kind}:code{code}:EndAtStart:err"));
        }
    }
    for code in [1u64, 2, 5, 6, 10] {
        for c in ["lt100:0:ok", "lt100:1:er", "ge100:0:ok", "ge100:1:er"] {
            ses.require(format!("3pct:code{code}:{c}"));
        }
        ses.require(format!("setlimit:code{code}:over3pct:er"));
    }
    for code in [3u64, 4] {
        ses.require(format!("3pct:code{code}:ge100:1:ok")); // the flex minters do not enforce the 3 % rule
    }
    ses.require("setlimit:other-creator:payer:er");
    ses.require("setlimit:other-creator:creator:ok");
    ses.require("setlimit:stranger:er");
    ses.require("setlimit-after-governance:");
    ses.require("setlimit-after-lowering:");
    ses.require("wl-instant:Vending:code1:active:er");
    ses.require("wl-instant:Vending:code1:before:ok");
    ses.require("wl-instant:OpenEdition:code7:active:er");
    for k in ["Vending", "OpenEdition", "TokenMerge", "Base"] {
        ses.require(format!("surface:factory:{k}:create_minter"));
    }
    ses.require("observed:migrate:");
    ses.require("observed:mint-after-create:Vending:sg721-16:ok");

    if std::env::var("C08_DUMP_CLASSES").is_ok() {
        let _ = std::fs::write(ses.args.out.join("classes.txt"), ses.classes.iter().cloned().collect::<Vec<_>>().join("\n"));
    }
    ses.note(format!("contract panics caught and rolled back: {}", sut.panics));
    ses.note(format!("ops after which the factory's Params query differed from the harness' ghost parameters: {} (C18 owns the query; C08's monitors use the ghost)", sut.ghost_query_diffs));
    ses.note("every create is checked by monitors that transcribe the property from the harness' GHOST bookkeeping (parameters it sent, minters it created) and from the chain's registry and bank table; the factory's Params query and the minters' Config are observed and compared with the model, not trusted by the monitors");
    ses.finish(&mut sut);
}
