//! C08 — factories create minters only within governance limits and for the fee.
//!
//! Real contracts (all four factories, all 11 minter code ids, the four sg721 codes, plain/flex whitelists) in one
//! cw-multi-test `App` (`lp_harness::minters::World`) vs the Lean model `LP.FC` (Model/FactoryCreate.lean).
//! Protocol: see lean/LaunchpadModel/Driver/C08.lean.
use lp_harness::minters::*;
use lp_harness::world::{addr, addr_id, denom, denom_id};
use lp_harness::*;
use serde_json::{json, Value};
use std::collections::BTreeMap;

const BAD_ADDR: &str = "BAD ADDR";
const BAD_URL: &str = "not a url";
const GOOD_URI: &str = "ipfs://bafybeigi3bwpvyvsmnbj46ra4hyffcxdeaj6ntfk5jpic5mx27x6ih2qvq/images";
const NS: u64 = 1_000_000_000;
const POOL: &str = "fairburn_pool";

// ------------------------------------------------------------------------------------------------ small helpers

#[derive(Clone, Copy, Debug, PartialEq, Eq)]
enum AF {
    Absent,
    Bad,
    Id(u64),
}
impl AF {
    fn parse(line: &str, key: &str) -> AF {
        match kv(line, key) {
            None | Some("-") => AF::Absent,
            Some("x") => AF::Bad,
            Some(v) => v.parse().map(AF::Id).unwrap_or(AF::Bad),
        }
    }
    fn json(self) -> Value {
        match self {
            AF::Absent => Value::Null,
            AF::Bad => Value::String(BAD_ADDR.into()),
            AF::Id(i) => Value::String(addr(i)),
        }
    }
    fn s(self) -> String {
        match self {
            AF::Absent => "-".into(),
            AF::Bad => "x".into(),
            AF::Id(i) => i.to_string(),
        }
    }
}

fn fk_idx(k: FactoryKind) -> u64 {
    match k {
        FactoryKind::Vending => 0,
        FactoryKind::OpenEdition => 1,
        FactoryKind::TokenMerge => 2,
        FactoryKind::Base => 3,
    }
}
fn fk_of(i: u64) -> FactoryKind {
    match i {
        0 => FactoryKind::Vending,
        1 => FactoryKind::OpenEdition,
        2 => FactoryKind::TokenMerge,
        _ => FactoryKind::Base,
    }
}
fn fk_name(k: FactoryKind) -> &'static str {
    match k {
        FactoryKind::Vending => "vending-factory",
        FactoryKind::OpenEdition => "open-edition-factory",
        FactoryKind::TokenMerge => "token-merge-factory",
        FactoryKind::Base => "base-factory",
    }
}
fn kv_coin(line: &str, key: &str) -> Option<(u64, u128)> {
    let v = kv(line, key)?;
    let (a, b) = v.split_once(':')?;
    Some((a.parse().ok()?, b.parse().ok()?))
}
fn kv_opt_coin(line: &str, key: &str) -> Option<(u64, u128)> {
    if kv(line, key) == Some("-") {
        None
    } else {
        kv_coin(line, key)
    }
}
fn coin_s(c: (u64, u128)) -> String {
    format!("{}:{}", c.0, c.1)
}
fn dec_str(a: u128) -> String {
    format!("{}.{:018}", a / 10u128.pow(18), a % 10u128.pow(18))
}
fn dec_atomics(s: &str) -> u128 {
    let (i, f) = s.split_once('.').unwrap_or((s, ""));
    let mut f = f.to_string();
    while f.len() < 18 {
        f.push('0');
    }
    i.parse::<u128>().unwrap_or(0) * 10u128.pow(18) + f[..18].parse::<u128>().unwrap_or(0)
}
fn jcoin_v(v: &Value) -> (u64, u128) {
    if v.is_null() {
        (0, 0)
    } else {
        (denom_id(v["denom"].as_str().unwrap_or("")), v["amount"].as_str().and_then(|x| x.parse().ok()).unwrap_or(0))
    }
}
fn jaddr(v: &Value) -> String {
    match v.as_str() {
        Some(s) => addr_id(s).to_string(),
        None => "-".into(),
    }
}
fn jnum(v: &Value) -> String {
    if let Some(n) = v.as_u64() {
        n.to_string()
    } else if let Some(s) = v.as_str() {
        s.to_string()
    } else {
        "-".into()
    }
}
fn ceil3pct(n: u64) -> u64 {
    (3 * n + 99) / 100
}
/// the minters that enforce the 3 % rule (by code id as stored by `World::new`): vending, -featured, -merkle-wl,
/// -merkle-wl-featured, token-merge
fn enforces_3pct(code: u64) -> bool {
    matches!(code, 1 | 2 | 5 | 6 | 10)
}

/// governance parameters as read back from the REAL factory
#[derive(Clone, Debug)]
struct P {
    kind: FactoryKind,
    code: u64,
    allowed: Vec<u64>,
    frozen: bool,
    fee: (u64, u128),
    minp: (u64, u128),
    off: u64,
    maxtok: u64,
    maxper: u64,
    airp: (u64, u128),
}
impl P {
    fn obs(&self) -> String {
        format!(
            "code={} allowed={} frozen={} fee={} minp={} off={} maxtok={} maxper={} airp={}",
            self.code,
            fmt_list(&self.allowed),
            self.frozen as u8,
            coin_s(self.fee),
            coin_s(self.minp),
            self.off,
            self.maxtok,
            self.maxper,
            coin_s(self.airp)
        )
    }
}

type Balances = BTreeMap<(String, String), u128>;

// ------------------------------------------------------------------------------------------------ the SUT

struct S {
    w: World,
    log: Vec<String>,
    fkind: BTreeMap<u64, FactoryKind>,
    ncontracts: u64,
    viol: Option<(String, String)>,
    panics: u64,
}

impl S {
    fn new() -> S {
        S { w: World::new(0), log: vec![], fkind: BTreeMap::new(), ncontracts: 0, viol: None, panics: 0 }
    }
    fn reset(&mut self) {
        self.w = World::new(0);
        self.log.clear();
        self.fkind.clear();
        self.ncontracts = 0;
        self.viol = None;
    }
    /// every (account, denom) balance in the bank module (cw-multi-test 1.2 has no supply query)
    fn balances(&self) -> Balances {
        self.w.app.read_module(|_r, _a, st| {
            let mut pre: Vec<u8> = vec![0, 4];
            pre.extend_from_slice(b"bank");
            pre.extend_from_slice(&[0, 8]);
            pre.extend_from_slice(b"balances");
            let mut end = pre.clone();
            *end.last_mut().unwrap() += 1;
            let mut out = Balances::new();
            for (k, v) in st.range(Some(&pre), Some(&end), cosmwasm_std::Order::Ascending) {
                let who = String::from_utf8_lossy(&k[pre.len()..]).to_string();
                let coins: Vec<cosmwasm_std::Coin> = serde_json::from_slice(&v).unwrap_or_default();
                for c in coins {
                    if !c.amount.is_zero() {
                        out.insert((who.clone(), c.denom.clone()), c.amount.u128());
                    }
                }
            }
            out
        })
    }
    fn supply_of(b: &Balances, d: &str) -> u128 {
        b.iter().filter(|((_, dd), _)| dd == d).map(|(_, a)| *a).sum()
    }
    fn bal_of(b: &Balances, who: &str, d: &str) -> u128 {
        b.get(&(who.to_string(), d.to_string())).copied().unwrap_or(0)
    }
    fn exists(&self, a: &str) -> bool {
        self.w.app.wrap().query_wasm_contract_info(a).is_ok()
    }
    fn recount(&mut self) -> u64 {
        // contracts are named contract{k} in instantiation order; a rolled-back transaction gives its numbers back
        let mut k = self.ncontracts;
        while k > 0 && !self.exists(&format!("contract{}", k - 1)) {
            k -= 1;
        }
        while self.exists(&format!("contract{}", k)) {
            k += 1;
        }
        self.ncontracts = k;
        k
    }
    fn read_params(&self, f: &str, kind: FactoryKind) -> Option<P> {
        let v = self.w.query(f, &json!({"params":{}})).ok()?;
        let p = &v["params"];
        let ext = if kind == FactoryKind::TokenMerge { p } else { &p["extension"] };
        Some(P {
            kind,
            code: p["code_id"].as_u64()?,
            allowed: p["allowed_sg721_code_ids"].as_array()?.iter().filter_map(|x| x.as_u64()).collect(),
            frozen: p["frozen"].as_bool()?,
            fee: jcoin_v(&p["creation_fee"]),
            minp: jcoin_v(&p["min_mint_price"]),
            off: p["max_trading_offset_secs"].as_u64()?,
            maxtok: ext["max_token_limit"].as_u64().unwrap_or(0),
            maxper: ext["max_per_address_limit"].as_u64().unwrap_or(0),
            airp: jcoin_v(&ext["airdrop_mint_price"]),
        })
    }
    fn bank_obs(&mut self, f: &str, sender: &str, fd: u64) -> String {
        let b = self.balances();
        let fds = denom(fd);
        let nat = denom(0);
        let dao = addr(2);
        let n = self.recount();
        format!(
            "bal={},{},{},{},{},{},{} sup={},{} next={}",
            S::bal_of(&b, sender, &fds),
            S::bal_of(&b, sender, &nat),
            S::bal_of(&b, f, &fds),
            S::bal_of(&b, f, &nat),
            S::bal_of(&b, POOL, &nat),
            S::bal_of(&b, &dao, &fds),
            S::bal_of(&b, &dao, &nat),
            S::supply_of(&b, &nat),
            S::supply_of(&b, &fds),
            n
        )
    }
    fn info_obs(&self, a: &str) -> String {
        match self.w.app.wrap().query_wasm_contract_info(a) {
            Ok(i) => format!("{}:{}:{}", i.code_id, addr_id(&i.creator), i.admin.map(|x| addr_id(&x).to_string()).unwrap_or("-".into())),
            Err(_) => "-".into(),
        }
    }
    /// factory,admin,sg721,sg721code,n,per,start,end,price,wl,pay
    fn minter_obs(&self, m: &str) -> String {
        let Ok(v) = self.w.query(m, &json!({"config":{}})) else { return "-".into() };
        let inner = if v.get("config").is_some() { v["config"].clone() } else { v.clone() };
        let sg = if v.get("sg721_address").is_some() { &v["sg721_address"] } else { &v["collection_address"] };
        let code = if v.get("sg721_code_id").is_some() { &v["sg721_code_id"] } else { &inner["collection_code_id"] };
        let price = if inner["mint_price"].is_object() { coin_s(jcoin_v(&inner["mint_price"])) } else { "-".into() };
        format!(
            "{},{},{},{},{},{},{},{},{},{},{}",
            jaddr(&inner["factory"]),
            jaddr(&v["admin"]),
            jaddr(sg),
            jnum(code),
            jnum(&v["num_tokens"]),
            jnum(&v["per_address_limit"]),
            jnum(&v["start_time"]),
            jnum(&v["end_time"]),
            price,
            jaddr(&v["whitelist"]),
            jaddr(&v["payment_address"])
        )
    }
    /// owner,creator,trade,royshare,roypay
    fn coll_obs(&self, c: &str) -> String {
        // sg721-updatable has no `Ownership` query; `Minter` (= the cw-ownable owner) exists on all four collections
        let own = self.w.query(c, &json!({"minter":{}})).unwrap_or(Value::Null);
        let Ok(ci) = self.w.query(c, &json!({"collection_info":{}})) else { return "-".into() };
        let (rs, rp) = if ci["royalty_info"].is_object() {
            (dec_atomics(ci["royalty_info"]["share"].as_str().unwrap_or("0")).to_string(), jaddr(&ci["royalty_info"]["payment_address"]))
        } else {
            ("-".into(), "-".into())
        };
        format!("{},{},{},{},{}", jaddr(&own["minter"]), jaddr(&ci["creator"]), jnum(&ci["start_trading_time"]), rs, rp)
    }

    fn rebuild(&mut self) {
        // a panic inside the contracts: start over and replay the case's op log (the failed op is not in it yet)
        self.panics += 1;
        let log = std::mem::take(&mut self.log);
        self.reset();
        for l in &log {
            let _ = self.exec_inner(l);
            self.log.push(l.clone());
        }
        self.viol = None;
    }

    fn create_json(kind: FactoryKind, line: &str) -> Value {
        let creator = match AF::parse(line, "creator") {
            AF::Id(i) => addr(i),
            _ => BAD_ADDR.to_string(),
        };
        let url = |ok: bool, good: &str| if ok { good.to_string() } else { BAD_URL.to_string() };
        let link = match kv(line, "link") {
            Some("1") => Value::String("https://example.com/external.html".into()),
            Some("0") => Value::String(BAD_URL.into()),
            _ => Value::Null,
        };
        let roy = match kv_opt_u128(line, "roys").flatten() {
            Some(s) => json!({"payment_address": match AF::parse(line, "royp") { AF::Id(i) => addr(i), _ => BAD_ADDR.to_string() }, "share": dec_str(s)}),
            None => Value::Null,
        };
        let cp = json!({
            "code_id": kv_u64(line, "sg721").unwrap_or(0), "name": "Collection", "symbol": "COL",
            "info": {
                "creator": creator, "description": "d".repeat(kv_u64(line, "desc").unwrap_or(0) as usize),
                "image": url(kv_bool(line, "img").unwrap_or(true), "https://example.com/image.png"),
                "external_link": link, "explicit_content": false,
                "start_trading_time": jopt_time(kv_opt_u64(line, "trade").flatten()),
                "royalty_info": roy,
            }
        });
        let n = kv_opt_u64(line, "n").flatten();
        let per = kv_u64(line, "per").unwrap_or(0);
        let start = kv_u64(line, "start").unwrap_or(0);
        let price = kv_coin(line, "price").unwrap_or((0, 0));
        let uri_ok = kv_bool(line, "uri").unwrap_or(true);
        let init = match kind {
            FactoryKind::Vending => json!({
                "base_token_uri": url(uri_ok, GOOD_URI), "payment_address": AF::parse(line, "pay").json(),
                "start_time": jtime(start), "num_tokens": n.unwrap_or(0), "mint_price": jcoin(price),
                "per_address_limit": per, "whitelist": AF::parse(line, "wl").json()}),
            FactoryKind::OpenEdition => {
                let nft_ok = kv_bool(line, "nft").unwrap_or(true);
                let token_uri = if nft_ok { Value::String(url(uri_ok, "ipfs://bafybeigi3bwpvyvsmnbj46ra4hyffcxdeaj6ntfk5jpic5mx27x6ih2qvq/1.json")) } else { Value::Null };
                json!({
                    "nft_data": {"nft_data_type": "off_chain_metadata", "extension": null, "token_uri": token_uri},
                    "start_time": jtime(start), "end_time": jopt_time(kv_opt_u64(line, "end").flatten()), "mint_price": jcoin(price),
                    "per_address_limit": per, "num_tokens": n,
                    "payment_address": AF::parse(line, "pay").json(), "whitelist": AF::parse(line, "wl").json()})
            }
            FactoryKind::TokenMerge => json!({
                "base_token_uri": url(uri_ok, GOOD_URI), "start_time": jtime(start), "num_tokens": n.unwrap_or(0),
                "mint_tokens": [{"collection": addr(1000), "amount": 1}], "per_address_limit": per}),
            FactoryKind::Base => Value::Null,
        };
        json!({"create_minter": {"init_msg": init, "collection_params": cp}})
    }

    fn update_json(kind: FactoryKind, line: &str) -> Value {
        let list = |k: &str| -> Value {
            match kv(line, k) {
                Some("x") | None => Value::Null,
                _ => json!(kv_list(line, k).unwrap_or_default().iter().map(|x| *x as u64).collect::<Vec<u64>>()),
            }
        };
        let optn = |k: &str| -> Value { kv_opt_u64(line, k).flatten().map(|x| json!(x)).unwrap_or(Value::Null) };
        let optc = |k: &str| -> Value { kv_opt_coin(line, k).map(jcoin).unwrap_or(Value::Null) };
        let frozen = match kv(line, "frozen") {
            Some("1") => json!(true),
            Some("0") => json!(false),
            _ => Value::Null,
        };
        let mut m = json!({
            "code_id": optn("code"), "add_sg721_code_ids": list("add"), "rm_sg721_code_ids": list("rm"), "frozen": frozen,
            "creation_fee": optc("fee"), "max_trading_offset_secs": optn("off")});
        if kind != FactoryKind::TokenMerge {
            m["min_mint_price"] = optc("minp");
            m["mint_fee_bps"] = Value::Null;
        }
        m["extension"] = match kind {
            FactoryKind::Vending | FactoryKind::TokenMerge => json!({
                "max_token_limit": optn("maxtok"), "max_per_address_limit": optn("maxper"), "airdrop_mint_price": optc("airp"),
                "airdrop_mint_fee_bps": null, "shuffle_fee": null}),
            FactoryKind::OpenEdition => json!({
                "max_token_limit": optn("maxtok"), "max_per_address_limit": optn("maxper"), "min_mint_price": null,
                "airdrop_mint_fee_bps": null, "airdrop_mint_price": optc("airp"), "dev_fee_address": null}),
            FactoryKind::Base => Value::Null,
        };
        json!({"update_params": m})
    }

    /// returns (model line, output); sets `self.viol` when the PROPERTY is violated on the real code
    fn exec_inner(&mut self, line: &str) -> (String, String) {
        let op = line.split_whitespace().next().unwrap_or("");
        match op {
            "time" => {
                self.w.set_time(kv_u64(line, "t").unwrap_or(0));
                (line.to_string(), "ok".into())
            }
            "fund" => {
                self.w.fund(&addr(kv_u64(line, "who").unwrap()), kv_u64(line, "denom").unwrap(), kv_u128(line, "amt").unwrap());
                (line.to_string(), "ok".into())
            }
            "mkfactory" => {
                let kind = fk_of(kv_u64(line, "kind").unwrap());
                let p = FactoryParams {
                    code_id: kv_u64(line, "code").unwrap(),
                    allowed_sg721_code_ids: kv_list(line, "allowed").unwrap().iter().map(|x| *x as u64).collect(),
                    frozen: kv_bool(line, "frozen").unwrap(),
                    creation_fee: kv_coin(line, "fee").unwrap(),
                    min_mint_price: kv_coin(line, "minp").unwrap(),
                    mint_fee_bps: 1000,
                    max_trading_offset_secs: kv_u64(line, "off").unwrap(),
                    max_token_limit: kv_u64(line, "maxtok").unwrap() as u32,
                    max_per_address_limit: kv_u64(line, "maxper").unwrap() as u32,
                    airdrop_mint_price: kv_coin(line, "airp").unwrap(),
                    airdrop_mint_fee_bps: 10_000,
                    shuffle_fee: (0, 500_000_000),
                    dev_fee_address: 60,
                };
                match self.w.new_factory(kind, &p) {
                    Ok(f) => {
                        let id = addr_id(&f);
                        self.fkind.insert(id, kind);
                        self.recount();
                        let obs = self.read_params(&f, kind).map(|p| p.obs()).unwrap_or("-".into());
                        (line.to_string(), format!("ok f={} {}", id, obs))
                    }
                    Err(_) => (line.to_string(), "err".into()),
                }
            }
            "params" => {
                let f = kv_u64(line, "f").unwrap();
                let Some(kind) = self.fkind.get(&f).copied() else { return (line.to_string(), "err -".into()) };
                let fa = addr(f);
                let r = self.w.sudo(&fa, &S::update_json(kind, line));
                let obs = self.read_params(&fa, kind).map(|p| p.obs()).unwrap_or("-".into());
                (line.to_string(), format!("{} {}", if r.is_ok() { "ok" } else { "err" }, obs))
            }
            "mkwl" => {
                let flex = kv_bool(line, "flex").unwrap();
                let (s, e) = (kv_u64(line, "start").unwrap(), kv_u64(line, "end").unwrap());
                let nat = denom(0);
                let b0 = self.balances();
                let st = WlStage { start: s, end: e, mint_price: (0, 60_000_000), per_address_limit: 2, mint_count_limit: None, members: vec![(20, 1)], merkle_root: String::new() };
                let a = WlArgs { admin: 11, member_limit: 1000, admins_mutable: true, whale_cap: None, stages: vec![st] };
                let r = self.w.new_whitelist(if flex { WlKind::Flex } else { WlKind::Plain }, &a);
                // whatever stays with the whitelist admin is not tracked by the model: burn it so the books stay comparable
                let left = self.w.balance(&addr(11), 0);
                if left > 0 {
                    let _ = cw_multi_test::Executor::execute(&mut self.w.app, cosmwasm_std::Addr::unchecked(addr(11)), cosmwasm_std::BankMsg::Burn { amount: vec![cosmwasm_std::coin(left, nat.clone())] }.into());
                }
                let b1 = self.balances();
                let poold = S::bal_of(&b1, POOL, &nat) - S::bal_of(&b0, POOL, &nat);
                let supd = S::supply_of(&b1, &nat).saturating_sub(S::supply_of(&b0, &nat));
                self.recount();
                let base = line.split(" ok=").next().unwrap().to_string();
                match r {
                    Ok(wl) => (format!("{base} ok=1 poold={poold} supd={supd}"), format!("ok wl={}", addr_id(&wl))),
                    Err(_) => (format!("{base} ok=0 poold=0 supd=0"), "err".into()),
                }
            }
            "create" => self.do_create(line),
            "setlimit" => self.do_setlimit(line),
            _ => (line.to_string(), "bad-op".into()),
        }
    }

    fn do_setlimit(&mut self, line: &str) -> (String, String) {
        let m = addr(kv_u64(line, "m").unwrap());
        let sender = addr(kv_u64(line, "sender").unwrap());
        let funds: Vec<(u64, u128)> = kv_pairs(line, "funds").unwrap().into_iter().map(|(d, a)| (d as u64, a)).collect();
        let l = kv_u64(line, "limit").unwrap();
        let r = self.w.exec(&sender, &m, &json!({"update_per_address_limit": {"per_address_limit": l}}), &funds);
        if let Err(e) = &r {
            if e.starts_with("panic") {
                self.rebuild();
            }
        }
        let cfg = self.w.query(&m, &json!({"config":{}})).unwrap_or(Value::Null);
        let per = jnum(&cfg["per_address_limit"]);
        if r.is_ok() {
            // monitor: "a later per-address-limit update on the minter is held to the same bounds"
            let code = self.w.app.wrap().query_wasm_contract_info(&m).map(|i| i.code_id).unwrap_or(0);
            let fac = cfg["factory"].as_str().unwrap_or("").to_string();
            let kind = self.fkind.get(&addr_id(&fac)).copied();
            if let Some(p) = kind.and_then(|k| self.read_params(&fac, k)) {
                let key = |pred: &str| format!("{}/update_per_address_limit/{}", ALL_MINTERS.get((code as usize).wrapping_sub(1)).map(|k| k.name()).unwrap_or("minter"), pred);
                if l < 1 || l > p.maxper {
                    self.viol = Some((key("outside-governance-bound"), format!("limit {l} accepted, factory max_per_address_limit {} (`{line}`)", p.maxper)));
                } else if enforces_3pct(code) {
                    let n = cfg["num_tokens"].as_u64().unwrap_or(0);
                    let bound = if n < 100 { 3 } else { ceil3pct(n) };
                    if l > bound {
                        self.viol = Some((key("outside-3pct"), format!("limit {l} accepted for {n} tokens (3% bound {bound}) (`{line}`)")));
                    }
                }
                if cfg["admin"].as_str() != Some(sender.as_str()) {
                    self.viol = Some((key("not-admin"), format!("limit updated by {sender}, admin is {} (`{line}`)", cfg["admin"])));
                }
            }
        }
        (line.to_string(), format!("{} per={}", if r.is_ok() { "ok" } else { "err" }, per))
    }

    fn do_create(&mut self, line: &str) -> (String, String) {
        let f = kv_u64(line, "f").unwrap();
        let sender_id = kv_u64(line, "sender").unwrap();
        let fa = addr(f);
        let sender = addr(sender_id);
        let funds: Vec<(u64, u128)> = kv_pairs(line, "funds").unwrap().into_iter().map(|(d, a)| (d as u64, a)).collect();
        let Some(kind) = self.fkind.get(&f).copied() else {
            let o = self.bank_obs(&fa, &sender, 0);
            return (line.to_string(), format!("err {o}"));
        };
        let p = self.read_params(&fa, kind).expect("factory params");
        let b0 = self.balances();
        let n0 = self.recount();
        let now = self.w.time();
        let msg = S::create_json(kind, line);
        let res = self.w.exec(&sender, &fa, &msg, &funds);
        if let Err(e) = &res {
            if e.starts_with("panic") {
                self.rebuild();
            }
        }
        let b1 = self.balances();
        let n1 = self.recount();
        let bank = self.bank_obs(&fa, &sender, p.fee.0);
        let key = |pred: &str| format!("{}/create_minter/{}", fk_name(kind), pred);
        let mut viol: Option<(String, String)> = None;
        let mut bad = |pred: &str, what: String| {
            if viol.is_none() {
                viol = Some((key(pred), format!("{what} — params [{}] now={now} op `{line}`", p.obs())));
            }
        };
        let out = match res {
            Err(_) => {
                // "on rejection nothing is created and no funds move"
                if b0 != b1 {
                    bad("rejected-moved-funds", "rejected create changed bank balances".into());
                }
                if n1 != n0 {
                    bad("rejected-created-contract", format!("rejected create changed the contract registry {n0} -> {n1}"));
                }
                format!("err {bank}")
            }
            Ok(r) => {
                let addrs: Vec<String> = r.events.iter().filter(|e| e.ty == "instantiate").filter_map(|e| e.attributes.iter().find(|at| at.key == "_contract_address" || at.key == "_contract_addr").map(|at| at.value.clone())).collect();
                let (m, c) = (addrs.first().cloned().unwrap_or_default(), addrs.get(1).cloned().unwrap_or_default());
                // ---- monitor: preconditions the property lists
                if p.frozen {
                    bad("created-while-frozen", "minter created while the factory is frozen".into());
                }
                let sg721 = kv_u64(line, "sg721").unwrap_or(0);
                if !p.allowed.contains(&sg721) {
                    bad("disallowed-code-id", format!("collection code id {sg721} not on the allow-list"));
                }
                let paid = match funds.as_slice() {
                    [(d, a)] if *d == p.fee.0 => Some(*a),
                    _ => None,
                };
                match paid {
                    None => bad("wrong-coins", "created without exactly one coin in the fee denom".into()),
                    Some(a) if a < p.fee.1 => bad("underpaid", format!("paid {a} < fee {}", p.fee.1)),
                    Some(a) if kind == FactoryKind::OpenEdition && a != p.fee.1 => bad("not-exact-fee", format!("open edition paid {a} != fee {}", p.fee.1)),
                    _ => {}
                }
                let n = kv_opt_u64(line, "n").flatten();
                let per = kv_u64(line, "per").unwrap_or(0);
                let price = kv_coin(line, "price").unwrap_or((0, 0));
                let start = kv_u64(line, "start").unwrap_or(0);
                let end = kv_opt_u64(line, "end").flatten();
                match kind {
                    FactoryKind::Vending | FactoryKind::TokenMerge => {
                        let nn = n.unwrap_or(0);
                        if nn < 1 || nn > p.maxtok {
                            bad("token-count-out-of-bounds", format!("num_tokens {nn} not in 1..={}", p.maxtok));
                        }
                        if per < 1 || per > p.maxper {
                            bad("per-address-limit-out-of-bounds", format!("per_address_limit {per} not in 1..={}", p.maxper));
                        }
                        if enforces_3pct(p.code) {
                            let bound = if nn < 100 { 3 } else { ceil3pct(nn) };
                            if per > bound {
                                bad("outside-3pct", format!("per_address_limit {per} > 3% bound {bound} of {nn} tokens"));
                            }
                        }
                        if kind == FactoryKind::Vending && (price.0 != p.minp.0 || price.1 < p.minp.1) {
                            bad("price-below-min-or-wrong-denom", format!("mint price {} vs minimum {}", coin_s(price), coin_s(p.minp)));
                        }
                    }
                    FactoryKind::OpenEdition => {
                        if let Some(nn) = n {
                            if nn < 1 || nn > p.maxtok {
                                bad("token-count-out-of-bounds", format!("num_tokens {nn} not in 1..={}", p.maxtok));
                            }
                        }
                        if per < 1 || per > p.maxper {
                            bad("per-address-limit-out-of-bounds", format!("per_address_limit {per} not in 1..={}", p.maxper));
                        }
                        if price.0 != p.minp.0 || price.1 < p.minp.1 {
                            bad("price-below-min-or-wrong-denom", format!("mint price {} vs minimum {}", coin_s(price), coin_s(p.minp)));
                        }
                        if start <= now {
                            bad("start-not-in-future", format!("start {start} <= now {now}"));
                        }
                        if let Some(e) = end {
                            if e <= start {
                                bad("end-not-after-start", format!("end {e} <= start {start}"));
                            }
                        }
                        if end.is_none() && n.is_none() {
                            bad("no-end-and-no-cap", "neither end time nor token cap".into());
                        }
                        if price.1 == 0 && n.is_none() {
                            bad("zero-price-without-cap", "zero mint price without a token cap".into());
                        }
                    }
                    FactoryKind::Base => {}
                }
                // ---- monitor: wiring
                if n1 != n0 + 2 {
                    bad("not-exactly-two-contracts", format!("registry grew {n0} -> {n1}"));
                }
                let creator = match AF::parse(line, "creator") {
                    AF::Id(i) => addr(i),
                    _ => String::new(),
                };
                let mi = self.w.app.wrap().query_wasm_contract_info(&m).ok();
                let ci = self.w.app.wrap().query_wasm_contract_info(&c).ok();
                let cfg = self.w.query(&m, &json!({"config":{}})).unwrap_or(Value::Null);
                let inner = if cfg.get("config").is_some() { cfg["config"].clone() } else { cfg.clone() };
                let sg_in_minter = cfg.get("sg721_address").or(cfg.get("collection_address")).and_then(|x| x.as_str()).unwrap_or("").to_string();
                let coll_minter = self.w.query(&c, &json!({"minter":{}})).ok().and_then(|v| v["minter"].as_str().map(String::from)).unwrap_or_default();
                // (sg721-updatable does not expose `Ownership`; where it exists it must agree)
                let coll_owner = self.w.query(&c, &json!({"ownership":{}})).ok().map(|v| v["owner"].as_str().map(String::from).unwrap_or_default()).unwrap_or(m.clone());
                let coll_info = self.w.query(&c, &json!({"collection_info":{}})).unwrap_or(Value::Null);
                match (&mi, &ci) {
                    (Some(mi), Some(ci)) => {
                        if mi.creator != fa || mi.code_id != p.code {
                            bad("minter-not-from-this-factory", format!("minter {m}: instantiated by {} with code {}", mi.creator, mi.code_id));
                        }
                        if ci.creator != m || ci.code_id != sg721 {
                            bad("collection-not-from-this-minter", format!("collection {c}: instantiated by {} with code {}", ci.creator, ci.code_id));
                        }
                        if ci.admin.as_deref() != Some(creator.as_str()) {
                            bad("collection-admin-not-creator", format!("collection wasm admin {:?}, creator {creator}", ci.admin));
                        }
                        if mi.admin.as_deref() != Some(sender.as_str()) {
                            bad("minter-wasm-admin-not-sender", format!("minter wasm admin {:?}, sender {sender}", mi.admin));
                        }
                    }
                    _ => bad("new-contracts-missing", format!("minter `{m}` / collection `{c}` not in the registry")),
                }
                if inner["factory"].as_str() != Some(fa.as_str()) {
                    bad("minter-factory-link", format!("minter config factory {} != {fa}", inner["factory"]));
                }
                if sg_in_minter != c {
                    bad("minter-collection-link", format!("minter records collection `{sg_in_minter}`, created `{c}`"));
                }
                if coll_minter != m || coll_owner != m {
                    bad("collection-minter-link", format!("collection minter `{coll_minter}` / owner `{coll_owner}`, created minter `{m}`"));
                }
                if coll_info["creator"].as_str() != Some(creator.as_str()) {
                    bad("collection-creator", format!("collection creator {} != {creator}", coll_info["creator"]));
                }
                if p.code != 11 && cfg["admin"].as_str() != Some(creator.as_str()) {
                    bad("minter-admin-not-creator", format!("minter admin {} != creator {creator}", cfg["admin"]));
                }
                // ---- monitor: fee disposal ("never less than the fee, never more than was paid")
                if let Some(paid) = paid {
                    let fd = denom(p.fee.0);
                    let dao = addr(2);
                    let d = |who: &str| S::bal_of(&b1, who, &fd) as i128 - S::bal_of(&b0, who, &fd) as i128;
                    let burned = S::supply_of(&b0, &fd) as i128 - S::supply_of(&b1, &fd) as i128;
                    let disposed = burned + d(POOL) + d(&dao);
                    if disposed < p.fee.1 as i128 {
                        bad("fee-disposed-less-than-fee", format!("burned {burned} + pool {} + dao {} = {disposed} < fee {}", d(POOL), d(&dao), p.fee.1));
                    }
                    if disposed > paid as i128 {
                        bad("fee-disposed-more-than-paid", format!("disposed {disposed} > paid {paid}"));
                    }
                    if d(&sender) != -(paid as i128) {
                        bad("payer-delta", format!("payer balance changed by {} for a payment of {paid}", d(&sender)));
                    }
                    if d(&fa) != paid as i128 - disposed {
                        bad("factory-delta", format!("factory balance changed by {}, paid {paid}, disposed {disposed}", d(&fa)));
                    }
                    // nothing else moved
                    let mut keys: Vec<&(String, String)> = b0.keys().chain(b1.keys()).collect();
                    keys.sort();
                    keys.dedup();
                    for k in keys {
                        let same = b0.get(k) == b1.get(k);
                        let expected = k.1 == fd && (k.0 == sender || k.0 == fa || k.0 == POOL || k.0 == dao);
                        if !same && !expected {
                            bad("unexpected-transfer", format!("balance of {:?} changed {:?} -> {:?}", k, b0.get(k), b1.get(k)));
                        }
                    }
                }
                format!(
                    "ok m={} c={} mi={} ci={} cfg={} col={} {}",
                    addr_id(&m),
                    addr_id(&c),
                    self.info_obs(&m),
                    self.info_obs(&c),
                    self.minter_obs(&m),
                    self.coll_obs(&c),
                    bank
                )
            }
        };
        if self.viol.is_none() {
            self.viol = viol;
        }
        (line.to_string(), out)
    }
}

impl Sut for S {
    fn begin(&mut self, header: &str) -> (String, String) {
        self.reset();
        (header.to_string(), "case".into())
    }
    fn exec(&mut self, line: &str) -> (String, String) {
        self.viol = None;
        let r = self.exec_inner(line);
        self.log.push(line.to_string());
        r
    }
    fn monitor(&mut self) -> Option<(String, String)> {
        self.viol.take()
    }
}

// ------------------------------------------------------------------------------------------------ generators

#[derive(Clone, Debug)]
struct Cr {
    f: u64,
    sender: u64,
    funds: Vec<(u64, u128)>,
    sg721: u64,
    creator: AF,
    n: Option<u64>,
    per: u64,
    start: u64,
    end: Option<u64>,
    price: (u64, u128),
    pay: AF,
    wl: AF,
    trade: Option<u64>,
    roys: Option<u128>,
    royp: AF,
    desc: u64,
    img: bool,
    link: Option<bool>,
    uri: bool,
    nft: bool,
}
impl Cr {
    fn line(&self) -> String {
        format!(
            "create f={} sender={} funds={} sg721={} creator={} n={} per={} start={} end={} price={} pay={} wl={} trade={} roys={} royp={} desc={} img={} link={} uri={} nft={}",
            self.f,
            self.sender,
            fmt_pairs(&self.funds),
            self.sg721,
            self.creator.s(),
            fmt_opt(&self.n),
            self.per,
            self.start,
            fmt_opt(&self.end),
            coin_s(self.price),
            self.pay.s(),
            self.wl.s(),
            fmt_opt(&self.trade),
            fmt_opt(&self.roys),
            self.royp.s(),
            self.desc,
            self.img as u8,
            match self.link {
                None => "-".to_string(),
                Some(b) => (b as u8).to_string(),
            },
            self.uri as u8,
            self.nft as u8
        )
    }
}

#[derive(Clone, Copy, Debug, PartialEq, Eq)]
enum Fault {
    None,
    FundsUnder,
    FundsOver1,
    FundsOverLots,
    FundsEmpty,
    FundsWrongDenom,
    FundsTwoCoins,
    FundsZero,
    CodeNotAllowed,
    NZero,
    NOver,
    PerZero,
    PerOverMax,
    PerOver3pct,
    PriceUnder,
    PriceDenom,
    StartPast,
    StartNow,
    StartBeforeGenesis,
    EndAtStart,
    EndBeforeStart,
    NoEndNoCap,
    NoCap,
    ZeroPriceNoCap,
    BadCreator,
    BadPay,
    BadWlString,
    WlOther,
    WlNotAContract,
    TradeOver,
    TradeAt,
    RoyOver,
    RoyMax,
    RoyBadPay,
    DescLong,
    DescMax,
    BadImg,
    BadLink,
    BadUri,
    BadNft,
    OtherCreator,
    JunkAllowedCode,
    PoorSender,
}
const FAULTS: [Fault; 43] = [
    Fault::None,
    Fault::FundsUnder,
    Fault::FundsOver1,
    Fault::FundsOverLots,
    Fault::FundsEmpty,
    Fault::FundsWrongDenom,
    Fault::FundsTwoCoins,
    Fault::FundsZero,
    Fault::CodeNotAllowed,
    Fault::NZero,
    Fault::NOver,
    Fault::PerZero,
    Fault::PerOverMax,
    Fault::PerOver3pct,
    Fault::PriceUnder,
    Fault::PriceDenom,
    Fault::StartPast,
    Fault::StartNow,
    Fault::StartBeforeGenesis,
    Fault::EndAtStart,
    Fault::EndBeforeStart,
    Fault::NoEndNoCap,
    Fault::NoCap,
    Fault::ZeroPriceNoCap,
    Fault::BadCreator,
    Fault::BadPay,
    Fault::BadWlString,
    Fault::WlOther,
    Fault::WlNotAContract,
    Fault::TradeOver,
    Fault::TradeAt,
    Fault::RoyOver,
    Fault::RoyMax,
    Fault::RoyBadPay,
    Fault::DescLong,
    Fault::DescMax,
    Fault::BadImg,
    Fault::BadLink,
    Fault::BadUri,
    Fault::BadNft,
    Fault::OtherCreator,
    Fault::JunkAllowedCode,
    Fault::PoorSender,
];

#[derive(Clone, Debug)]
struct Wl {
    id: u64,
    flex: bool,
    start: u64,
    end: u64,
}

fn three_bound(code: u64, n: u64, maxper: u64) -> u64 {
    if enforces_3pct(code) {
        maxper.min(if n < 100 { 3 } else { ceil3pct(n) })
    } else {
        maxper
    }
}

/// a create message that is valid under `p` at `now` whenever one exists (boundary values preferred)
fn baseline(rng: &mut Rng, f: u64, p: &P, now: u64, wls: &[Wl]) -> Cr {
    let sender = *rng.pick(&[10u64, 12]);
    let creator = if rng.chance(2, 3) { sender } else { 13 };
    let sg_ok: Vec<u64> = p.allowed.iter().copied().filter(|c| (16..=19).contains(c)).collect();
    let sg721 = if sg_ok.is_empty() { 16 } else { *rng.pick(&sg_ok) };
    let oe = p.kind == FactoryKind::OpenEdition;
    // token count
    let n_choices: Vec<u64> = [1u64, 2, 33, 34, 99, 100, 101, 133, 134, 167, p.maxtok.saturating_sub(1), p.maxtok].iter().copied().filter(|x| *x >= 1 && *x <= p.maxtok.max(1)).collect();
    let mut n = Some(*rng.pick(&n_choices));
    let mut end = None;
    let start = if oe { now + *rng.pick(&[1u64, 2, 86_400 * NS]) } else { now.max(GENESIS) + *rng.pick(&[0u64, 0, 1, 86_400 * NS]) };
    if oe {
        end = if rng.chance(2, 3) { Some(start + *rng.pick(&[1u64, 7 * 86_400 * NS])) } else { None };
        if end.is_some() && p.airp.1 != 0 && rng.chance(1, 3) {
            n = None;
        }
    }
    let bound = three_bound(p.code, n.unwrap_or(0), p.maxper);
    let per_choices: Vec<u64> = [1u64, bound.saturating_sub(1), bound, bound].iter().copied().filter(|x| *x >= 1).collect();
    let per = if per_choices.is_empty() { 1 } else { *rng.pick(&per_choices) };
    let mut price = (p.minp.0, p.minp.1 + *rng.pick(&[0u128, 0, 1, 50_000_000]));
    if oe && n.is_none() && price.1 == 0 {
        price.1 = 1;
    }
    // whitelist: mostly none, sometimes a compatible one
    let flex_needed = matches!(p.code, 3 | 4 | 8);
    let compat: Vec<&Wl> = wls.iter().filter(|w| w.flex == flex_needed).collect();
    let wl = if !compat.is_empty() && rng.chance(1, 3) && p.kind != FactoryKind::TokenMerge && p.kind != FactoryKind::Base { AF::Id(rng.pick(&compat).id) } else { AF::Absent };
    let trade = match rng.below(6) {
        0 => Some(start + p.off * NS),
        1 => Some((start + p.off * NS).saturating_sub(1)),
        2 => Some(start),
        _ => None,
    };
    let (roys, royp) = match rng.below(6) {
        0 => (Some(50_000_000_000_000_000u128), AF::Id(14)),
        1 => (Some(0), AF::Id(14)),
        _ => (None, AF::Absent),
    };
    Cr {
        f,
        sender,
        funds: vec![p.fee],
        sg721,
        creator: AF::Id(creator),
        n,
        per,
        start,
        end,
        price,
        pay: if rng.chance(1, 5) { AF::Id(15) } else { AF::Absent },
        wl,
        trade,
        roys,
        royp,
        desc: *rng.pick(&[0u64, 12, 100]),
        img: true,
        link: if rng.chance(1, 2) { Some(true) } else { None },
        uri: true,
        nft: true,
    }
}

/// single-fault mutation; returns false when the fault makes no sense for this factory
fn apply_fault(rng: &mut Rng, c: &mut Cr, fault: Fault, p: &P, now: u64, wls: &[Wl], other_contract: u64) -> bool {
    let oe = p.kind == FactoryKind::OpenEdition;
    let has_sale = matches!(p.kind, FactoryKind::Vending | FactoryKind::OpenEdition | FactoryKind::TokenMerge);
    let has_price = matches!(p.kind, FactoryKind::Vending | FactoryKind::OpenEdition);
    let has_wl = has_price;
    match fault {
        Fault::None => {}
        Fault::FundsUnder => {
            if p.fee.1 == 0 {
                return false;
            }
            c.funds = vec![(p.fee.0, p.fee.1 - 1)]
        }
        Fault::FundsOver1 => c.funds = vec![(p.fee.0, p.fee.1 + 1)],
        Fault::FundsOverLots => c.funds = vec![(p.fee.0, p.fee.1 + 1 + rng.sized_u128(40))],
        Fault::FundsEmpty => c.funds = vec![],
        Fault::FundsWrongDenom => c.funds = vec![((p.fee.0 + 1) % 3, p.fee.1.max(1))],
        Fault::FundsTwoCoins => c.funds = vec![(p.fee.0, p.fee.1.max(1)), ((p.fee.0 + 1) % 3, 5)],
        Fault::FundsZero => c.funds = vec![(p.fee.0, 0)],
        Fault::CodeNotAllowed => {
            let not: Vec<u64> = (16..=19).filter(|x| !p.allowed.contains(x)).collect();
            c.sg721 = if not.is_empty() { 999 } else { *rng.pick(&not) }
        }
        Fault::NZero if has_sale => c.n = Some(0),
        Fault::NOver if has_sale => c.n = Some(p.maxtok + 1),
        Fault::PerZero if has_sale => c.per = 0,
        Fault::PerOverMax if has_sale => c.per = p.maxper + 1,
        Fault::PerOver3pct if has_sale => {
            let n = c.n.unwrap_or(0);
            c.per = (if n < 100 { 3 } else { ceil3pct(n) }) + 1
        }
        Fault::PriceUnder if has_price => {
            if p.minp.1 == 0 {
                return false;
            }
            c.price.1 = p.minp.1 - 1
        }
        Fault::PriceDenom if has_price => c.price.0 = (p.minp.0 + 1) % 3,
        Fault::StartPast if has_sale => c.start = now.saturating_sub(1),
        Fault::StartNow if has_sale => c.start = now,
        Fault::StartBeforeGenesis if has_sale => c.start = GENESIS - 1,
        Fault::EndAtStart if oe => c.end = Some(c.start),
        Fault::EndBeforeStart if oe => c.end = Some(c.start.saturating_sub(1)),
        Fault::NoEndNoCap if oe => {
            c.end = None;
            c.n = None
        }
        Fault::NoCap if oe => {
            c.n = None;
            if c.end.is_none() {
                c.end = Some(c.start + 1)
            }
        }
        Fault::ZeroPriceNoCap if oe => {
            c.n = None;
            c.price.1 = 0;
            if c.end.is_none() {
                c.end = Some(c.start + 1)
            }
        }
        Fault::BadCreator => c.creator = AF::Bad,
        Fault::BadPay if has_price => c.pay = AF::Bad,
        Fault::BadWlString if has_wl => c.wl = AF::Bad,
        Fault::WlOther if has_wl => {
            if wls.is_empty() {
                return false;
            }
            c.wl = AF::Id(rng.pick(wls).id)
        }
        Fault::WlNotAContract if has_wl => c.wl = AF::Id(other_contract),
        Fault::TradeOver => c.trade = Some(c.start + p.off * NS + 1),
        Fault::TradeAt => c.trade = Some(c.start + p.off * NS),
        Fault::RoyOver => {
            c.roys = Some(10u128.pow(18) + 1);
            c.royp = AF::Id(14)
        }
        Fault::RoyMax => {
            c.roys = Some(10u128.pow(18));
            c.royp = AF::Id(14)
        }
        Fault::RoyBadPay => {
            c.roys = Some(10u128.pow(16));
            c.royp = AF::Bad
        }
        Fault::DescLong => c.desc = 513,
        Fault::DescMax => c.desc = 512,
        Fault::BadImg => c.img = false,
        Fault::BadLink => c.link = Some(false),
        Fault::BadUri if has_sale => c.uri = false,
        Fault::BadNft if oe => c.nft = false,
        Fault::OtherCreator => c.creator = AF::Id(if c.sender == 10 { 12 } else { 10 }),
        Fault::JunkAllowedCode => {
            // allow-listed, but not the code of a collection contract
            let junk: Vec<u64> = p.allowed.iter().copied().filter(|x| !(16..=19).contains(x)).collect();
            if junk.is_empty() {
                return false;
            }
            c.sg721 = *rng.pick(&junk)
        }
        Fault::PoorSender => c.sender = 17, // an account that owns nothing (or, in the grid, exactly one fee)
        _ => return false,
    }
    true
}

fn family_codes(k: FactoryKind) -> Vec<u64> {
    match k {
        FactoryKind::Vending => vec![1, 2, 3, 4, 5, 6],
        FactoryKind::OpenEdition => vec![7, 8, 9],
        FactoryKind::TokenMerge => vec![10],
        FactoryKind::Base => vec![11],
    }
}

fn mkfactory_line(p: &P) -> String {
    format!("mkfactory kind={} {}", fk_idx(p.kind), p.obs())
}

fn random_params(rng: &mut Rng, kind: FactoryKind) -> P {
    let fam = family_codes(kind);
    let mut code = *rng.pick(&fam);
    if rng.chance(1, 25) {
        code = *rng.pick(&[1u64, 7, 10, 11, 16, 999]); // cross-family / not a minter / no such code
    }
    let mut allowed: Vec<u64> = vec![16, 17, 18, 19].into_iter().filter(|_| rng.chance(3, 4)).collect();
    if rng.chance(1, 10) {
        allowed.push(*rng.pick(&[20u64, 999, 11, 16]));
    }
    rng.shuffle(&mut allowed);
    let fee_denom = if rng.chance(7, 10) { 0 } else { 1 };
    let fee_amt = match rng.below(8) {
        0 => rng.below(4) as u128,
        1 => 2,
        2 => 3,
        _ => 1_000_000 + rng.sized_u128(34),
    };
    let minp = (0u64, *rng.pick(&[0u128, 1, 50_000_000, 50_000_000]));
    let has_ext = kind != FactoryKind::Base;
    P {
        kind,
        code,
        allowed,
        frozen: rng.chance(1, 12),
        fee: (fee_denom, fee_amt),
        minp: if kind == FactoryKind::TokenMerge { (0, 0) } else { minp },
        off: *rng.pick(&[0u64, 1, 604_800]),
        maxtok: if has_ext { *rng.pick(&[1u64, 2, 50, 99, 100, 101, 134, 200, 400]) } else { 0 },
        maxper: if has_ext { *rng.pick(&[1u64, 2, 3, 4, 5, 6, 50]) } else { 0 },
        airp: if has_ext { (0, *rng.pick(&[0u128, 0, 5])) } else { (0, 0) },
    }
}

fn upd_line(f: u64, fields: &BTreeMap<&str, String>) -> String {
    let g = |k: &str, none: &str| fields.get(k).cloned().unwrap_or(none.to_string());
    format!(
        "params f={f} code={} add={} rm={} frozen={} fee={} minp={} off={} maxtok={} maxper={} airp={}",
        g("code", "-"),
        g("add", "x"),
        g("rm", "x"),
        g("frozen", "-"),
        g("fee", "-"),
        g("minp", "-"),
        g("off", "-"),
        g("maxtok", "-"),
        g("maxper", "-"),
        g("airp", "-")
    )
}

fn upd(f: u64, field: &'static str, val: String) -> String {
    let mut m = BTreeMap::new();
    m.insert(field, val);
    upd_line(f, &m)
}

fn params_update_line(rng: &mut Rng, f: u64, p: &P) -> (String, String) {
    let mut fields: BTreeMap<&str, String> = BTreeMap::new();
    let fam = family_codes(p.kind);
    let has_ext = p.kind != FactoryKind::Base;
    let what = match rng.below(12) {
        0 => {
            fields.insert("frozen", (!p.frozen as u8).to_string());
            "frozen"
        }
        1 => {
            fields.insert("code", if rng.chance(1, 8) { rng.pick(&[1u64, 7, 10, 11, 999]).to_string() } else { rng.pick(&fam).to_string() });
            "code"
        }
        2 => {
            let add: Vec<u64> = (0..rng.range(1, 3)).map(|_| *rng.pick(&[16u64, 17, 18, 19, 19, 20])).collect();
            fields.insert("add", fmt_list(&add));
            "add"
        }
        3 => {
            let rm: Vec<u64> = (0..rng.range(1, 2)).map(|_| *rng.pick(&[16u64, 17, 18, 19])).collect();
            fields.insert("rm", fmt_list(&rm));
            if rng.chance(1, 2) {
                fields.insert("add", fmt_list(&[*rng.pick(&[16u64, 17, 18, 19])]));
            }
            "rm"
        }
        4 => {
            let d = if rng.chance(1, 3) { 1 - p.fee.0.min(1) } else { p.fee.0 };
            let a = match rng.below(4) {
                0 => p.fee.1 + 1,
                1 => p.fee.1.saturating_sub(1),
                2 => rng.below(4) as u128,
                _ => 1_000_000 + rng.sized_u128(30),
            };
            fields.insert("fee", coin_s((d, a)));
            "fee"
        }
        5 if p.kind != FactoryKind::TokenMerge => {
            let d = if rng.chance(1, 6) { 1 } else { 0 };
            fields.insert("minp", coin_s((d, *rng.pick(&[0u128, 1, p.minp.1 + 1, p.minp.1.saturating_sub(1), 50_000_000]))));
            "minp"
        }
        6 => {
            fields.insert("off", rng.pick(&[0u64, 1, 60, 604_800]).to_string());
            "off"
        }
        7 | 8 if has_ext => {
            fields.insert("maxtok", rng.pick(&[p.maxtok + 1, p.maxtok.saturating_sub(1).max(1), 99, 100, 101, 200]).to_string());
            "maxtok"
        }
        9 | 10 if has_ext => {
            fields.insert("maxper", rng.pick(&[p.maxper + 1, p.maxper.saturating_sub(1).max(1), 3, 4, 50]).to_string());
            "maxper"
        }
        11 if has_ext => {
            let d = if rng.chance(1, 6) { 1 } else { 0 };
            fields.insert("airp", coin_s((d, *rng.pick(&[0u128, 0, 5]))));
            "airp"
        }
        _ => {
            fields.insert("frozen", (p.frozen as u8).to_string());
            "noop"
        }
    };
    (upd_line(f, &fields), what.to_string())
}

struct Created {
    m: u64,
    code: u64,
    n: u64,
    admin: u64,
    f: u64,
}

fn parse_created(line: &str, out: &str, code: u64) -> Option<Created> {
    if !out.starts_with("ok ") {
        return None;
    }
    Some(Created {
        m: kv_u64(out, "m")?,
        code,
        n: kv_opt_u64(line, "n").flatten().unwrap_or(0),
        admin: match AF::parse(line, "creator") {
            AF::Id(i) => i,
            _ => 0,
        },
        f: kv_u64(line, "f")?,
    })
}

fn class_of(p: &P, fault: Fault, out: &str) -> String {
    format!("create:{:?}:code{}:{:?}:{}:fee{}", p.kind, p.code, fault, if out.starts_with("ok") { "ok" } else { "err" }, if p.fee.0 == 0 { "native" } else { "other" })
}

fn main() {
    let mut ses = Session::new("C08");
    let mut sut = S::new();
    if ses.maybe_replay(&mut sut) {
        ses.finish(&mut sut);
    }
    // the model's static code table mirrors the order in which World::new stores code
    {
        let w = World::new(0);
        assert_eq!(w.codes.minters, (1..=11).collect::<Vec<u64>>(), "code table");
        assert_eq!((w.codes.vending_factory, w.codes.open_edition_factory, w.codes.token_merge_factory, w.codes.base_factory), (12, 13, 14, 15));
        assert_eq!((w.codes.sg721_base, w.codes.sg721_updatable, w.codes.sg721_nt, w.codes.sg721_metadata_onchain), (16, 17, 18, 19));
        assert_eq!((w.codes.wl[0], w.codes.wl[1]), (20, 21));
    }
    let mut rng = ses.rng.fork();
    let kinds = [FactoryKind::Vending, FactoryKind::OpenEdition, FactoryKind::TokenMerge, FactoryKind::Base];
    let fund_lines = |who: u64| -> Vec<String> { (0..3).map(|d| format!("fund who={who} denom={d} amt=1000000000000000000000000")).collect() };

    // ---------------------------------------------------------------- 1. the grid: every fault × every factory × every minter code,
    // against default parameters, then against parameters moved by governance so that the same message flips.
    for kind in kinds {
        for code in family_codes(kind).into_iter().chain(if matches!(kind, FactoryKind::Vending | FactoryKind::OpenEdition) { vec![11u64] } else { vec![] }) {
            for fee_denom in [0u64, 1] {
                ses.begin_case(&mut sut, &format!("case grid kind={:?} code={code} feedenom={fee_denom}", kind));
                let now = GENESIS + 5_000 * NS;
                ses.step(&mut sut, &format!("time t={now}"));
                for who in [10u64, 12] {
                    for l in fund_lines(who) {
                        ses.step(&mut sut, &l);
                    }
                }
                let has_ext = kind != FactoryKind::Base;
                let p0 = P {
                    kind,
                    code,
                    allowed: vec![16, 17, 18],
                    frozen: false,
                    fee: (fee_denom, 5_000_000),
                    minp: if kind == FactoryKind::TokenMerge { (0, 0) } else { (0, 50_000_000) },
                    off: 604_800,
                    maxtok: if has_ext { 200 } else { 0 },
                    maxper: if has_ext { 5 } else { 0 },
                    airp: (0, 0),
                };
                let out = ses.step(&mut sut, &mkfactory_line(&p0));
                let f = kv_u64(&out, "f").unwrap();
                let mut wls: Vec<Wl> = vec![];
                for flex in [false, true] {
                    let (s, e) = (now + 100 * NS, now + 200 * NS);
                    let o = ses.step(&mut sut, &format!("mkwl flex={} start={s} end={e}", flex as u8));
                    if let Some(id) = kv_u64(&o, "wl") {
                        wls.push(Wl { id, flex, start: s, end: e });
                    }
                }
                let mut created: Vec<Created> = vec![];
                for fault in FAULTS {
                    let p = sut.read_params(&addr(f), kind).unwrap();
                    let mut c = baseline(&mut rng, f, &p, now, &wls);
                    if !apply_fault(&mut rng, &mut c, fault, &p, now, &wls, f) {
                        continue;
                    }
                    let line = c.line();
                    let o = ses.step(&mut sut, &line);
                    ses.mark(class_of(&p, fault, &o));
                    if let Some(cr) = parse_created(&line, &o, p.code) {
                        created.push(cr);
                    }
                    // governance moves the bound; the very same message is sent again, then the bound moves back
                    let shift: Option<(String, String)> = match fault {
                        Fault::NOver if has_ext => Some((upd(f, "maxtok", (p.maxtok + 1).to_string()), upd(f, "maxtok", p.maxtok.to_string()))),
                        Fault::PerOverMax if has_ext => Some((upd(f, "maxper", (p.maxper + 1).to_string()), upd(f, "maxper", p.maxper.to_string()))),
                        Fault::PriceUnder => Some((upd(f, "minp", coin_s((0, p.minp.1 - 1))), upd(f, "minp", coin_s(p.minp)))),
                        Fault::FundsUnder => Some((upd(f, "fee", coin_s((p.fee.0, p.fee.1 - 1))), upd(f, "fee", coin_s(p.fee)))),
                        Fault::FundsOver1 => Some((upd(f, "fee", coin_s((p.fee.0, p.fee.1 + 1))), upd(f, "fee", coin_s(p.fee)))),
                        Fault::CodeNotAllowed if c.sg721 != 999 => Some((upd(f, "add", c.sg721.to_string()), upd(f, "rm", c.sg721.to_string()))),
                        Fault::None => Some((upd(f, "frozen", "1".into()), upd(f, "frozen", "0".into()))),
                        Fault::FundsWrongDenom => Some((upd(f, "fee", coin_s(c.funds[0])), upd(f, "fee", coin_s(p.fee)))),
                        Fault::TradeOver => Some((upd(f, "off", (p.off + 1).to_string()), upd(f, "off", p.off.to_string()))),
                        _ => None,
                    };
                    if let Some((go, back)) = shift {
                        ses.step(&mut sut, &go);
                        let p2 = sut.read_params(&addr(f), kind).unwrap();
                        let o2 = ses.step(&mut sut, &line);
                        ses.mark(format!("{}:after-governance", class_of(&p2, fault, &o2)));
                        if let Some(cr) = parse_created(&line, &o2, p2.code) {
                            created.push(cr);
                        }
                        ses.step(&mut sut, &back);
                    }
                }
                // allow-listed code ids that are not collections: a whitelist code, a minter code, no code at all
                ses.step(&mut sut, &upd(f, "add", "20,11,999".into()));
                for junk in [20u64, 11, 999] {
                    let p = sut.read_params(&addr(f), kind).unwrap();
                    let mut c = baseline(&mut rng, f, &p, now, &wls);
                    c.sg721 = junk;
                    let o = ses.step(&mut sut, &c.line());
                    ses.mark(format!("junk-allowed-code:{:?}:code{code}:{junk}:{}", kind, &o[..2]));
                }
                ses.step(&mut sut, &upd(f, "rm", "20,11,999".into()));
                // a payer that owns exactly one fee: pays once, then cannot pay again; overpaying is impossible for it
                {
                    let p = sut.read_params(&addr(f), kind).unwrap();
                    ses.step(&mut sut, &format!("fund who=17 denom={} amt={}", p.fee.0, p.fee.1));
                    for (tag, extra) in [("over", 1u128), ("exact", 0), ("again", 0)] {
                        let mut c = baseline(&mut rng, f, &p, now, &wls);
                        c.sender = 17;
                        c.funds = vec![(p.fee.0, p.fee.1 + extra)];
                        let o = ses.step(&mut sut, &c.line());
                        ses.mark(format!("poor-sender:{:?}:code{code}:{tag}:{}", kind, &o[..2]));
                    }
                }
                // whitelist activity: exact instants
                if matches!(kind, FactoryKind::Vending | FactoryKind::OpenEdition) && code != 11 {
                    let flex_needed = matches!(code, 3 | 4 | 8);
                    if let Some(w) = wls.iter().find(|w| w.flex == flex_needed).cloned() {
                        for t in [w.start - 1, w.start, w.end - 1, w.end] {
                            ses.step(&mut sut, &format!("time t={t}"));
                            let p = sut.read_params(&addr(f), kind).unwrap();
                            let mut c = baseline(&mut rng, f, &p, t, &wls);
                            c.wl = AF::Id(w.id);
                            let o = ses.step(&mut sut, &c.line());
                            ses.mark(format!("wl-instant:{:?}:code{code}:{}:{}", kind, if t < w.start { "before" } else if t < w.end { "active" } else { "after" }, &o[..2]));
                        }
                    }
                }
                // per-address-limit updates on what was created, against moved governance bounds
                for cr in created.iter().take(6) {
                    let p = sut.read_params(&addr(cr.f), kind).unwrap();
                    let b = three_bound(cr.code, cr.n, p.maxper);
                    for l in [0, 1, b.saturating_sub(1), b, b + 1, p.maxper, p.maxper + 1] {
                        let o = ses.step(&mut sut, &format!("setlimit m={} sender={} funds=- limit={l}", cr.m, cr.admin));
                        ses.mark(format!("setlimit:code{}:{}:{}", cr.code, if l == 0 { "zero" } else if l <= b { "within" } else if l <= p.maxper { "over3pct" } else { "overmax" }, &o[..2]));
                    }
                    let o = ses.step(&mut sut, &format!("setlimit m={} sender=77 funds=- limit=1", cr.m));
                    ses.mark(format!("setlimit:stranger:{}", &o[..2]));
                    let o = ses.step(&mut sut, &format!("setlimit m={} sender={} funds=0:1 limit=1", cr.m, cr.admin));
                    ses.mark(format!("setlimit:funds:{}", &o[..2]));
                    if has_ext {
                        ses.step(&mut sut, &upd(cr.f, "maxper", (b + 2).to_string()));
                        for l in [b, b + 1, b + 2, b + 3] {
                            let o = ses.step(&mut sut, &format!("setlimit m={} sender={} funds=- limit={l}", cr.m, cr.admin));
                            ses.mark(format!("setlimit-after-governance:code{}:{}:{}", cr.code, l as i64 - b as i64, &o[..2]));
                        }
                        ses.step(&mut sut, &upd(cr.f, "maxper", "1".into()));
                        for l in [1, 2] {
                            let o = ses.step(&mut sut, &format!("setlimit m={} sender={} funds=- limit={l}", cr.m, cr.admin));
                            ses.mark(format!("setlimit-after-lowering:code{}:{l}:{}", cr.code, &o[..2]));
                        }
                        ses.step(&mut sut, &upd(cr.f, "maxper", p.maxper.to_string()));
                    }
                }
                ses.end_case();
            }
        }
    }

    // ---------------------------------------------------------------- 2. the 3 % rule: every (n, limit) around every step of ⌈3n/100⌉
    for code in [1u64, 2, 3, 4, 5, 6, 10] {
        let kind = if code == 10 { FactoryKind::TokenMerge } else { FactoryKind::Vending };
        ses.begin_case(&mut sut, &format!("case three-percent code={code}"));
        let now = GENESIS + 9 * NS;
        ses.step(&mut sut, &format!("time t={now}"));
        for l in fund_lines(10) {
            ses.step(&mut sut, &l);
        }
        for l in fund_lines(12) {
            ses.step(&mut sut, &l);
        }
        let p0 = P { kind, code, allowed: vec![16], frozen: false, fee: (0, 2), minp: (0, 0), off: 0, maxtok: 400, maxper: 9, airp: (0, 0) };
        let out = ses.step(&mut sut, &mkfactory_line(&p0));
        let f = kv_u64(&out, "f").unwrap();
        let ns: Vec<u64> = if ses.tier() == Tier::Quick { vec![1, 50, 99, 100, 101, 133, 134, 166, 167, 200, 201, 233, 234, 300, 301] } else { (1..=320).collect() };
        for n in ns {
            let b = if n < 100 { 3 } else { ceil3pct(n) };
            for per in [b.saturating_sub(1).max(1), b, b + 1, 9, 10] {
                let p = sut.read_params(&addr(f), kind).unwrap();
                let mut c = baseline(&mut rng, f, &p, now, &[]);
                c.n = Some(n);
                c.per = per;
                let o = ses.step(&mut sut, &c.line());
                ses.mark(format!("3pct:code{code}:n{}:{}:{}", if n < 100 { "lt100".to_string() } else { format!("{}", n % 100 % 34 == 0) }, per as i64 - b as i64, &o[..2]));
            }
        }
        ses.end_case();
    }

    // ---------------------------------------------------------------- 3. random histories: governance updates between creations
    let ncases = ses.scale(1200, 30000);
    for ci in 0..ncases {
        let kind = kinds[(ci % 4) as usize];
        ses.begin_case(&mut sut, &format!("case random i={ci} kind={:?}", kind));
        let mut now = match rng.below(10) {
            0 => GENESIS - 10 * NS,
            1 => GENESIS,
            _ => GENESIS + rng.below(1_000_000) * NS + rng.below(3),
        };
        ses.step(&mut sut, &format!("time t={now}"));
        for who in [10u64, 12] {
            for l in fund_lines(who) {
                ses.step(&mut sut, &l);
            }
        }
        let mut facs: Vec<(u64, FactoryKind)> = vec![];
        let p0 = random_params(&mut rng, kind);
        let out = ses.step(&mut sut, &mkfactory_line(&p0));
        facs.push((kv_u64(&out, "f").unwrap(), kind));
        if rng.chance(1, 3) {
            let k2 = *rng.pick(&kinds);
            let out = ses.step(&mut sut, &mkfactory_line(&random_params(&mut rng, k2)));
            facs.push((kv_u64(&out, "f").unwrap(), k2));
        }
        let mut wls: Vec<Wl> = vec![];
        for _ in 0..rng.below(3) {
            let flex = rng.chance(1, 2);
            let s = now.max(GENESIS) + rng.range(1, 50) * NS;
            let e = s + rng.range(1, 50) * NS;
            let o = ses.step(&mut sut, &format!("mkwl flex={} start={s} end={e}", flex as u8));
            if let Some(id) = kv_u64(&o, "wl") {
                wls.push(Wl { id, flex, start: s, end: e });
            }
        }
        let mut created: Vec<Created> = vec![];
        let nops = rng.range(8, 28);
        for _ in 0..nops {
            let (f, k) = *rng.pick(&facs);
            let p = sut.read_params(&addr(f), k).unwrap();
            match rng.below(20) {
                0..=11 => {
                    let mut c = baseline(&mut rng, f, &p, now, &wls);
                    let fault = if rng.chance(11, 20) { Fault::None } else { *rng.pick(&FAULTS) };
                    let other = facs[0].0;
                    let applied = apply_fault(&mut rng, &mut c, fault, &p, now, &wls, other);
                    let line = c.line();
                    let o = ses.step(&mut sut, &line);
                    ses.mark(class_of(&p, if applied { fault } else { Fault::None }, &o));
                    if p.frozen {
                        ses.mark(format!("create:frozen:{:?}:{}", p.kind, &o[..2]));
                    }
                    if let Some(cr) = parse_created(&line, &o, p.code) {
                        created.push(cr);
                    }
                }
                12..=15 => {
                    let (l, what) = params_update_line(&mut rng, f, &p);
                    let o = ses.step(&mut sut, &l);
                    ses.mark(format!("params:{:?}:{what}:{}", k, &o[..2]));
                }
                16 => {
                    // move the clock: to a whitelist edge, or forward
                    if !wls.is_empty() && rng.chance(1, 2) {
                        let w = rng.pick(&wls).clone();
                        now = *rng.pick(&[w.start - 1, w.start, w.end - 1, w.end]);
                    } else {
                        now += rng.below(100) * NS + rng.below(2);
                    }
                    ses.step(&mut sut, &format!("time t={now}"));
                }
                _ => {
                    if created.is_empty() {
                        continue;
                    }
                    let cr = rng.pick(&created);
                    let kf = facs.iter().find(|x| x.0 == cr.f).unwrap().1;
                    let pf = sut.read_params(&addr(cr.f), kf).unwrap();
                    let b = three_bound(cr.code, cr.n, pf.maxper);
                    let l = *rng.pick(&[0, 1, b.saturating_sub(1), b, b + 1, pf.maxper, pf.maxper + 1]);
                    let sender = if rng.chance(1, 8) { 77 } else { cr.admin };
                    let o = ses.step(&mut sut, &format!("setlimit m={} sender={sender} funds=- limit={l}", cr.m));
                    ses.mark(format!("setlimit:random:code{}:{}:{}", cr.code, if sender == 77 { "stranger" } else if l == 0 { "zero" } else if l <= b { "within" } else { "over" }, &o[..2]));
                }
            }
        }
        ses.end_case();
    }
    if std::env::var("C08_DUMP_CLASSES").is_ok() {
        let _ = std::fs::write(ses.args.out.join("classes.txt"), ses.classes.iter().cloned().collect::<Vec<_>>().join("\n"));
    }
    ses.note(format!("contract panics caught and rolled back: {}", sut.panics));
    ses.note("every create is checked by monitors that transcribe the property from the real factory's Params query, the bank module's full balance table, ContractInfo, minter Config and collection Minter/Ownership/CollectionInfo queries");
    ses.finish(&mut sut);
}
