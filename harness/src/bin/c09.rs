//! C09 — collection tokens: minted only by the minter, ids unique, freezes final, nt owner constant.
//!
//! World: the REAL sg721-base / sg721-nt / sg721-updatable / sg721-metadata-onchain entry points under
//! cw-multi-test, instantiated by a tiny stub "minter" contract (sg721 requires the instantiating sender to be a
//! contract). Two stubs exist (ids 1000, 1001): messages "sent by" a stub are forwarded as `WasmMsg::Execute`
//! sub-messages, so duplicate-id mints, mints after an ownership hand-over etc. can be attempted. The stubs also
//! implement `ReceiveNft` (refusing when the payload is `fail`) so `SendNft` can be exercised both ways.
//!
//! Protocol: see lean/LaunchpadModel/Driver/C09.lean. Output lines are `ok|err <primary> ## <drift>`: only `primary`
//! (what C09 constrains + the mechanism state of the theorems) decides agreement with the model.
//!
//! Round 3:
//! * observations come from queries and the crates' TYPED state accessors (`cw2::get_contract_version`,
//!   `cw_ownable::get_ownership`, `Sg721Contract::default().frozen_collection_info`, `…parent.operators`), not raw keys;
//! * monitors compare against GHOST bookkeeping the harness derives from what it sent (who is the minter, who is the
//!   creator, which freezes were accepted, whom each nt token was minted to), not against the contract's own answers;
//! * the message surface is enumerated at RUN TIME from the crates' JSON schemas; unknown variants are sent as raw JSON
//!   (`raw v=<variant>`) under the same monitors; nothing here stops compiling when a variant is added;
//! * migrations: `setver v=a.b.c` rewrites the stored cw2 version (a collection instantiated by an older release),
//!   `migrate to=<kind>` migrates to that collection's code.
use std::collections::{BTreeMap, BTreeSet, HashMap};

use cosmwasm_schema::cw_serde;
use cosmwasm_std::testing::{MockApi, MockQuerier, MockStorage};
use cosmwasm_std::{
    to_json_binary, Addr, Binary, BlockInfo, Coin, ContractInfo, Decimal, Deps, DepsMut, Empty, Env, MessageInfo, Order, QuerierWrapper, Reply,
    Response, StdError, StdResult, Storage, SubMsg, Timestamp, Uint128, WasmMsg,
};
use cw_multi_test::{BankSudo, ContractWrapper, Executor, SudoMsg};
use cw_storage_plus::Item;
use lp_harness::boxes::{self, custom_mock_app, App, Boxed};
use lp_harness::world::*;
use lp_harness::*;
use serde_json::{json, Map, Value};

// ------------------------------------------------------------------------------------------------ stub minter

#[cw_serde]
pub enum StubExec {
    /// forward an arbitrary message to another contract as a sub-message
    Forward { to: String, msg: Binary, funds: Vec<Coin> },
    /// instantiate a contract (the collection) as a sub-message, so that `info.sender` is this contract
    Inst { code_id: u64, msg: Binary, admin: Option<String>, funds: Vec<Coin> },
    /// cw721 receiver hook; refuses the token when the payload is `fail`
    ReceiveNft(cw721::Cw721ReceiveMsg),
}

/// address of the contract the stub instantiated last (from the standard instantiate reply data, not from event names)
const LAST_INST: Item<String> = Item::new("last_inst");

fn stub_instantiate(_d: DepsMut, _e: Env, _i: MessageInfo, _m: Empty) -> StdResult<Response> {
    Ok(Response::new())
}
fn stub_execute(_d: DepsMut, _e: Env, _i: MessageInfo, m: StubExec) -> StdResult<Response> {
    match m {
        StubExec::Forward { to, msg, funds } => Ok(Response::new().add_message(WasmMsg::Execute { contract_addr: to, msg, funds })),
        StubExec::Inst { code_id, msg, admin, funds } => Ok(Response::new()
            .add_submessage(SubMsg::reply_on_success(WasmMsg::Instantiate { admin, code_id, msg, funds, label: "collection".into() }, 1))),
        StubExec::ReceiveNft(r) => {
            if r.msg.as_slice() == b"fail" {
                Err(StdError::generic_err("stub refuses this token"))
            } else {
                Ok(Response::new())
            }
        }
    }
}
fn stub_reply(d: DepsMut, _e: Env, m: Reply) -> StdResult<Response> {
    let r = cw_utils::parse_reply_instantiate_data(m).map_err(|e| StdError::generic_err(e.to_string()))?;
    LAST_INST.save(d.storage, &r.contract_address)?;
    Ok(Response::new())
}
fn stub_query(d: Deps, _e: Env, _m: Empty) -> StdResult<Binary> {
    to_json_binary(&LAST_INST.may_load(d.storage)?)
}
fn stub_box() -> Boxed {
    Box::new(ContractWrapper::new(stub_execute, stub_instantiate, stub_query).with_reply(stub_reply))
}

// ------------------------------------------------------------------------------------------------ naming

const CREATORS: [u64; 2] = [10, 11];
const HOLDERS: [u64; 4] = [20, 21, 22, 23];
const STRANGER: u64 = 30;
const PAYEES: [u64; 2] = [40, 41];
const ADMIN: u64 = 50;
const BANK: u64 = 60;
const INVALID: [u64; 4] = [900, 901, 902, 903];
const STUB_A: u64 = 1000;
const STUB_B: u64 = 1001;
/// the collection itself (model: any id ≥ 1000 is a contract)
const COLL: u64 = 1002;
const DAY_NS: u64 = 86_400_000_000_000;
const T0: u64 = 1_700_000_000_000_000_000;
const KINDS: [&str; 4] = ["base", "nt", "updatable", "onchain"];

/// Model ids <-> address strings. The three contracts of a case are mapped by what they ARE (stub A, stub B, the
/// collection), not by how cw-multi-test happens to number them. Ids 900..=999 are malformed address strings
/// (rejected by `addr_validate`); everything else as in `world::addr`.
#[derive(Clone, Default, Debug)]
struct Names {
    sa: String,
    sb: String,
    coll: Option<String>,
}
impl Names {
    fn s(&self, id: u64) -> String {
        match id {
            STUB_A => self.sa.clone(),
            STUB_B => self.sb.clone(),
            COLL => self.coll.clone().unwrap_or_else(|| addr(COLL)),
            n if (900..1000).contains(&n) => match n % 4 {
                0 => "ab".to_string(),         // too short
                1 => format!("Acct{:05}", n),  // not normalised (upper case)
                2 => "x".repeat(100),          // too long
                _ => String::new(),            // empty
            },
            n => addr(n),
        }
    }
    fn id(&self, s: &str) -> u64 {
        if s == self.sa {
            STUB_A
        } else if s == self.sb {
            STUB_B
        } else if Some(s) == self.coll.as_deref() {
            COLL
        } else if let Some(k) = s.strip_prefix("acct").and_then(|k| k.parse::<u64>().ok()) {
            k
        } else {
            addr_id(s)
        }
    }
}

fn url_str(id: u64) -> String {
    let n = id / 6;
    match id % 6 {
        0 => format!("https://example.com/{n}"),
        1 => format!("ipfs://bafy{n}/img.png"),
        2 => format!("not-a-url-{n}"),
        3 => format!("//missing-scheme/{n}"),
        4 => format!("http://[::1/{n}"),
        _ => format!("data:text/plain,{n}"),
    }
}
fn url_valid(id: u64) -> bool {
    url::Url::parse(&url_str(id)).is_ok()
}
fn desc_str(id: u64, len: u64) -> String {
    let len = len as usize;
    if len < 6 {
        return "x".repeat(len);
    }
    let head = format!("{:06}", id % 1_000_000);
    let rest = len - 6;
    let s = if id % 2 == 1 && rest % 2 == 0 { head + &"é".repeat(rest / 2) } else { head + &"x".repeat(rest) };
    assert_eq!(s.len(), len);
    s
}
fn desc_back(s: &str) -> (u64, u64) {
    let len = s.len() as u64;
    let id = if s.len() >= 6 { s.get(..6).and_then(|h| h.parse::<u64>().ok()).unwrap_or(999_999) } else { 0 };
    (id, len)
}
fn uri_str(id: u64) -> String {
    format!("ipfs://meta/{id}.json")
}
fn uri_back(s: &str) -> u64 {
    s.strip_prefix("ipfs://meta/").and_then(|r| r.strip_suffix(".json")).and_then(|n| n.parse().ok()).unwrap_or(999_999)
}
fn exp_json(e: &str) -> Value {
    match e {
        "-" => Value::Null,
        "n" => json!({"never": {}}),
        x if x.starts_with('h') => json!({"at_height": x[1..].parse::<u64>().unwrap()}),
        x if x.starts_with('t') => json!({"at_time": x[1..].to_string()}),
        _ => panic!("bad exp {e}"),
    }
}
fn exp_back(e: &cw_utils::Expiration) -> String {
    match e {
        cw_utils::Expiration::Never {} => "n".into(),
        cw_utils::Expiration::AtHeight(h) => format!("h{h}"),
        cw_utils::Expiration::AtTime(t) => format!("t{}", t.nanos()),
    }
}
/// `Expiration::is_expired` transcribed on the protocol's own notation (`-`/`n` never, `h<N>`, `t<N>`)
fn exp_expired(e: &str, h: u64, t: u64) -> bool {
    match e {
        "-" | "n" => false,
        x if x.starts_with('h') => x[1..].parse::<u64>().map(|v| v <= h).unwrap_or(false),
        x if x.starts_with('t') => x[1..].parse::<u64>().map(|v| v <= t).unwrap_or(false),
        _ => false,
    }
}
fn share_str(atomics: u128) -> String {
    Decimal::new(Uint128::new(atomics)).to_string()
}
fn kind_of_name(n: &str) -> String {
    match n {
        "crates.io:sg721-base" | "sg721-base" => "base",
        "crates.io:sg721-nt" => "nt",
        "crates.io:sg721-updatable" | "sg721-updatable" => "updatable",
        "crates.io:sg721-metadata-onchain" => "onchain",
        x => x,
    }
    .to_string()
}

// ------------------------------------------------------------------------------------------------ observations

#[derive(Clone, PartialEq, Debug, Default)]
struct Tok {
    id: u64,
    owner: u64,
    uri: Option<u64>,
    ext: u64,
    approvals: Vec<(u64, String)>,
}
type Editable = (u64, (u64, u64), u64, Option<u64>, Option<bool>, Option<(u64, u128)>);
#[derive(Clone, PartialEq, Debug, Default)]
struct Obs {
    kind: String,
    ver: String,
    owner: Option<u64>,
    pending: Option<u64>,
    pexp: Option<String>,
    fz: bool,
    /// `royalty_updated_at`; None = the item does not exist (pre-3.1.0 storage layout)
    rua: Option<u64>,
    creator: u64,
    desc: (u64, u64),
    img: u64,
    ext: Option<u64>,
    ec: Option<bool>,
    stt: Option<u64>,
    roy: Option<(u64, u128)>,
    n: u64,
    toks: Vec<Tok>,
    ops: Vec<(u64, u64, String)>,
    fm: bool,
    ue: bool,
    /// `Minter {}` query
    minter_q: Option<u64>,
}
impl Obs {
    fn tok(&self, id: u64) -> Option<&Tok> {
        self.toks.iter().find(|t| t.id == id)
    }
    fn editable(&self) -> Editable {
        (self.creator, self.desc, self.img, self.ext, self.ec, self.roy)
    }
    /// `<primary> ## <drift>`; `racc` = the implementation's verdict on the royalty rules for the line just executed
    fn render(&self, racc: &str) -> String {
        let dash = |v: Vec<String>, sep: &str| if v.is_empty() { "-".to_string() } else { v.join(sep) };
        let toks: Vec<String> = self.toks.iter().map(|t| format!("{}/{}/{}", t.id, t.owner, fmt_opt(&t.uri))).collect();
        let toksx: Vec<String> = self
            .toks
            .iter()
            .map(|t| {
                let aps: Vec<String> = t.approvals.iter().map(|(s, e)| format!("{s}@{e}")).collect();
                format!("{}/{}/{}", t.id, t.ext, dash(aps, "+"))
            })
            .collect();
        let ops: Vec<String> = self.ops.iter().map(|(o, p, e)| format!("{o}>{p}@{e}")).collect();
        let ob = |b: &Option<bool>| match b {
            None => "-",
            Some(true) => "1",
            Some(false) => "0",
        };
        format!(
            "k={} own={}/{}/{} fz={} cr={} desc={}:{} img={} ext={} ec={} roy={} n={} toks={} fm={} ue={} ## ver={} rua={} stt={} tx={} ops={} racc={}",
            self.kind,
            fmt_opt(&self.owner),
            fmt_opt(&self.pending),
            self.pexp.clone().unwrap_or("-".into()),
            self.fz as u8,
            self.creator,
            self.desc.0,
            self.desc.1,
            self.img,
            fmt_opt(&self.ext),
            ob(&self.ec),
            self.roy.map(|(p, s)| format!("{p}:{s}")).unwrap_or("-".into()),
            self.n,
            dash(toks, ";"),
            self.fm as u8,
            self.ue as u8,
            self.ver,
            fmt_opt(&self.rua),
            fmt_opt(&self.stt),
            dash(toksx, ";"),
            dash(ops, ","),
            racc
        )
    }
}

// ------------------------------------------------------------------------------------------------ world

struct World {
    app: App,
    codes: BTreeMap<&'static str, u64>,
    names: Names,
    coll: Option<Addr>,
    urls: HashMap<String, u64>,
}

impl World {
    fn new() -> World {
        let mut app = custom_mock_app();
        let mut codes = BTreeMap::new();
        codes.insert("base", app.store_code(boxes::sg721_base()));
        codes.insert("nt", app.store_code(boxes::sg721_nt()));
        codes.insert("updatable", app.store_code(boxes::sg721_updatable()));
        codes.insert("onchain", app.store_code(boxes::sg721_metadata_onchain()));
        let stub_code = app.store_code(stub_box());
        for id in CREATORS.iter().chain(HOLDERS.iter()).chain(PAYEES.iter()).chain([STRANGER, ADMIN, BANK].iter()) {
            for d in [0u64, 1] {
                app.sudo(SudoMsg::Bank(BankSudo::Mint { to_address: addr(*id), amount: vec![coin_of(d, 10u128.pow(24))] })).unwrap();
            }
        }
        let sa = app.instantiate_contract(stub_code, a(ADMIN), &Empty {}, &[], "stub-a", None).unwrap();
        let sb = app.instantiate_contract(stub_code, a(ADMIN), &Empty {}, &[], "stub-b", None).unwrap();
        let names = Names { sa: sa.to_string(), sb: sb.to_string(), coll: None };
        let mut w = World { app, codes, names, coll: None, urls: HashMap::new() };
        w.set_block(1, 1); // the model driver's default block
        for id in 0..60 {
            w.urls.insert(url_str(id), id);
        }
        w
    }

    fn url_id(&self, s: &str) -> u64 {
        *self.urls.get(s).unwrap_or(&999_999)
    }
    fn ad(&self, id: u64) -> Addr {
        Addr::unchecked(self.names.s(id))
    }

    fn set_block(&mut self, h: u64, t: u64) {
        self.app.set_block(BlockInfo { height: h, time: Timestamp::from_nanos(t), chain_id: "verif-1".into() });
    }

    /// run `msg` against `target` with `sender` (through the stub when the sender is a stub contract)
    fn send(&mut self, sender: u64, target: &Addr, msg: &Value, funds: &[Coin]) -> bool {
        self.fund(sender, funds);
        if sender == STUB_A || sender == STUB_B {
            let fwd = StubExec::Forward { to: target.to_string(), msg: to_json_binary(msg).unwrap(), funds: funds.to_vec() };
            self.app.execute_contract(a(BANK), self.ad(sender), &fwd, funds).is_ok()
        } else {
            self.app.execute_contract(self.ad(sender), target.clone(), msg, funds).is_ok()
        }
    }

    /// environment assumption: whoever signs a message owns the coins attached to it
    fn fund(&mut self, sender: u64, funds: &[Coin]) {
        if !funds.is_empty() {
            let payer = if sender == STUB_A || sender == STUB_B { addr(BANK) } else { self.names.s(sender) };
            let _ = self.app.sudo(SudoMsg::Bank(BankSudo::Mint { to_address: payer, amount: funds.to_vec() }));
        }
    }

    fn set_coll(&mut self, ad: Addr) {
        self.names.coll = Some(ad.to_string());
        self.coll = Some(ad);
    }

    fn instantiate(&mut self, kind: &str, sender: u64, msg: &Value, funds: &[Coin]) -> bool {
        self.fund(sender, funds);
        let code_id = self.codes[kind];
        if sender == STUB_A || sender == STUB_B {
            let stub = self.ad(sender);
            let m = StubExec::Inst { code_id, msg: to_json_binary(msg).unwrap(), admin: Some(addr(ADMIN)), funds: funds.to_vec() };
            match self.app.execute_contract(a(BANK), stub.clone(), &m, funds) {
                Ok(_) => {
                    let last: Option<String> = self.app.wrap().query_wasm_smart(stub, &Empty {}).expect("stub query");
                    self.set_coll(Addr::unchecked(last.expect("stub recorded the instantiated address")));
                    true
                }
                Err(_) => false,
            }
        } else {
            match self.app.instantiate_contract(code_id, self.ad(sender), msg, funds, "collection", Some(addr(ADMIN))) {
                Ok(ad) => {
                    self.set_coll(ad);
                    true
                }
                Err(_) => false,
            }
        }
    }

    fn q(&self, msg: Value) -> Value {
        let c = self.coll.as_ref().unwrap();
        self.app.wrap().query_wasm_smart::<Value>(c.to_string(), &msg).unwrap_or_else(|e| panic!("query {msg} failed: {e}"))
    }

    /// (contract name, version) of the cw2 record, through cw2's own accessor
    fn cw2(&self) -> Option<(String, String)> {
        let c = self.coll.as_ref()?;
        let st = self.app.contract_storage(c);
        cw2::get_contract_version(&*st).ok().map(|v| (v.contract, v.version))
    }

    fn observe(&self) -> Option<Obs> {
        let coll = self.coll.as_ref()?;
        let nm = &self.names;
        let mut o = Obs::default();
        let (cname, cver) = self.cw2().expect("cw2 record");
        o.kind = kind_of_name(&cname);
        o.ver = cver;
        {
            // typed state accessors of the crates (no raw keys): cw_ownable, sg721-base's items, cw721-base's operators map
            let st = self.app.contract_storage(coll);
            let own = cw_ownable::get_ownership(&*st).expect("cw_ownable ownership");
            o.owner = own.owner.as_ref().map(|a| nm.id(a.as_str()));
            o.pending = own.pending_owner.as_ref().map(|a| nm.id(a.as_str()));
            o.pexp = own.pending_expiry.as_ref().map(exp_back);
            let c = sg721_base::Sg721Contract::<cw721_base::Extension>::default();
            o.fz = c.frozen_collection_info.load(&*st).expect("frozen_collection_info");
            o.rua = c.royalty_updated_at.may_load(&*st).expect("royalty_updated_at").map(|t| t.nanos());
            for r in c.parent.operators.range(&*st, None, None, Order::Ascending) {
                let ((ow, op), e) = r.expect("operators entry");
                o.ops.push((nm.id(ow.as_str()), nm.id(op.as_str()), exp_back(&e)));
            }
            o.ops.sort();
        }
        // the two sg721-updatable flags through its queries (they exist only while the contract runs that code)
        if o.kind == "updatable" {
            o.fm = self.q(json!({"freeze_token_metadata": {}}))["frozen"].as_bool().expect("FreezeTokenMetadata query");
            o.ue = self.q(json!({"enable_updatable": {}}))["enabled"].as_bool().expect("EnableUpdatable query");
        }
        let ci = self.q(json!({"collection_info": {}}));
        o.creator = nm.id(ci["creator"].as_str().unwrap());
        o.desc = desc_back(ci["description"].as_str().unwrap());
        o.img = self.url_id(ci["image"].as_str().unwrap());
        o.ext = ci["external_link"].as_str().map(|s| self.url_id(s));
        o.ec = ci["explicit_content"].as_bool();
        o.stt = ci["start_trading_time"].as_str().map(|s| s.parse().unwrap());
        o.roy = if ci["royalty_info"].is_null() {
            None
        } else {
            let sh: Decimal = ci["royalty_info"]["share"].as_str().unwrap().parse().unwrap();
            Some((nm.id(ci["royalty_info"]["payment_address"].as_str().unwrap()), sh.atomics().u128()))
        };
        o.n = self.q(json!({"num_tokens": {}}))["count"].as_u64().unwrap();
        o.minter_q = self.q(json!({"minter": {}}))["minter"].as_str().map(|s| nm.id(s));
        // all tokens, paged until an empty page (whatever the contract's page-size cap is)
        let mut ids: Vec<String> = vec![];
        let mut after: Option<String> = None;
        loop {
            let r = self.q(json!({"all_tokens": {"start_after": after, "limit": 100}}));
            let page: Vec<String> = r["tokens"].as_array().unwrap().iter().map(|x| x.as_str().unwrap().to_string()).collect();
            if page.is_empty() {
                break;
            }
            after = page.last().cloned();
            ids.extend(page);
        }
        for tid in ids {
            let ow = self.q(json!({"owner_of": {"token_id": tid, "include_expired": true}}));
            let ni = self.q(json!({"nft_info": {"token_id": tid}}));
            let mut approvals: Vec<(u64, String)> = ow["approvals"]
                .as_array()
                .unwrap()
                .iter()
                .map(|ap| (nm.id(ap["spender"].as_str().unwrap()), exp_back(&serde_json::from_value::<cw_utils::Expiration>(ap["expires"].clone()).unwrap())))
                .collect();
            approvals.sort();
            let ext = ni["extension"]["name"].as_str().and_then(|s| s.strip_prefix('n')).and_then(|n| n.parse().ok()).unwrap_or(0);
            o.toks.push(Tok {
                id: tid.parse().unwrap_or(999_999),
                owner: nm.id(ow["owner"].as_str().unwrap()),
                uri: ni["token_uri"].as_str().map(uri_back),
                ext,
                approvals,
            });
        }
        o.toks.sort_by_key(|t| t.id);
        Some(o)
    }
}

// ------------------------------------------------------------------------------------------------ message surface (run time)

/// JSON schema of the `ExecuteMsg` enum the entry point of collection `kind` deserialises
fn exec_schema(kind: &str) -> Value {
    use cosmwasm_schema::schema_for;
    let r = match kind {
        "base" => schema_for!(sg721::ExecuteMsg<cw721_base::Extension, Empty>),
        "onchain" => schema_for!(sg721::ExecuteMsg<sg_metadata::Metadata, Empty>),
        "nt" => schema_for!(sg721_nt::msg::ExecuteMsg<cw721_base::Extension>),
        _ => schema_for!(sg721_updatable::msg::ExecuteMsg<cw721_base::Extension, Empty>),
    };
    serde_json::to_value(&r).expect("schema to json")
}

/// (variant name in snake case, schema of its payload; None for a unit variant serialised as a bare string)
fn schema_variants(root: &Value) -> Vec<(String, Option<Value>)> {
    let mut out = vec![];
    let mut alts: Vec<Value> = vec![];
    for k in ["oneOf", "anyOf"] {
        if let Some(a) = root[k].as_array() {
            alts.extend(a.iter().cloned());
        }
    }
    if alts.is_empty() {
        alts.push(root.clone());
    }
    for alt in alts {
        if let Some(en) = alt["enum"].as_array() {
            for e in en {
                if let Some(s) = e.as_str() {
                    out.push((s.to_string(), None));
                }
            }
        } else if let Some(req) = alt["required"].as_array() {
            if let Some(name) = req.first().and_then(|x| x.as_str()) {
                out.push((name.to_string(), Some(alt["properties"][name].clone())));
            }
        }
    }
    out.sort_by(|a, b| a.0.cmp(&b.0));
    out.dedup_by(|a, b| a.0 == b.0);
    out
}

/// minimal JSON value for a schema: token ids = "1" (exists in every scenario that sends raw messages), address-like strings = holder 21,
/// other strings / integers = k, options = null
fn fill(s: &Value, defs: &Value, k: u64, hint: &str, depth: u32) -> Value {
    if depth > 8 {
        return Value::Null;
    }
    if let Some(r) = s["$ref"].as_str() {
        let name = r.rsplit('/').next().unwrap_or("");
        return fill(&defs[name], defs, k, hint, depth + 1);
    }
    if let Some(a) = s["allOf"].as_array() {
        if let Some(f) = a.first() {
            return fill(f, defs, k, hint, depth + 1);
        }
    }
    for key in ["anyOf", "oneOf"] {
        if let Some(a) = s[key].as_array() {
            if a.iter().any(|x| x["type"] == "null") {
                return Value::Null;
            }
            if let Some(f) = a.first() {
                if let Some(req) = f["required"].as_array().and_then(|r| r.first()).and_then(|x| x.as_str()) {
                    let mut m = Map::new();
                    m.insert(req.to_string(), fill(&f["properties"][req], defs, k, req, depth + 1));
                    return Value::Object(m);
                }
                return fill(f, defs, k, hint, depth + 1);
            }
        }
    }
    if let Some(en) = s["enum"].as_array() {
        return en.first().cloned().unwrap_or(Value::Null);
    }
    let ty: String = match &s["type"] {
        Value::String(t) => t.clone(),
        Value::Array(ts) => {
            if ts.iter().any(|t| t == "null") {
                return Value::Null;
            }
            ts.first().and_then(|t| t.as_str()).unwrap_or("").to_string()
        }
        _ => String::new(),
    };
    match ty.as_str() {
        "integer" | "number" => json!(k),
        "string" => {
            let h = hint.to_lowercase();
            if h.contains("token_id") || h == "id" {
                json!("1")
            } else if ["addr", "recipient", "contract", "owner", "sender", "admin", "spender", "operator", "creator", "minter", "to", "new_"].iter().any(|w| h.contains(w)) {
                json!(addr(21))
            } else {
                json!(k.to_string())
            }
        }
        "boolean" => json!(k % 2 == 1),
        "array" => json!([]),
        "object" => {
            let mut m = Map::new();
            if let Some(req) = s["required"].as_array() {
                for r in req.iter().filter_map(|x| x.as_str()) {
                    m.insert(r.to_string(), fill(&s["properties"][r], defs, k, r, depth + 1));
                }
            }
            Value::Object(m)
        }
        _ => Value::Null,
    }
}

/// protocol op(s) of a schema variant this file has a NAMED op for
fn known_variant(name: &str) -> Option<&'static [&'static str]> {
    Some(match name {
        "transfer_nft" => &["transfer"],
        "send_nft" => &["send"],
        "approve" => &["approve"],
        "revoke" => &["revoke"],
        "approve_all" => &["approve_all"],
        "revoke_all" => &["revoke_all"],
        "mint" => &["mint"],
        "burn" => &["burn"],
        "extension" => &["extension"],
        "update_collection_info" => &["uci"],
        "update_start_trading_time" => &["ustt"],
        "freeze_collection_info" => &["freeze"],
        "update_ownership" => &["own_transfer", "own_accept", "own_renounce"],
        "freeze_token_metadata" => &["freeze_meta"],
        "update_token_metadata" => &["utm"],
        "enable_updatable" => &["enable"],
        _ => return None,
    })
}

/// What the harness learned about the four message surfaces at start-up.
#[derive(Clone, Default)]
struct Surface {
    schema: BTreeMap<String, Value>,
    /// per kind: variants the protocol has no name for
    unknown: BTreeMap<String, Vec<String>>,
    /// per kind: name of the field carrying the update in `update_collection_info` (`collection_info` / `new_collection_info`)
    uci_field: BTreeMap<String, String>,
    /// per kind: is `freeze_collection_info` a unit variant (bare JSON string)?
    freeze_unit: BTreeMap<String, bool>,
}
impl Surface {
    fn load() -> Surface {
        let mut s = Surface::default();
        for kind in KINDS {
            let root = exec_schema(kind);
            let vars = schema_variants(&root);
            s.unknown.insert(kind.into(), vars.iter().filter(|(n, _)| known_variant(n).is_none()).map(|(n, _)| n.clone()).collect());
            let uf = vars
                .iter()
                .find(|(n, _)| n == "update_collection_info")
                .and_then(|(_, p)| p.as_ref())
                .and_then(|p| p["required"].as_array().and_then(|r| r.first()).and_then(|x| x.as_str()).map(String::from))
                .unwrap_or_else(|| "collection_info".into());
            s.uci_field.insert(kind.into(), uf);
            s.freeze_unit.insert(kind.into(), vars.iter().any(|(n, p)| n == "freeze_collection_info" && p.is_none()));
            s.schema.insert(kind.into(), root);
        }
        s
    }
    /// raw message for schema variant `name` of collection `kind` (minimal arguments); `{name: {}}` when the kind has no such variant
    fn raw_msg(&self, kind: &str, name: &str, k: u64) -> Value {
        let root = &self.schema[kind];
        match schema_variants(root).into_iter().find(|(n, _)| n == name) {
            Some((n, None)) => Value::String(n),
            Some((n, Some(p))) => {
                let mut m = Map::new();
                m.insert(n.clone(), fill(&p, &root["definitions"], k, &n, 0));
                Value::Object(m)
            }
            None => {
                let mut m = Map::new();
                m.insert(name.to_string(), json!({}));
                Value::Object(m)
            }
        }
    }
}

/// witness fields of a message line that depend on the line alone (`recv=`, `iv=`/`ev=`)
fn line_witness(op: &str, line: &str) -> String {
    match op {
        "send" => {
            let to = kv_u64(line, "to").unwrap();
            let fail = kv_u64(line, "payload").unwrap() == 0;
            format!(" recv={}", ((to == STUB_A || to == STUB_B) && !fail) as u8)
        }
        "uci" => {
            let iv = kv_opt_u64(line, "image").unwrap().map(url_valid).unwrap_or(true);
            let ev = match kv(line, "ext").unwrap() {
                "-" | "none" => true,
                v => url_valid(v.parse().unwrap()),
            };
            format!(" iv={} ev={}", iv as u8, ev as u8)
        }
        "inst" => {
            let iv = url_valid(kv_u64(line, "image").unwrap());
            let ev = kv_opt_u64(line, "ext").unwrap().map(url_valid).unwrap_or(true);
            format!(" iv={} ev={}", iv as u8, ev as u8)
        }
        _ => String::new(),
    }
}

/// JSON of the message for protocol line `line`, as a client of the collection kind `cur_kind` would encode it
fn build_msg(op: &str, line: &str, cur_kind: &str, nm: &Names, sf: &Surface) -> Option<Value> {
    let id = || kv_u64(line, "id").unwrap().to_string();
    let ad = |key: &str| nm.s(kv_u64(line, key).unwrap());
    let msg: Value = match op {
        "transfer" => json!({"transfer_nft": {"recipient": ad("to"), "token_id": id()}}),
        "send" => {
            let fail = kv_u64(line, "payload").unwrap() == 0;
            json!({"send_nft": {"contract": ad("to"), "token_id": id(), "msg": Binary::from(if fail { &b"fail"[..] } else { &b"fine"[..] })}})
        }
        "approve" => json!({"approve": {"spender": ad("sp"), "token_id": id(), "expires": exp_json(kv(line, "exp").unwrap())}}),
        "revoke" => json!({"revoke": {"spender": ad("sp"), "token_id": id()}}),
        "approve_all" => json!({"approve_all": {"operator": ad("op"), "expires": exp_json(kv(line, "exp").unwrap())}}),
        "revoke_all" => json!({"revoke_all": {"operator": ad("op")}}),
        "mint" => {
            let ext = kv_u64(line, "ext").unwrap();
            let extension = if cur_kind == "onchain" {
                if ext > 0 {
                    json!({"name": format!("n{ext}")})
                } else {
                    json!({})
                }
            } else {
                Value::Null
            };
            json!({"mint": {"token_id": id(), "owner": ad("owner"),
                "token_uri": kv_opt_u64(line, "uri").unwrap().map(uri_str), "extension": extension}})
        }
        "burn" => json!({"burn": {"token_id": id()}}),
        "extension" => json!({"extension": {"msg": {}}}),
        "uci" => {
            let ext = match kv(line, "ext").unwrap() {
                "-" | "none" => Value::Null,
                v => json!(url_str(v.parse().unwrap())),
            };
            let roy = match kv(line, "roy").unwrap() {
                "-" | "none" => Value::Null,
                v => {
                    let (p, s) = v.split_once(':').unwrap();
                    json!({"payment_address": nm.s(p.parse().unwrap()), "share": share_str(s.parse().unwrap())})
                }
            };
            let ci = json!({
                "description": opt_s(line, "desc").map(|v| { let (x, y) = v.split_once(':').unwrap(); desc_str(x.parse().unwrap(), y.parse().unwrap()) }),
                "image": kv_opt_u64(line, "image").unwrap().map(url_str),
                "external_link": ext,
                "explicit_content": match kv(line, "ec").unwrap() { "-" => Value::Null, "1" => json!(true), _ => json!(false) },
                "royalty_info": roy,
                "creator": kv_opt_u64(line, "creator").unwrap().map(|c| nm.s(c)),
            });
            // the field is `new_collection_info` in sg721-nt's enum, `collection_info` elsewhere (read from the schema)
            let mut inner = Map::new();
            inner.insert(sf.uci_field.get(cur_kind).cloned().unwrap_or_else(|| "collection_info".into()), ci);
            json!({"update_collection_info": Value::Object(inner)})
        }
        "ustt" => json!({"update_start_trading_time": kv_opt_u64(line, "t").unwrap().map(|t| t.to_string())}),
        // `FreezeCollectionInfo` is a unit variant in sg721::ExecuteMsg, a struct variant in the nt/updatable enums (read from the schema)
        "freeze" => {
            if sf.freeze_unit.get(cur_kind).copied().unwrap_or(false) {
                json!("freeze_collection_info")
            } else {
                json!({"freeze_collection_info": {}})
            }
        }
        "own_transfer" => json!({"update_ownership": {"transfer_ownership": {"new_owner": ad("to"), "expiry": exp_json(kv(line, "exp").unwrap())}}}),
        "own_accept" => json!({"update_ownership": "accept_ownership"}),
        "own_renounce" => json!({"update_ownership": "renounce_ownership"}),
        "freeze_meta" => json!({"freeze_token_metadata": {}}),
        "utm" => json!({"update_token_metadata": {"token_id": id(), "token_uri": kv_opt_u64(line, "uri").unwrap().map(uri_str)}}),
        "enable" => json!({"enable_updatable": {}}),
        "raw" => sf.raw_msg(cur_kind, kv(line, "v").unwrap_or("?"), kv_u64(line, "k").unwrap_or(1)),
        _ => return None,
    };
    Some(msg)
}

/// One sample protocol line per message kind of the protocol.
const SAMPLES: [&str; 18] = [
    "transfer s=20 funds=- to=21 id=1",
    "send s=20 funds=- to=1001 id=1 payload=1",
    "approve s=20 funds=- sp=22 id=1 exp=h5",
    "revoke s=20 funds=- sp=22 id=1",
    "approve_all s=20 funds=- op=22 exp=t7",
    "revoke_all s=20 funds=- op=22",
    "mint s=1000 funds=- id=1 owner=20 uri=3 ext=2",
    "burn s=20 funds=- id=1",
    "extension s=20 funds=-",
    "uci s=10 funds=- direct=0 desc=1:10 image=0 ext=1 ec=1 roy=40:5 creator=11",
    "ustt s=1000 funds=- t=5",
    "freeze s=10 funds=-",
    "own_transfer s=1000 funds=- to=20 exp=n",
    "own_accept s=20 funds=-",
    "own_renounce s=1000 funds=-",
    "freeze_meta s=10 funds=-",
    "utm s=10 funds=- id=1 uri=4",
    "enable s=10 funds=-",
];

/// does the contract's own deserialiser accept these bytes as an `ExecuteMsg` of collection `kind`?
fn decodes(kind: &str, bytes: &[u8]) -> bool {
    match kind {
        "base" => cosmwasm_std::from_json::<sg721::ExecuteMsg<cw721_base::Extension, Empty>>(bytes).is_ok(),
        "onchain" => cosmwasm_std::from_json::<sg721::ExecuteMsg<sg_metadata::Metadata, Empty>>(bytes).is_ok(),
        "nt" => cosmwasm_std::from_json::<sg721_nt::msg::ExecuteMsg<cw721_base::Extension>>(bytes).is_ok(),
        _ => cosmwasm_std::from_json::<sg721_updatable::msg::ExecuteMsg<cw721_base::Extension, Empty>>(bytes).is_ok(),
    }
}

/// The message surface the model assumes (`LP.Sg721.supported`) against the real enums, at RUN TIME: the variants are
/// enumerated from the JSON schemas, every sample line is encoded as the harness encodes it and probed with the
/// contract's own deserialiser. Differences are REPORTED (note + class), never asserted: the generators send every
/// message kind to every collection anyway, so a variant the model does not expect is exercised under the monitors and
/// yields a replay (e.g. a `transfer_nft` added to sg721-nt ⇒ `sg721-nt/transfer/owner-changed`); variants the protocol
/// has no name for are sent as `raw v=<name>` lines.
fn surface_check(ses: &mut Session, sf: &Surface) {
    let model_supported = |kind: &str, op: &str| -> bool {
        match kind {
            "nt" => matches!(op, "mint" | "burn" | "uci" | "freeze"),
            "updatable" => !op.starts_with("own_"),
            _ => !matches!(op, "freeze_meta" | "utm" | "enable"),
        }
    };
    let nm = Names { sa: addr(STUB_A), sb: addr(STUB_B), coll: None };
    for kind in KINDS {
        for line in SAMPLES {
            let op = line.split_whitespace().next().unwrap();
            let msg = build_msg(op, line, kind, &nm, sf).unwrap();
            let dec = decodes(kind, &serde_json::to_vec(&msg).unwrap());
            ses.mark(format!("surface:{kind}:{op}:{dec}"));
            if dec != model_supported(kind, op) {
                ses.mark(format!("surface-differs:{kind}:{op}:{dec}"));
                ses.note(format!("MESSAGE SURFACE of sg721-{kind} differs from the model: `{op}` decodes={dec}, model expects {} (json {msg}); the generators exercise it under the monitors", !dec));
            }
        }
        let names: Vec<String> = schema_variants(&sf.schema[kind]).into_iter().map(|(n, _)| n).collect();
        ses.mark(format!("surface:{kind}:variants:{}", names.len()));
        for u in &sf.unknown[kind] {
            ses.mark(format!("surface-unknown:{kind}:{u}"));
            ses.note(format!("UNKNOWN ExecuteMsg variant `{u}` in sg721-{kind} (schema): sent as raw JSON {} under the monitors; the model answers err/unchanged", sf.raw_msg(kind, u, 1)));
        }
    }
}

// ------------------------------------------------------------------------------------------------ Sut

#[derive(Clone, Debug, Default)]
struct Last {
    line: String,
    op: String,
    ok: bool,
    before: Option<Obs>,
    after: Option<Obs>,
    /// block (height, time) the line ran in
    blk: (u64, u64),
}

/// What the harness knows about the collection from the messages IT sent and which of them were accepted — never from
/// the contract's answers. The monitors compare the contract's answers against this.
#[derive(Clone, Debug, Default)]
struct Ghost {
    live: bool,
    /// the minter: named by the instantiate message; changes only by an accepted AcceptOwnership of the address the
    /// minter itself proposed (not expired per the proposal's own expiry), or an accepted RenounceOwnership by the minter
    minter: Option<u64>,
    /// (proposed new minter, expiry in protocol notation) of the minter's last accepted TransferOwnership
    pending: Option<(u64, String)>,
    /// the creator: named by the instantiate message; changes only by the creator's accepted UpdateCollectionInfo
    creator: u64,
    /// creator-editable fields as they were when the creator's FreezeCollectionInfo was accepted
    frozen_info: Option<Editable>,
    /// the creator's FreezeTokenMetadata was accepted
    meta_frozen: bool,
    /// ids alive = accepted mints minus accepted burns, with the address each was minted to
    minted: BTreeMap<u64, u64>,
    /// literal reading (`case … literal=1` only): URI per id at the moment of the metadata freeze
    frozen_uris: BTreeMap<u64, Option<u64>>,
}

struct S {
    kind: String,
    literal: bool,
    w: World,
    sf: Surface,
    /// lines executed so far in this case without panicking (for rebuilding the world after a contract panic)
    log: Vec<String>,
    cur: Option<Obs>,
    last: Option<Last>,
    blk: (u64, u64),
    g: Ghost,
    /// this case saw an ACCEPTED migration of a collection in the faithful pre-3.1.0 layout (no `royalty_updated_at`)
    old_layout_migrated: bool,
    panics: u64,
}

fn funds_of(line: &str) -> Vec<Coin> {
    coins_of(&kv_pairs(line, "funds").unwrap_or_default())
}
fn opt_s(line: &str, key: &str) -> Option<String> {
    let v = kv(line, key)?;
    if v == "-" {
        None
    } else {
        Some(v.to_string())
    }
}
fn parse_ver(s: &str) -> Option<(u64, u64, u64)> {
    let p: Vec<&str> = s.split('.').collect();
    if p.len() != 3 {
        return None;
    }
    Some((p[0].parse().ok()?, p[1].parse().ok()?, p[2].parse().ok()?))
}

impl S {
    fn new(sf: Surface) -> S {
        S { kind: "base".into(), literal: false, w: World::new(), sf, log: vec![], cur: None, last: None, blk: (1, 1), g: Ghost::default(), old_layout_migrated: false, panics: 0 }
    }

    fn info_json(&self, line: &str, with_stt: bool) -> Value {
        let nm = &self.w.names;
        let (did, dlen) = kv(line, "desc").and_then(|v| v.split_once(':')).map(|(x, y)| (x.parse::<u64>().unwrap(), y.parse::<u64>().unwrap())).unwrap();
        let img = kv_u64(line, "image").unwrap();
        let ext = kv_opt_u64(line, "ext").unwrap();
        let ec = match kv(line, "ec").unwrap() {
            "-" => Value::Null,
            "1" => json!(true),
            _ => json!(false),
        };
        let roy = match opt_s(line, "roy") {
            None => Value::Null,
            Some(v) => {
                let (p, s) = v.split_once(':').unwrap();
                json!({"payment_address": nm.s(p.parse().unwrap()), "share": share_str(s.parse().unwrap())})
            }
        };
        let mut j = json!({
            "creator": nm.s(kv_u64(line, "creator").unwrap()),
            "description": desc_str(did, dlen),
            "image": url_str(img),
            "external_link": ext.map(url_str),
            "explicit_content": ec,
            "royalty_info": roy,
        });
        if with_stt {
            j["start_trading_time"] = match kv_opt_u64(line, "stt").unwrap() {
                Some(t) => json!(t.to_string()),
                None => Value::Null,
            };
        }
        j
    }

    /// the code the contract runs NOW (a migrated sg721-base is an sg721-updatable)
    fn cur_kind(&self) -> String {
        self.cur.as_ref().map(|o| o.kind.clone()).unwrap_or(self.kind.clone())
    }

    /// execute one line on the real contracts; `None` = not an executable op
    fn run_line(&mut self, line: &str) -> Option<bool> {
        let op = line.split_whitespace().next().unwrap_or("");
        match op {
            "block" => {
                self.blk = (kv_u64(line, "h").unwrap(), kv_u64(line, "t").unwrap());
                self.w.set_block(self.blk.0, self.blk.1);
                None
            }
            "inst" => {
                let ci = self.info_json(line, true);
                let msg = json!({"name": "Collection", "symbol": "COL", "minter": self.w.names.s(kv_u64(line, "minter").unwrap()), "collection_info": ci});
                let kind = self.kind.clone();
                Some(self.w.instantiate(&kind, kv_u64(line, "s").unwrap(), &msg, &funds_of(line)))
            }
            "migrate" => {
                let to = kv(line, "to").unwrap_or("updatable").to_string();
                let code = self.w.codes.get(to.as_str()).copied()?;
                let cur = self.cur_kind();
                let Some(c) = self.w.coll.clone() else { return Some(false) };
                // scope: pointing a collection at the metadata-onchain / nt code is only done for a collection OF that kind
                if (to == "onchain" || to == "nt") && cur != to {
                    return Some(false);
                }
                Some(self.w.app.migrate_contract(a(ADMIN), c, &Empty {}, code).is_ok())
            }
            "setver" => {
                let v = kv(line, "v")?;
                parse_ver(v)?;
                let Some(c) = self.w.coll.clone() else { return Some(false) };
                let (name, _) = self.w.cw2().expect("cw2 record");
                let mut st = self.w.app.contract_storage_mut(&c);
                cw2::set_contract_version(&mut *st, name, v).expect("set cw2 version");
                if kv(line, "drop") == Some("1") {
                    // faithful layout of a release below 3.1.0: the item `upgrades::v3_1_0` creates does not exist yet
                    sg721_base::Sg721Contract::<cw721_base::Extension>::default().royalty_updated_at.remove(&mut *st);
                }
                Some(true)
            }
            _ => self.run_msg(op, line),
        }
    }

    fn run_msg(&mut self, op: &str, line: &str) -> Option<bool> {
        let sender = kv_u64(line, "s")?;
        let funds = funds_of(line);
        let msg = build_msg(op, line, &self.cur_kind(), &self.w.names, &self.sf)?;
        let Some(coll) = self.w.coll.clone() else {
            return Some(false); // no collection yet: nothing to call
        };
        if op == "uci" && kv_bool(line, "direct").unwrap_or(false) {
            return Some(self.uci_direct(line, &coll, sender, funds));
        }
        Some(self.w.send(sender, &coll, &msg, &funds))
    }

    fn uci_typed(&self, line: &str, with_royalty: bool) -> sg721::UpdateCollectionInfoMsg<sg721::RoyaltyInfoResponse> {
        use sg721::{RoyaltyInfoResponse, UpdateCollectionInfoMsg};
        let nm = &self.w.names;
        let ext = match kv(line, "ext").unwrap() {
            "-" => None,
            "none" => Some(None),
            v => Some(Some(url_str(v.parse().unwrap()))),
        };
        let roy = match kv(line, "roy").unwrap() {
            _ if !with_royalty => None,
            "-" => None,
            "none" => Some(None),
            v => {
                let (p, s) = v.split_once(':').unwrap();
                Some(Some(RoyaltyInfoResponse { payment_address: nm.s(p.parse().unwrap()), share: Decimal::new(Uint128::new(s.parse().unwrap())) }))
            }
        };
        UpdateCollectionInfoMsg {
            description: opt_s(line, "desc").map(|v| {
                let (x, y) = v.split_once(':').unwrap();
                desc_str(x.parse().unwrap(), y.parse().unwrap())
            }),
            image: kv_opt_u64(line, "image").unwrap().map(url_str),
            external_link: ext,
            explicit_content: match kv(line, "ec").unwrap() {
                "-" => None,
                "1" => Some(true),
                _ => Some(false),
            },
            royalty_info: roy,
            creator: kv_opt_u64(line, "creator").unwrap().map(|c| nm.s(c)),
        }
    }

    /// typed call of `Sg721Contract::update_collection_info` on the collection's storage: the only way to reach
    /// `Some(None)` for `external_link` / `royalty_info` (JSON `null` deserialises to the outer `None`).
    fn uci_direct(&mut self, line: &str, coll: &Addr, sender: u64, funds: Vec<Coin>) -> bool {
        let msg = self.uci_typed(line, true);
        let block = self.w.app.block_info();
        let env = Env { block, transaction: None, contract: ContractInfo { address: coll.clone() } };
        let api = MockApi::default();
        let mq: MockQuerier<Empty> = MockQuerier::default();
        let who = self.w.ad(sender);
        let mut st = self.w.app.contract_storage_mut(coll);
        let deps = DepsMut { storage: &mut *st, api: &api, querier: QuerierWrapper::new(&mq) };
        sg721_base::Sg721Contract::<cw721_base::Extension>::default().update_collection_info(deps, env, MessageInfo { sender: who, funds }, msg).is_ok()
    }

    /// Would the same update WITHOUT its royalty part be accepted? Run on a scratch copy of the contract's storage.
    /// Used only to attribute a refused update to the royalty rules (C10's) — the `racc` witness / drift field.
    fn probe_uci_without_royalty(&self, line: &str) -> bool {
        let Some(coll) = self.w.coll.clone() else { return false };
        let Some(sender) = kv_u64(line, "s") else { return false };
        let mut ms = MockStorage::new();
        for (k, v) in self.w.app.dump_wasm_raw(&coll) {
            ms.set(&k, &v);
        }
        let msg = self.uci_typed(line, false);
        let env = Env { block: self.w.app.block_info(), transaction: None, contract: ContractInfo { address: coll } };
        let api = MockApi::default();
        let mq: MockQuerier<Empty> = MockQuerier::default();
        let who = self.w.ad(sender);
        catch(move || {
            let deps = DepsMut { storage: &mut ms, api: &api, querier: QuerierWrapper::new(&mq) };
            sg721_base::Sg721Contract::<cw721_base::Extension>::default().update_collection_info(deps, env, MessageInfo { sender: who, funds: vec![] }, msg).is_ok()
        })
        .unwrap_or(false)
    }

    fn rebuild(&mut self) {
        let log = std::mem::take(&mut self.log);
        self.w = World::new();
        self.cur = None;
        self.blk = (1, 1);
        for l in &log {
            let _ = catch(|| self.run_line(l));
            self.cur = self.w.observe(); // message encodings depend on the code the contract currently runs
        }
        self.log = log;
    }

    /// coverage classes of the line just executed (what kind of accept/refusal it was), for the coverage floor
    fn req_classes(&self) -> Vec<String> {
        let mut out = vec![];
        let Some(l) = &self.last else { return out };
        let (Some(b), Some(a)) = (&l.before, &l.after) else { return out };
        let line = &l.line;
        let s = kv_u64(line, "s");
        let k = &b.kind;
        let mut m = |c: &str| out.push(format!("req:{k}:{c}"));
        let id = kv_u64(line, "id");
        let tok_b = id.and_then(|i| b.tok(i));
        match (l.op.as_str(), l.ok) {
            ("mint", true) => m("mint-ok"),
            ("mint", false) if s != b.owner && tok_b.is_none() && kv_u64(line, "owner").map(|o| o < 900).unwrap_or(false) => m("mint-non-minter-rejected"),
            ("mint", false) if s == b.owner && s.is_some() && tok_b.is_some() => m("mint-dup-rejected"),
            ("burn", true) => m("burn-ok"),
            ("burn", false) if tok_b.is_some() && tok_b.map(|t| t.owner) != s => m("burn-non-owner-rejected"),
            ("transfer", true) => m("transfer-ok"),
            ("transfer", false) if tok_b.map(|t| t.owner) == s && s.is_some() => m("transfer-by-owner-rejected"),
            ("freeze", true) => m("freeze-ok"),
            ("freeze", false) if s != Some(b.creator) => m("freeze-non-creator-rejected"),
            ("uci", true) => m("uci-ok"),
            ("uci", false) if b.fz && s == Some(b.creator) => {
                m("uci-after-freeze-rejected");
                if self.old_layout_migrated {
                    m("uci-rejected-after-old-layout-migrate");
                }
            }
            ("uci", false) if !b.fz && s != Some(b.creator) => m("uci-non-creator-rejected"),
            ("own_transfer", true) => m("handover-proposed"),
            ("own_accept", true) => m("handover-accepted"),
            ("own_accept", false) if s.is_some() && s == b.pending => m("accept-expired-rejected"),
            ("own_accept", false) if b.pending.is_some() && s != b.pending => m("accept-not-proposed-rejected"),
            ("own_renounce", true) => m("renounce-ok"),
            ("utm", true) => m("utm-ok"),
            ("utm", false) if b.fm && s == Some(b.creator) && tok_b.is_some() => {
                m("utm-after-freeze-rejected");
                if self.old_layout_migrated {
                    m("utm-rejected-after-old-layout-migrate");
                }
            }
            ("utm", false) if !b.fm && b.ue && s != Some(b.creator) && tok_b.is_some() => m("utm-non-creator-rejected"),
            ("freeze_meta", true) => m("freeze-meta-ok"),
            ("migrate", true) => {
                m("migrate-ok");
                if b.fm {
                    m("migrate-ok-with-frozen-metadata");
                }
                if b.fz {
                    m("migrate-ok-with-frozen-info");
                }
                if b.rua.is_none() {
                    m("migrate-ok-old-layout");
                    if b.fz {
                        m("migrate-ok-old-layout-frozen-info");
                    }
                    if b.fm {
                        m("migrate-ok-old-layout-frozen-metadata");
                    }
                }
                if parse_ver(&b.ver).map(|v| v < (3, 1, 0)).unwrap_or(false) {
                    m("migrate-ok-from-below-3.1.0");
                }
                if b.ver != a.ver && a.kind == *k {
                    m("migrate-upgrade-ok");
                }
            }
            ("migrate", false) => m("migrate-rejected"),
            ("raw", _) => m("raw"),
            _ => {}
        }
        if a.toks.len() > 100 {
            m("more-than-100-tokens");
        }
        out
    }
}

impl Sut for S {
    fn begin(&mut self, header: &str) -> (String, String) {
        self.kind = kv(header, "kind").unwrap_or("base").to_string();
        self.literal = kv(header, "literal") == Some("1");
        self.w = World::new();
        self.log.clear();
        self.cur = None;
        self.last = None;
        self.blk = (1, 1);
        self.g = Ghost::default();
        self.old_layout_migrated = false;
        (header.to_string(), "case".to_string())
    }

    fn exec(&mut self, line: &str) -> (String, String) {
        let op = line.split_whitespace().next().unwrap_or("").to_string();
        let before = self.cur.clone();
        let r = catch(|| self.run_line(line));
        let ok = match r {
            Ok(x) => {
                self.log.push(line.to_string());
                x
            }
            Err(_) => {
                // contract panicked (`todo!()` in Extension, `Timestamp::minus_seconds` underflow in a migration): on chain that is
                // a failed transaction; cw-multi-test's state may be half-written, so the world is rebuilt from the log
                self.panics += 1;
                self.rebuild();
                Some(false)
            }
        };
        // witnesses that depend on the line alone are computed from the line (also after a panic)
        let mut model_line = format!("{line}{}", if ok.is_some() { line_witness(&op, line) } else { String::new() });
        let Some(ok) = ok else {
            self.last = None;
            return (model_line, if op == "block" { "blk".into() } else { "bad-op".into() });
        };
        // royalty rules (C10's): witness for the model + the implementation's verdict for the drift part
        let mut racc_obs = "-";
        if op == "uci" {
            let has_roy = !matches!(kv(line, "roy"), Some("-") | Some("none") | None);
            let mut racc_w = 1;
            if has_roy && self.w.coll.is_some() {
                if ok {
                    racc_obs = "1";
                } else if self.probe_uci_without_royalty(line) {
                    racc_w = 0;
                    racc_obs = "0";
                }
            }
            model_line.push_str(&format!(" racc={racc_w}"));
        }
        let after = self.w.observe();
        if op == "migrate" && ok && before.as_ref().map(|b| b.rua.is_none()).unwrap_or(false) {
            self.old_layout_migrated = true;
        }
        self.cur = after.clone();
        self.last = Some(Last { line: line.to_string(), op, ok, before, after: after.clone(), blk: self.blk });
        let res = if ok { "ok" } else { "err" };
        let out = if self.last.as_ref().map(|l| l.op == "raw").unwrap_or(false) {
            // an unknown variant: whether the call itself succeeds is outside the projection; what it does to the state is not
            format!("raw {}", after.map(|o| format!("{} res={res}", o.render(racc_obs))).unwrap_or("-".into()))
        } else {
            format!("{res} {}", after.map(|o| o.render(racc_obs)).unwrap_or("-".into()))
        };
        (model_line, out)
    }

    /// Direct transcription of the property: the contract's answers (queries / typed state) after each call are compared
    /// with the harness's own bookkeeping of what it sent and what was accepted (`Ghost`) — independent of the Lean model
    /// and not derived from the answers a bug would corrupt.
    fn monitor(&mut self) -> Option<(String, String)> {
        let l = self.last.clone()?;
        let after = l.after.as_ref()?;
        let kind = after.kind.clone();
        let line = &l.line;
        let bad = |p: &str, w: String| Some((format!("sg721-{kind}/{}/{p}", l.op), format!("{w} on `{line}`")));
        let sender = kv_u64(line, "s");
        // token count always equals the number of existing tokens
        if after.n != after.toks.len() as u64 {
            return bad("count", format!("NumTokens={} but AllTokens has {}", after.n, after.toks.len()));
        }
        let ids_after: BTreeSet<u64> = after.toks.iter().map(|t| t.id).collect();
        if ids_after.len() != after.toks.len() {
            return bad("duplicate-id", "AllTokens lists an id twice".into());
        }
        if l.op == "inst" {
            if l.ok {
                if !after.toks.is_empty() {
                    return bad("token-created", "fresh collection already has tokens".into());
                }
                self.g = Ghost { live: true, minter: kv_u64(line, "minter"), creator: kv_u64(line, "creator").unwrap_or(u64::MAX), ..Ghost::default() };
                if after.minter_q != self.g.minter {
                    return bad("minter-changed", format!("the fresh collection's minter is {:?}, the instantiate message named {:?}", after.minter_q, self.g.minter));
                }
            }
            return None;
        }
        if !self.g.live {
            return None;
        }
        let Some(before) = l.before.as_ref() else { return None };
        // a failed call changes nothing
        if !l.ok && before != after {
            return bad("failed-call-changed-state", format!("before `{}` after `{}`", before.render("-"), after.render("-")));
        }
        let id = kv_u64(line, "id");

        // ---- a token can be created only by the minter, never with an id that already exists
        let ids_before: BTreeSet<u64> = before.toks.iter().map(|t| t.id).collect();
        let created: Vec<u64> = ids_after.difference(&ids_before).cloned().collect();
        if !created.is_empty() && !(l.op == "mint" && l.ok && created == vec![id.unwrap_or(u64::MAX)]) {
            return bad("token-created", format!("tokens {:?} appeared without a mint of exactly that id", created));
        }
        if l.op == "mint" && l.ok {
            let id = id.unwrap();
            if self.g.minter.is_none() || self.g.minter != sender {
                return bad("non-minter", format!("mint succeeded for sender {:?} while the minter (per the accepted ownership messages) was {:?}", sender, self.g.minter));
            }
            if self.g.minted.contains_key(&id) || ids_before.contains(&id) {
                return bad("duplicate-id", format!("mint of existing id {id} succeeded"));
            }
            if !ids_after.contains(&id) {
                return bad("mint-lost", format!("mint of {id} succeeded but the token does not exist"));
            }
            self.g.minted.insert(id, kv_u64(line, "owner").unwrap_or(u64::MAX));
        }
        if l.op == "burn" && l.ok {
            let id = id.unwrap();
            // non-transferable collection: only the address the token was minted to can burn it
            if before.kind == "nt" && self.g.minted.get(&id).copied() != sender {
                return bad("burn-by-non-owner", format!("token {id} (minted to {:?}) burned by {:?}", self.g.minted.get(&id), sender));
            }
            self.g.minted.remove(&id);
        }
        if let Some(x) = ids_after.iter().find(|i| !self.g.minted.contains_key(i)) {
            return bad("token-created", format!("token {x} exists although no accepted mint of it is outstanding"));
        }
        if after.n != self.g.minted.len() as u64 {
            return bad("count", format!("NumTokens={} but accepted mints minus accepted burns = {}", after.n, self.g.minted.len()));
        }

        // ---- who is the minter (cw_ownable owner): only accept-of-a-proposal-by-the-minter / renounce-by-the-minter change it
        match (l.op.as_str(), l.ok) {
            ("own_transfer", true) => {
                if self.g.minter.is_none() || self.g.minter != sender {
                    return bad("transfer-by-non-minter", format!("TransferOwnership by {:?} accepted while the minter was {:?}", sender, self.g.minter));
                }
                self.g.pending = Some((kv_u64(line, "to").unwrap_or(u64::MAX), kv(line, "exp").unwrap_or("-").to_string()));
            }
            ("own_accept", true) => match self.g.pending.clone() {
                Some((p, e)) if Some(p) == sender && !exp_expired(&e, l.blk.0, l.blk.1) => {
                    self.g.minter = sender;
                    self.g.pending = None;
                }
                other => {
                    return bad("accept-not-proposed", format!("AcceptOwnership by {:?} accepted in block {:?} while the minter's outstanding proposal was {:?}", sender, l.blk, other));
                }
            },
            ("own_renounce", true) => {
                if self.g.minter.is_none() || self.g.minter != sender {
                    return bad("renounce-by-non-minter", format!("RenounceOwnership by {:?} accepted while the minter was {:?}", sender, self.g.minter));
                }
                self.g.minter = None;
                self.g.pending = None;
            }
            _ => {}
        }
        if after.minter_q != self.g.minter {
            return bad("minter-changed", format!("Minter{{}} answers {:?}, but per the accepted ownership messages the minter is {:?}", after.minter_q, self.g.minter));
        }

        // ---- once the creator froze collection info no later call changes any creator-editable field
        if self.g.frozen_info.is_some() && !after.fz {
            return bad("unfrozen", "frozen_collection_info is false after an accepted FreezeCollectionInfo".into());
        }
        if let Some(snap) = &self.g.frozen_info {
            if &after.editable() != snap {
                return bad("frozen-info-changed", format!("creator-editable fields changed after the freeze: {:?} -> {:?}", snap, after.editable()));
            }
        }
        if l.op == "freeze" && l.ok {
            if Some(self.g.creator) != sender {
                return bad("non-creator", "FreezeCollectionInfo by a non-creator succeeded".into());
            }
            if !after.fz {
                return bad("not-frozen", "FreezeCollectionInfo succeeded but the flag is false".into());
            }
            if self.g.frozen_info.is_none() {
                self.g.frozen_info = Some(after.editable());
            }
        }
        if l.op == "uci" && l.ok {
            if self.g.frozen_info.is_some() || Some(self.g.creator) != sender {
                return bad("guard", "UpdateCollectionInfo succeeded while frozen or from a non-creator".into());
            }
            if let Some(Some(c)) = kv_opt_u64(line, "creator") {
                self.g.creator = c;
            }
        }
        if before.editable() != after.editable() && !(l.op == "uci" && l.ok) {
            return bad("info-changed", format!("creator-editable fields changed without an accepted UpdateCollectionInfo: {:?} -> {:?}", before.editable(), after.editable()));
        }
        if after.creator != self.g.creator {
            return bad("creator-changed", format!("CollectionInfo.creator is {}, but per the accepted messages the creator is {}", after.creator, self.g.creator));
        }

        // ---- token metadata: updates need the creator and an existing token; after the freeze no URI changes again
        let mut uri_changed: Vec<u64> = vec![];
        for t in &before.toks {
            if let Some(t2) = after.tok(t.id) {
                if t2.uri != t.uri {
                    uri_changed.push(t.id);
                }
            }
        }
        if self.g.meta_frozen && !after.fm {
            return bad("meta-unfrozen", "frozen_token_metadata is false after an accepted FreezeTokenMetadata".into());
        }
        if self.g.meta_frozen && (!uri_changed.is_empty() || (l.op == "utm" && l.ok)) {
            return bad("frozen-uri-changed", format!("token URIs {:?} changed / update accepted after FreezeTokenMetadata", uri_changed));
        }
        if l.op == "freeze_meta" && l.ok {
            if Some(self.g.creator) != sender {
                return bad("non-creator", "FreezeTokenMetadata by a non-creator succeeded".into());
            }
            if !after.fm {
                return bad("meta-not-frozen", "FreezeTokenMetadata succeeded but the flag is false".into());
            }
            if !self.g.meta_frozen && self.literal {
                self.g.frozen_uris = after.toks.iter().map(|t| (t.id, t.uri)).collect();
            }
            self.g.meta_frozen = true;
        }
        if l.op == "utm" && l.ok {
            let id = id.unwrap();
            if Some(self.g.creator) != sender || !self.g.minted.contains_key(&id) || before.kind != "updatable" {
                return bad("guard", "UpdateTokenMetadata succeeded for a non-creator / missing token / non-updatable collection".into());
            }
        }
        if !uri_changed.is_empty() && !(l.op == "utm" && l.ok && uri_changed == vec![id.unwrap_or(u64::MAX)]) {
            return bad("uri-changed", format!("URIs of {:?} changed without an UpdateTokenMetadata of that token", uri_changed));
        }
        // LITERAL reading of "no token URI changes again" (only in cases whose header says literal=1; see docs/C09.md):
        // what NftInfo answers for an id that existed at the freeze never changes, burn + re-mint included
        if self.literal {
            for (tid, uri) in &self.g.frozen_uris {
                if let Some(t) = after.tok(*tid) {
                    if t.uri != *uri {
                        return bad("frozen-uri-changed-literal", format!("NftInfo({tid}).token_uri was {:?} at the metadata freeze and is {:?} now", uri, t.uri));
                    }
                }
            }
        }

        // ---- non-transferable collection: between mint and burn the owner is the address the token was minted to
        if kind == "nt" {
            for t in &after.toks {
                if let Some(o) = self.g.minted.get(&t.id) {
                    if *o != t.owner {
                        return bad("owner-changed", format!("token {} was minted to {} and is now owned by {}", t.id, o, t.owner));
                    }
                }
            }
        }
        None
    }
}
// ------------------------------------------------------------------------------------------------ generators

struct G {
    rng: Rng,
    h: u64,
    t: u64,
    sf: Surface,
}

/// stored versions worth trying: around the inline 3.0.0 / 3.1.0 thresholds, the earliest compatible version, older / newer
const VERSIONS: [&str; 10] = ["3.15.0", "3.1.0", "3.0.9", "3.0.5", "3.0.0", "2.9.9", "0.16.0", "0.15.9", "99.0.0", "3.1.1"];

fn parse_exp(e: &str) -> Option<(char, u64)> {
    if e == "n" {
        None
    } else {
        Some((e.chars().next().unwrap(), e[1..].parse().unwrap()))
    }
}

impl G {
    fn any_sender(&mut self) -> u64 {
        let all = [10, 11, 20, 21, 22, 23, 30, 40, 50, STUB_A, STUB_B];
        *self.rng.pick(&all)
    }
    fn any_target(&mut self, o: Option<&Obs>) -> u64 {
        let _ = o;
        match self.rng.below(12) {
            0 => *self.rng.pick(&INVALID),
            1 => STUB_A,
            2 => STUB_B,
            3 => COLL, // the collection itself
            4 => 10,
            _ => *self.rng.pick(&HOLDERS),
        }
    }
    fn funds(&mut self) -> String {
        match self.rng.below(12) {
            0 => "0:5".into(),
            1 => "1:7".into(),
            _ => "-".into(),
        }
    }
    fn exp(&mut self) -> String {
        match self.rng.below(10) {
            0 | 1 => "-".into(),
            2 => "n".into(),
            3 => format!("h{}", self.h),
            4 => format!("h{}", self.h + 1),
            5 => format!("h{}", self.h + self.rng.range(2, 6)),
            6 => format!("t{}", self.t),
            7 => format!("t{}", self.t + 1),
            8 => format!("t{}", self.t + self.rng.range(2, 5) * 1_000_000_000),
            _ => format!("h{}", self.h.saturating_sub(1)),
        }
    }
    fn token_id(&mut self, o: &Obs, want_existing: bool) -> u64 {
        if want_existing && !o.toks.is_empty() {
            let i = self.rng.below(o.toks.len() as u64) as usize;
            o.toks[i].id
        } else {
            let free: Vec<u64> = (1..=9).filter(|i| o.tok(*i).is_none()).collect();
            if free.is_empty() || self.rng.chance(1, 10) {
                self.rng.range(1, 12)
            } else {
                *self.rng.pick(&free)
            }
        }
    }
    /// somebody who may move token `t`: owner, an approved spender, an operator of the owner
    fn mover(&mut self, o: &Obs, t: &Tok) -> (u64, &'static str) {
        let mut c: Vec<(u64, &'static str)> = vec![(t.owner, "owner"), (t.owner, "owner")];
        for (s, _) in &t.approvals {
            c.push((*s, "approved"));
        }
        for (ow, op, _) in &o.ops {
            if *ow == t.owner {
                c.push((*op, "operator"));
            }
        }
        *self.rng.pick(&c)
    }
    fn share(&mut self, o: &Obs) -> u128 {
        let p = 10u128.pow(16);
        let old = o.roy.map(|r| r.1).unwrap_or(0);
        let c = [
            old,
            old + 2 * p,
            old + 2 * p + 1,
            (old + 2 * p).saturating_sub(1),
            old.saturating_sub(p),
            10 * p,
            10 * p + 1,
            10 * p - 1,
            100 * p,
            100 * p + 1,
            0,
            old + p,
            self.rng.below(12) as u128 * p,
        ];
        *self.rng.pick(&c)
    }
    fn desc(&mut self) -> String {
        let len = match self.rng.below(10) {
            0 => 512,
            1 => 513,
            2 => 511,
            3 => 0,
            4 => 5,
            5 => 518,
            6 => 514,
            _ => self.rng.range(6, 80),
        };
        let id = if len < 6 { 0 } else { self.rng.range(1, 50) };
        format!("{id}:{len}")
    }
    fn url(&mut self, mostly_valid: bool) -> u64 {
        let valid = [0u64, 1, 5, 6, 7, 11, 12];
        let invalid = [2u64, 3, 4, 8, 9, 10];
        if mostly_valid && !self.rng.chance(1, 8) {
            *self.rng.pick(&valid)
        } else {
            *self.rng.pick(&invalid)
        }
    }

    fn inst_line(&mut self, fault: bool) -> String {
        let mut s = STUB_A;
        let mut funds = "-".to_string();
        let mut minter = if self.rng.chance(1, 6) { *self.rng.pick(&[STUB_B, 20, 10]) } else { STUB_A };
        let mut creator = 10;
        let mut desc = {
            let d = self.desc();
            let len: u64 = d.split_once(':').unwrap().1.parse().unwrap();
            if len > 512 {
                "3:512".to_string()
            } else {
                d
            }
        };
        let mut image = *self.rng.pick(&[0u64, 1, 5, 6]);
        let mut ext = if self.rng.chance(1, 2) { fmt_opt(&Some(*self.rng.pick(&[0u64, 7, 11]))) } else { "-".into() };
        let ec = *self.rng.pick(&["-", "0", "1"]);
        let stt = if self.rng.chance(1, 2) { "-".to_string() } else { (self.t + self.rng.below(1000)).to_string() };
        let p = 10u128.pow(16);
        let mut roy = match self.rng.below(6) {
            0 => "-".to_string(),
            1 => format!("40:{}", 100 * p),
            2 => "41:0".to_string(),
            3 => format!("40:{}", 10 * p),
            _ => format!("40:{}", self.rng.below(10) as u128 * p),
        };
        if fault {
            match self.rng.below(9) {
                0 => s = *self.rng.pick(&[10, 20, 50]),
                1 => funds = "0:10".into(),
                2 => minter = *self.rng.pick(&INVALID),
                3 => creator = *self.rng.pick(&INVALID),
                4 => desc = "4:513".into(),
                5 => image = *self.rng.pick(&[2u64, 3, 4]),
                6 => ext = (*self.rng.pick(&[2u64, 3, 4])).to_string(),
                7 => roy = format!("40:{}", 100 * p + 1),
                _ => roy = format!("{}:{}", self.rng.pick(&INVALID), 5 * p),
            }
        }
        format!("inst s={s} funds={funds} minter={minter} creator={creator} desc={desc} image={image} ext={ext} ec={ec} stt={stt} roy={roy}")
    }

    /// maybe advance the clock; prefers instants the current state makes interesting
    fn clock(&mut self, o: Option<&Obs>) -> Option<String> {
        if !self.rng.chance(1, 3) {
            return None;
        }
        let mut cands_t: Vec<u64> = vec![];
        let mut cands_h: Vec<u64> = vec![];
        if let Some(o) = o {
            if let Some(r) = o.rua {
                cands_t.push(r + DAY_NS);
            }
            let mut exps: Vec<String> = o.toks.iter().flat_map(|t| t.approvals.iter().map(|x| x.1.clone())).collect();
            exps.extend(o.ops.iter().map(|x| x.2.clone()));
            if let Some(e) = &o.pexp {
                exps.push(e.clone());
            }
            for e in exps {
                match parse_exp(&e) {
                    Some(('h', v)) => cands_h.push(v),
                    Some(('t', v)) => cands_t.push(v),
                    _ => {}
                }
            }
        }
        let r = self.rng.below(10);
        if r < 4 && !cands_t.is_empty() {
            let c = *self.rng.pick(&cands_t);
            let d = *self.rng.pick(&[0i64, -1, 1]);
            let nt = (c as i64 + d) as u64;
            if nt >= self.t {
                self.t = nt;
                self.h += 1;
            } else {
                self.t += 1;
                self.h += 1;
            }
        } else if r < 6 && !cands_h.is_empty() {
            let c = *self.rng.pick(&cands_h);
            let d = *self.rng.pick(&[0i64, -1, 1]);
            let nh = (c as i64 + d).max(0) as u64;
            if nh >= self.h {
                self.h = nh;
            } else {
                self.h += 1;
            }
            self.t += 5_000_000_000;
        } else if r < 8 {
            self.h += 1;
            self.t += self.rng.range(1, 6) * 1_000_000_000;
        } else {
            self.h += self.rng.range(1, 20000);
            self.t += self.rng.range(1, 2 * DAY_NS);
        }
        Some(format!("block h={} t={}", self.h, self.t))
    }

    /// one message line + a coverage class
    fn op_line(&mut self, o: &Obs) -> (String, String) {
        let valid = self.rng.chance(7, 10);
        let minter = o.owner;
        let creator = o.creator;
        let f = self.funds();
        let upd = o.kind == "updatable";
        let pick = self.rng.below(100);
        // weights tuned so every message kind is frequent; collection-specific ones more on their collection
        let (line, role): (String, &str) = if pick < 16 {
            // mint
            let (s, role) = if valid && minter.is_some() { (minter.unwrap(), "minter") } else { (self.any_sender(), "any") };
            let dup = !valid && self.rng.chance(1, 2);
            let id = self.token_id(o, dup);
            let owner = if !valid && self.rng.chance(1, 4) { *self.rng.pick(&INVALID) } else { self.any_target(Some(o)) };
            let uri = if self.rng.chance(1, 4) { "-".to_string() } else { self.rng.range(1, 30).to_string() };
            let s2 = if dup && minter.is_some() { minter.unwrap() } else { s };
            (format!("mint s={s2} funds={f} id={id} owner={owner} uri={uri} ext={}", self.rng.below(4)), role)
        } else if pick < 26 {
            // transfer
            let want = valid || self.rng.chance(1, 2);
            let id = self.token_id(o, want);
            let (s, role) = match o.tok(id) {
                Some(t) if valid => {
                    let t = t.clone();
                    self.mover(o, &t)
                }
                _ => (self.any_sender(), "any"),
            };
            (format!("transfer s={s} funds={f} to={} id={id}", self.any_target(Some(o))), role)
        } else if pick < 33 {
            let want = valid || self.rng.chance(1, 2);
            let id = self.token_id(o, want);
            let (s, role) = match o.tok(id) {
                Some(t) if valid => {
                    let t = t.clone();
                    self.mover(o, &t)
                }
                _ => (self.any_sender(), "any"),
            };
            let to = if valid { *self.rng.pick(&[STUB_A, STUB_B]) } else { self.any_target(Some(o)) };
            let payload = if self.rng.chance(1, 5) { 0 } else { 1 };
            (format!("send s={s} funds={f} to={to} id={id} payload={payload}"), role)
        } else if pick < 42 {
            let want = valid || self.rng.chance(1, 2);
            let id = self.token_id(o, want);
            let (s, role) = match o.tok(id) {
                Some(t) if valid => {
                    // owner or one of the owner's operators may approve
                    let t = t.clone();
                    let mut m = self.mover(o, &t);
                    if m.1 == "approved" {
                        m = (t.owner, "owner");
                    }
                    m
                }
                _ => (self.any_sender(), "any"),
            };
            let sp = if self.rng.chance(1, 12) { *self.rng.pick(&INVALID) } else { *self.rng.pick(&[21u64, 22, 23, 30, STUB_B]) };
            if self.rng.chance(2, 3) {
                (format!("approve s={s} funds={f} sp={sp} id={id} exp={}", self.exp()), role)
            } else {
                (format!("revoke s={s} funds={f} sp={sp} id={id}"), role)
            }
        } else if pick < 49 {
            let s = if valid { *self.rng.pick(&HOLDERS) } else { self.any_sender() };
            let opr = if self.rng.chance(1, 12) { *self.rng.pick(&INVALID) } else { *self.rng.pick(&[20u64, 21, 22, 30, STUB_B]) };
            if self.rng.chance(2, 3) {
                (format!("approve_all s={s} funds={f} op={opr} exp={}", self.exp()), "holder")
            } else {
                (format!("revoke_all s={s} funds={f} op={opr}"), "holder")
            }
        } else if pick < 57 {
            let want = valid || self.rng.chance(1, 2);
            let id = self.token_id(o, want);
            let (s, role) = match o.tok(id) {
                Some(t) if valid => {
                    let t = t.clone();
                    self.mover(o, &t)
                }
                _ => (self.any_sender(), "any"),
            };
            (format!("burn s={s} funds={f} id={id}"), role)
        } else if pick < 70 {
            // update collection info
            let (s, role) = if valid { (creator, "creator") } else { (self.any_sender(), "any") };
            let direct = self.rng.chance(1, 4);
            let desc = if self.rng.chance(1, 2) { "-".to_string() } else { self.desc() };
            let image = if self.rng.chance(1, 2) { "-".to_string() } else { self.url(true).to_string() };
            let ext = match self.rng.below(4) {
                0 | 1 => "-".to_string(),
                2 if direct => "none".to_string(),
                _ => self.url(true).to_string(),
            };
            let ec = *self.rng.pick(&["-", "0", "1"]);
            let roy = match self.rng.below(6) {
                0 | 1 | 2 => "-".to_string(),
                3 if direct => "none".to_string(),
                _ => {
                    let payee = if self.rng.chance(1, 12) { *self.rng.pick(&INVALID) } else { *self.rng.pick(&PAYEES) };
                    format!("{payee}:{}", self.share(o))
                }
            };
            let cr = match self.rng.below(8) {
                0 => "11".to_string(),
                1 => "10".to_string(),
                2 if !valid => self.rng.pick(&INVALID).to_string(),
                _ => "-".to_string(),
            };
            (format!("uci s={s} funds={f} direct={} desc={desc} image={image} ext={ext} ec={ec} roy={roy} creator={cr}", direct as u8), role)
        } else if pick < 74 {
            let (s, role) = if valid && minter.is_some() { (minter.unwrap(), "minter") } else { (self.any_sender(), "any") };
            let t = if self.rng.chance(1, 4) { "-".to_string() } else { (self.t + self.rng.below(100000)).to_string() };
            (format!("ustt s={s} funds={f} t={t}"), role)
        } else if pick < 78 {
            // freeze: creators freeze rarely unless already frozen (keeps unfrozen histories long enough)
            let (s, role) = if valid && (o.fz || self.rng.chance(1, 3)) { (creator, "creator") } else { (self.any_sender(), "any") };
            (format!("freeze s={s} funds={f}"), role)
        } else if pick < 86 {
            // ownership hand-over
            let r = if o.pending.is_some() && self.rng.chance(1, 2) { 3 } else { self.rng.below(6) };
            match r {
                0 | 1 | 2 => {
                    let (s, role) = if valid && minter.is_some() { (minter.unwrap(), "minter") } else { (self.any_sender(), "any") };
                    let to = if self.rng.chance(1, 10) { *self.rng.pick(&INVALID) } else { *self.rng.pick(&[STUB_A, STUB_B, 20, 10]) };
                    (format!("own_transfer s={s} funds={f} to={to} exp={}", self.exp()), role)
                }
                3 | 4 => {
                    let (s, role) = if valid && o.pending.is_some() { (o.pending.unwrap(), "pending") } else { (self.any_sender(), "any") };
                    (format!("own_accept s={s} funds={f}"), role)
                }
                _ => {
                    let (s, role) = if valid && minter.is_some() && self.rng.chance(1, 4) { (minter.unwrap(), "minter") } else { (self.any_sender(), "any") };
                    (format!("own_renounce s={s} funds={f}"), role)
                }
            }
        } else if pick < 97 {
            // updatable-only messages (also sent to the other collections, where they must be rejected)
            if !upd && self.rng.chance(2, 3) {
                let (s, role) = if minter.is_some() { (minter.unwrap(), "minter") } else { (self.any_sender(), "any") };
                let id = self.token_id(o, false);
                let l = format!("mint s={s} funds=- id={id} owner={} uri={} ext=1", self.rng.pick(&HOLDERS), self.rng.range(1, 30));
                return self.class(o, l, role);
            }
            match self.rng.below(10) {
                0 => {
                    let (s, role) = if valid && (o.fm || self.rng.chance(1, 3)) { (creator, "creator") } else { (self.any_sender(), "any") };
                    let ff = if valid { "-".to_string() } else { f.clone() };
                    (format!("freeze_meta s={s} funds={ff}"), role)
                }
                1 | 2 => {
                    let (s, role) = if valid { (creator, "creator") } else { (self.any_sender(), "any") };
                    let fee = 1_500_000_000u128;
                    let ff = match self.rng.below(8) {
                        0 => format!("0:{}", fee - 1),
                        1 => format!("0:{}", fee + 1),
                        2 => format!("1:{fee}"),
                        3 => "-".to_string(),
                        4 => format!("0:{fee},1:5"),
                        _ => format!("0:{fee}"),
                    };
                    (format!("enable s={s} funds={ff}"), role)
                }
                _ => {
                    let (s, role) = if valid { (creator, "creator") } else { (self.any_sender(), "any") };
                    let want = valid || self.rng.chance(1, 2);
            let id = self.token_id(o, want);
                    let uri = if self.rng.chance(1, 5) { "-".to_string() } else { self.rng.range(31, 60).to_string() };
                    let ff = if valid { "-".to_string() } else { f.clone() };
                    (format!("utm s={s} funds={ff} id={id} uri={uri}"), role)
                }
            }
        } else if pick < 98 {
            (format!("extension s={} funds={f}", self.any_sender()), "any")
        } else {
            // chain-level: stored version of an older release / migrate to one of the four codes
            if self.rng.chance(1, 2) {
                let v = *self.rng.pick(&VERSIONS);
                // below 3.1.0: half of the time in the faithful layout (no `royalty_updated_at` item)
                let drop = parse_ver(v).map(|x| x < (3, 1, 0)).unwrap_or(false) && self.rng.chance(1, 2);
                (format!("setver v={v}{}", if drop { " drop=1" } else { "" }), "admin")
            } else {
                let to = if self.rng.chance(2, 3) { "updatable" } else { *self.rng.pick(&KINDS) };
                (format!("migrate to={to}"), "admin")
            }
        };
        // message variants the protocol has no name for (none on the unchanged tree): sent raw, from every role
        let unknown = self.sf.unknown.get(&o.kind).cloned().unwrap_or_default();
        if !unknown.is_empty() && self.rng.chance(1, 12) {
            let v = self.rng.pick(&unknown).clone();
            let s = match self.rng.below(5) {
                0 => minter.unwrap_or(STUB_A),
                1 => creator,
                2 => o.toks.first().map(|t| t.owner).unwrap_or(20),
                3 => STRANGER,
                _ => self.any_sender(),
            };
            let l = format!("raw s={s} funds=- v={v} k={}", self.rng.range(1, 4));
            return self.class(o, l, "any");
        }
        self.class(o, line, role)
    }

    fn class(&mut self, o: &Obs, line: String, role: &'static str) -> (String, String) {
        let op = line.split_whitespace().next().unwrap().to_string();
        let s = kv_u64(&line, "s");
        let who = if s.is_some() && s == o.owner {
            "minter"
        } else if s == Some(o.creator) {
            "creator"
        } else if s.is_some() && s == o.pending {
            "pending"
        } else {
            role
        };
        let cls = format!("{}:{op}:{who}:fz{}:fm{}:ue{}", o.kind, o.fz as u8, o.fm as u8, o.ue as u8);
        (line, cls)
    }
}

/// one step + the coverage classes of what just happened
fn stepm(ses: &mut Session, sut: &mut S, line: &str) -> String {
    let out = ses.step(sut, line);
    for c in sut.req_classes() {
        ses.mark(c);
    }
    out
}
fn run_lines(ses: &mut Session, sut: &mut S, lines: &[String]) {
    ses.begin_case(sut, &lines[0]);
    for l in &lines[1..] {
        stepm(ses, sut, l);
    }
    ses.end_case();
}

fn random_case(ses: &mut Session, sut: &mut S, g: &mut G, kind: &str, n_ops: u64, tag: &str) {
    g.h = 100 + g.rng.below(50);
    g.t = T0 + g.rng.below(1_000_000_000);
    ses.begin_case(sut, &format!("case kind={kind} {tag}"));
    stepm(ses, sut, &format!("block h={} t={}", g.h, g.t));
    // a few messages before any collection exists
    if g.rng.chance(1, 6) {
        stepm(ses, sut, "freeze s=10 funds=-");
    }
    // instantiate: sometimes a faulty attempt first
    let mut tries = 0;
    loop {
        let fault = tries == 0 && g.rng.chance(1, 3);
        let l = g.inst_line(fault);
        let out = stepm(ses, sut, &l);
        ses.mark(format!("{kind}:inst:{}:{}", if fault { "fault" } else { "valid" }, &out[..2]));
        tries += 1;
        if out.starts_with("ok") {
            break;
        }
        assert!(tries < 6, "cannot instantiate: {l}");
    }
    let early_freeze = g.rng.chance(1, 3);
    let early_meta_freeze = kind == "updatable" && g.rng.chance(1, 3);
    let migrate_early = kind == "base" && g.rng.chance(1, 5);
    // an sg721-updatable / -metadata-onchain collection of an older release is upgraded in the middle of its history
    let upgrade_mid = (kind == "updatable" || kind == "onchain") && g.rng.chance(1, 3);
    let old_release = kind == "base" && g.rng.chance(1, 6);
    for i in 0..n_ops {
        let o = sut.cur.clone();
        if let Some(b) = g.clock(o.as_ref()) {
            stepm(ses, sut, &b);
        }
        let Some(o) = sut.cur.clone() else { break };
        if old_release && i == 1 {
            let v = *g.rng.pick(&["3.0.5", "3.0.5", "3.1.0", "3.15.0"]);
            stepm(ses, sut, &format!("setver v={v}{}", if v == "3.0.5" && g.rng.chance(2, 3) { " drop=1" } else { "" }));
            continue;
        }
        if migrate_early && i == 3 {
            stepm(ses, sut, "migrate to=updatable");
            continue;
        }
        if early_freeze && i == n_ops / 4 {
            stepm(ses, sut, &format!("freeze s={} funds=-", o.creator));
            continue;
        }
        if early_meta_freeze && i == n_ops / 3 {
            stepm(ses, sut, &format!("freeze_meta s={} funds=-", o.creator));
            continue;
        }
        if upgrade_mid && i == n_ops / 2 {
            let v = *g.rng.pick(&["3.15.0", "3.1.0", "3.0.5", "3.0.0"]);
            let drop = (v == "3.0.5" || v == "3.0.0") && g.rng.chance(2, 3);
            stepm(ses, sut, &format!("setver v={v}{}", if drop { " drop=1" } else { "" }));
            stepm(ses, sut, &format!("migrate to={kind}"));
            continue;
        }
        let (line, cls) = g.op_line(&o);
        let out = stepm(ses, sut, &line);
        ses.mark(format!("{cls}:{}", &out[..2]));
    }
    ses.end_case();
}

/// every sequence of length `depth` over a small alphabet of messages (model validation in a small scope)
fn exhaustive(ses: &mut Session, sut: &mut S, kind: &str, depth: usize) {
    let alphabet: Vec<String> = vec![
        format!("mint s={STUB_A} funds=- id=1 owner=20 uri=1 ext=0"),
        format!("mint s={STUB_A} funds=- id=2 owner=21 uri=- ext=2"),
        "mint s=20 funds=- id=3 owner=20 uri=- ext=0".into(),
        "transfer s=20 funds=- to=21 id=1".into(),
        "approve s=20 funds=- sp=22 id=1 exp=-".into(),
        "approve_all s=21 funds=- op=22 exp=h102".into(),
        "burn s=22 funds=- id=1".into(),
        "burn s=21 funds=- id=2".into(),
        format!("send s=21 funds=- to={STUB_B} id=2 payload=1"),
        "uci s=10 funds=- direct=0 desc=9:40 image=1 ext=7 ec=1 roy=- creator=11".into(),
        "uci s=11 funds=- direct=1 desc=- image=- ext=none ec=- roy=none creator=-".into(),
        "freeze s=10 funds=-".into(),
        "freeze s=11 funds=-".into(),
        format!("own_transfer s={STUB_A} funds=- to=20 exp=-"),
        "own_accept s=20 funds=-".into(),
        format!("own_renounce s={STUB_A} funds=-"),
        "utm s=10 funds=- id=1 uri=44".into(),
        "freeze_meta s=10 funds=-".into(),
        "block h=102 t=1700000100000000000".into(),
        "setver v=3.0.5".into(),
        "setver v=3.0.5 drop=1".into(),
        "migrate to=updatable".into(),
    ];
    let n = alphabet.len();
    let mut idx = vec![0usize; depth];
    let total = n.pow(depth as u32);
    for k in 0..total {
        let mut x = k;
        for d in 0..depth {
            idx[d] = x % n;
            x /= n;
        }
        let mut lines = vec![
            format!("case kind={kind} exhaustive depth={depth} k={k}"),
            "block h=100 t=1700000000000000000".to_string(),
            format!("inst s={STUB_A} funds=- minter={STUB_A} creator=10 desc=1:30 image=0 ext=- ec=- stt=- roy=40:50000000000000000"),
        ];
        for d in 0..depth {
            lines.push(alphabet[idx[d]].clone());
        }
        run_lines(ses, sut, &lines);
    }
    ses.mark(format!("{kind}:exhaustive:depth{depth}:{total}"));
}

/// the version the code of `kind` records at instantiate (read from a fresh collection), and its neighbours
fn code_version(sut: &mut S, kind: &str) -> (u64, u64, u64) {
    sut.begin(&format!("case kind={kind} probe"));
    sut.exec(&format!("block h=100 t={T0}"));
    sut.exec(&format!("inst s={STUB_A} funds=- minter={STUB_A} creator=10 desc=1:30 image=0 ext=- ec=- stt=- roy=-"));
    // (a pre-release / build-metadata version is outside the model's semver anyway; do not abort on one)
    sut.cur.as_ref().and_then(|o| parse_ver(&o.ver)).unwrap_or((3, 16, 0))
}
fn ver_below((a, b, c): (u64, u64, u64)) -> String {
    if c > 0 {
        format!("{a}.{b}.{}", c - 1)
    } else if b > 0 {
        format!("{a}.{}.999", b - 1)
    } else {
        format!("{}.999.999", a.saturating_sub(1))
    }
}

/// scripted scenarios at exact boundaries and for the clauses of the property (also the documentation examples)
fn scripted(ses: &mut Session, sut: &mut S) {
    let t0 = T0;
    let day = DAY_NS;
    let p = 10u128.pow(16);
    for kind in KINDS {
        let inst = format!("inst s={STUB_A} funds=- minter={STUB_A} creator=10 desc=1:512 image=0 ext=7 ec=0 stt=- roy=40:{}", 5 * p);
        // 1. mint authority before/after a hand-over, duplicate ids (same block), burn + re-mint
        let lines: Vec<String> = vec![
            format!("case kind={kind} scripted mint-authority"),
            format!("block h=100 t={t0}"),
            "inst s=10 funds=- minter=1000 creator=10 desc=1:512 image=0 ext=7 ec=0 stt=- roy=-".into(),
            format!("inst s={STUB_A} funds=0:1 minter={STUB_A} creator=10 desc=1:512 image=0 ext=7 ec=0 stt=- roy=-"),
            inst.clone(),
            format!("mint s={STUB_A} funds=- id=1 owner=20 uri=1 ext=3"),
            format!("mint s={STUB_A} funds=- id=1 owner=21 uri=2 ext=0"),
            format!("mint s={STUB_B} funds=- id=2 owner=21 uri=2 ext=0"),
            "mint s=10 funds=- id=2 owner=21 uri=2 ext=0".into(),
            format!("own_transfer s={STUB_A} funds=- to={STUB_B} exp=h105"),
            format!("mint s={STUB_B} funds=- id=2 owner=21 uri=2 ext=0"),
            "block h=104 t=1700000001000000000".into(),
            format!("own_accept s={STUB_A} funds=-"),
            format!("own_accept s={STUB_B} funds=-"),
            format!("mint s={STUB_A} funds=- id=2 owner=21 uri=2 ext=0"),
            format!("mint s={STUB_B} funds=- id=2 owner=21 uri=2 ext=0"),
            format!("mint s={STUB_B} funds=- id=1 owner=21 uri=2 ext=0"),
            "burn s=20 funds=- id=1".into(),
            format!("mint s={STUB_B} funds=- id=1 owner=22 uri=9 ext=0"),
            format!("own_transfer s={STUB_B} funds=- to=20 exp=h105"),
            "block h=105 t=1700000002000000000".into(),
            "own_accept s=20 funds=-".into(),
            format!("own_renounce s={STUB_B} funds=-"),
            format!("mint s={STUB_B} funds=- id=5 owner=22 uri=9 ext=0"),
            format!("ustt s={STUB_B} funds=- t=5"),
        ];
        run_lines(ses, sut, &lines);
        // 1b. hand-over with a TIME expiry at the exact instant -1/0/+1 ns, a proposal overwritten between two accepts,
        //     accept/renounce/transfer by everybody who is not entitled (the minter ghost must follow exactly)
        let lines: Vec<String> = vec![
            format!("case kind={kind} scripted handover-boundaries"),
            format!("block h=100 t={t0}"),
            inst.clone(),
            format!("mint s={STUB_A} funds=- id=1 owner=20 uri=1 ext=0"),
            "own_transfer s=10 funds=- to=10 exp=-".into(),
            "own_transfer s=20 funds=- to=20 exp=-".into(),
            "own_accept s=10 funds=-".into(),
            "own_renounce s=10 funds=-".into(),
            "own_renounce s=20 funds=-".into(),
            format!("own_transfer s={STUB_A} funds=- to=21 exp=t{}", t0 + 5),
            format!("own_transfer s={STUB_A} funds=- to=22 exp=t{}", t0 + 5),
            format!("block h=100 t={}", t0 + 4),
            "own_accept s=21 funds=-".into(),
            format!("own_accept s={STUB_A} funds=-"),
            format!("block h=100 t={}", t0 + 5),
            "own_accept s=22 funds=-".into(),
            format!("block h=100 t={}", t0 + 6),
            "own_accept s=22 funds=-".into(),
            format!("mint s={STUB_A} funds=- id=2 owner=21 uri=- ext=0"),
            "mint s=22 funds=- id=3 owner=21 uri=- ext=0".into(),
            format!("own_transfer s={STUB_A} funds=- to=22 exp=t{}", t0 + 8),
            format!("block h=100 t={}", t0 + 7),
            "own_accept s=22 funds=-".into(),
            "own_accept s=22 funds=-".into(),
            format!("mint s={STUB_A} funds=- id=3 owner=21 uri=- ext=0"),
            "mint s=22 funds=- id=3 owner=21 uri=- ext=0".into(),
            "mint s=22 funds=- id=3 owner=21 uri=- ext=0".into(),
            format!("own_transfer s={STUB_A} funds=- to={STUB_A} exp=-"),
            "own_transfer s=22 funds=- to=900 exp=-".into(),
            "own_transfer s=22 funds=- to=23 exp=h100".into(),
            "own_accept s=23 funds=-".into(),
            "own_transfer s=22 funds=- to=23 exp=h101".into(),
            "own_accept s=23 funds=-".into(),
            "own_renounce s=22 funds=-".into(),
            "own_renounce s=23 funds=-".into(),
            "mint s=23 funds=- id=4 owner=21 uri=- ext=0".into(),
            "own_accept s=23 funds=-".into(),
        ];
        run_lines(ses, sut, &lines);
        // 2. collection-info freeze: every mutating message afterwards (freeze repeated in the same block)
        let lines: Vec<String> = vec![
            format!("case kind={kind} scripted freeze-info"),
            format!("block h=100 t={t0}"),
            inst.clone(),
            format!("mint s={STUB_A} funds=- id=1 owner=20 uri=1 ext=0"),
            "uci s=10 funds=- direct=0 desc=2:513 image=- ext=- ec=- roy=- creator=-".into(),
            "uci s=10 funds=- direct=0 desc=2:512 image=1 ext=11 ec=1 roy=- creator=-".into(),
            "uci s=10 funds=- direct=0 desc=- image=2 ext=- ec=- roy=- creator=-".into(),
            "uci s=10 funds=- direct=0 desc=- image=- ext=3 ec=- roy=- creator=-".into(),
            "uci s=30 funds=- direct=0 desc=3:10 image=- ext=- ec=- roy=- creator=30".into(),
            format!("uci s={STUB_A} funds=- direct=0 desc=3:10 image=- ext=- ec=- roy=- creator=-"),
            format!("uci s=10 funds=- direct=0 desc=- image=- ext=- ec=- roy=41:{} creator=-", 6 * p),
            format!("block h=101 t={}", t0 + day - 1),
            format!("uci s=10 funds=- direct=0 desc=- image=- ext=- ec=- roy=41:{} creator=-", 6 * p),
            format!("block h=102 t={}", t0 + day),
            format!("uci s=10 funds=- direct=0 desc=- image=- ext=- ec=- roy=41:{} creator=-", 7 * p + 1),
            format!("uci s=10 funds=- direct=0 desc=- image=- ext=- ec=- roy=41:{} creator=-", 7 * p),
            "uci s=10 funds=- direct=1 desc=- image=- ext=none ec=- roy=none creator=11".into(),
            "freeze s=10 funds=-".into(),
            "freeze s=30 funds=-".into(),
            "freeze s=11 funds=-".into(),
            "freeze s=11 funds=-".into(),
            format!("block h=103 t={}", t0 + 3 * day),
            "uci s=11 funds=- direct=0 desc=5:10 image=5 ext=0 ec=1 roy=40:0 creator=10".into(),
            "uci s=11 funds=- direct=1 desc=- image=- ext=none ec=- roy=- creator=-".into(),
            "uci s=10 funds=- direct=0 desc=- image=- ext=- ec=- roy=- creator=-".into(),
            format!("uci s={STUB_A} funds=- direct=0 desc=- image=- ext=- ec=0 roy=- creator=-"),
            "freeze s=11 funds=-".into(),
            format!("ustt s={STUB_A} funds=- t=77"),
            "ustt s=11 funds=- t=78".into(),
            format!("mint s={STUB_A} funds=- id=2 owner=21 uri=- ext=0"),
            "transfer s=20 funds=- to=22 id=1".into(),
            "burn s=21 funds=- id=2".into(),
            "extension s=11 funds=-".into(),
            "migrate to=updatable".into(),
            "uci s=11 funds=- direct=0 desc=5:10 image=- ext=- ec=- roy=- creator=-".into(),
            "migrate to=updatable".into(),
            "setver v=3.0.5".into(),
            format!("migrate to={kind}"),
            "migrate to=updatable".into(),
            "uci s=11 funds=- direct=0 desc=5:10 image=- ext=- ec=- roy=- creator=-".into(),
        ];
        run_lines(ses, sut, &lines);
        // 3. approvals / operators with exact expiry instants
        let lines: Vec<String> = vec![
            format!("case kind={kind} scripted approvals"),
            format!("block h=100 t={t0}"),
            inst.clone(),
            format!("mint s={STUB_A} funds=- id=1 owner=20 uri=1 ext=0"),
            format!("mint s={STUB_A} funds=- id=2 owner=20 uri=- ext=0"),
            format!("mint s={STUB_A} funds=- id=3 owner=21 uri=- ext=0"),
            "approve s=20 funds=- sp=22 id=1 exp=h100".into(),
            "approve s=20 funds=- sp=22 id=1 exp=h101".into(),
            format!("approve s=20 funds=- sp=23 id=1 exp=t{}", t0 + 5),
            "approve s=30 funds=- sp=30 id=1 exp=-".into(),
            format!("approve_all s=20 funds=- op=30 exp=t{}", t0 + 10),
            "approve s=30 funds=- sp=21 id=2 exp=n".into(),
            format!("block h=100 t={}", t0 + 4),
            "transfer s=23 funds=- to=900 id=1".into(),
            format!("block h=100 t={}", t0 + 5),
            "transfer s=23 funds=- to=21 id=1".into(),
            format!("block h=101 t={}", t0 + 6),
            "transfer s=22 funds=- to=21 id=1".into(),
            format!("block h=100 t={}", t0 + 9),
            format!("send s=30 funds=- to={STUB_B} id=1 payload=0"),
            "send s=30 funds=- to=21 id=1 payload=1".into(),
            format!("send s=30 funds=- to={STUB_B} id=1 payload=1"),
            format!("block h=100 t={}", t0 + 10),
            "burn s=30 funds=- id=2".into(),
            "revoke s=30 funds=- sp=21 id=2".into(),
            "revoke s=20 funds=- sp=21 id=2".into(),
            "revoke_all s=20 funds=- op=30".into(),
            "burn s=21 funds=- id=2".into(),
            "burn s=20 funds=- id=2".into(),
            "burn s=20 funds=- id=2".into(),
            "transfer s=21 funds=- to=22 id=3".into(),
            "burn s=30 funds=- id=3".into(),
            "burn s=21 funds=- id=3".into(),
            "burn s=22 funds=- id=3".into(),
        ];
        run_lines(ses, sut, &lines);
        // 4. token metadata (updatable; the others must reject all three messages); burn + re-mint after the freeze
        let fee = 1_500_000_000u128;
        let lines: Vec<String> = vec![
            format!("case kind={kind} scripted token-metadata"),
            format!("block h=100 t={t0}"),
            inst.clone(),
            format!("mint s={STUB_A} funds=- id=1 owner=20 uri=1 ext=0"),
            "utm s=10 funds=- id=1 uri=31".into(),
            "utm s=10 funds=- id=2 uri=31".into(),
            "utm s=20 funds=- id=1 uri=32".into(),
            format!("utm s={STUB_A} funds=- id=1 uri=32"),
            "utm s=10 funds=0:1 id=1 uri=33".into(),
            "utm s=10 funds=- id=1 uri=-".into(),
            format!("enable s=10 funds=0:{fee}"),
            "freeze_meta s=20 funds=-".into(),
            "freeze_meta s=10 funds=0:1".into(),
            "freeze_meta s=10 funds=-".into(),
            "freeze_meta s=10 funds=-".into(),
            "utm s=10 funds=- id=1 uri=34".into(),
            "burn s=20 funds=- id=1".into(),
            format!("mint s={STUB_A} funds=- id=1 owner=20 uri=35 ext=0"),
            "utm s=10 funds=- id=1 uri=36".into(),
            "freeze_meta s=10 funds=-".into(),
            "migrate to=updatable".into(),
            "utm s=10 funds=- id=1 uri=37".into(),
        ];
        run_lines(ses, sut, &lines);
        // 6. upgrades: a collection instantiated by an OLDER release is migrated after both freezes. The metadata freeze
        //    must survive an ACCEPTED sg721-updatable -> sg721-updatable migration (flags are re-initialised only when coming
        //    from sg721-base); stored versions at the code version -1/0/+1, around the inline 3.1.0 / 3.0.0 thresholds, below
        //    the earliest compatible version; the other three codes as targets.
        let cv = code_version(sut, if kind == "base" { "updatable" } else { kind });
        let lines: Vec<String> = vec![
            format!("case kind={kind} scripted upgrades"),
            format!("block h=100 t={t0}"),
            inst.clone(),
            format!("mint s={STUB_A} funds=- id=1 owner=20 uri=1 ext=0"),
            "utm s=10 funds=- id=1 uri=31".into(),
            "freeze_meta s=10 funds=-".into(),
            "freeze s=10 funds=-".into(),
            format!("migrate to={kind}"),
            format!("setver v={}", ver_below(cv)),
            "migrate to=updatable".into(),
            "utm s=10 funds=- id=1 uri=37".into(),
            "uci s=10 funds=- direct=0 desc=5:10 image=- ext=- ec=- roy=- creator=-".into(),
            "migrate to=updatable".into(),
            format!("setver v={}.{}.{}", cv.0, cv.1, cv.2 + 1),
            "migrate to=updatable".into(),
            format!("migrate to={kind}"),
            "setver v=3.1.0".into(),
            format!("block h=101 t={}", t0 + 3 * day),
            "migrate to=updatable".into(),
            "setver v=3.0.9".into(),
            "migrate to=updatable".into(),
            "utm s=10 funds=- id=1 uri=38".into(),
            format!("uci s=10 funds=- direct=0 desc=- image=- ext=- ec=- roy=41:{} creator=-", 6 * p),
            "setver v=3.0.0".into(),
            format!("migrate to={kind}"),
            format!("migrate to={kind}"),
            "setver v=2.9.9".into(),
            "migrate to=updatable".into(),
            format!("migrate to={kind}"),
            "setver v=0.16.0".into(),
            "migrate to=updatable".into(),
            "setver v=0.15.9".into(),
            "migrate to=updatable".into(),
            format!("migrate to={kind}"),
            "setver v=99.0.0".into(),
            "migrate to=updatable".into(),
            "setver v=3.15.0".into(),
            "migrate to=onchain".into(),
            "migrate to=nt".into(),
            "migrate to=base".into(),
            "utm s=10 funds=- id=1 uri=39".into(),
            "enable s=10 funds=0:1500000000".into(),
            "utm s=10 funds=- id=1 uri=40".into(),
            format!("mint s={STUB_A} funds=- id=2 owner=21 uri=2 ext=0"),
            "mint s=10 funds=- id=3 owner=21 uri=2 ext=0".into(),
            "transfer s=20 funds=- to=22 id=1".into(),
        ];
        run_lines(ses, sut, &lines);
    }
    // 5. sg721-base migrated to sg721-updatable: EnableUpdatable fee boundaries
    let fee = 1_500_000_000u128;
    let lines: Vec<String> = vec![
        "case kind=base scripted migrate-enable".into(),
        format!("block h=100 t={t0}"),
        format!("inst s={STUB_A} funds=- minter={STUB_A} creator=10 desc=1:40 image=0 ext=- ec=- stt=- roy=-"),
        format!("mint s={STUB_A} funds=- id=1 owner=20 uri=1 ext=0"),
        "utm s=10 funds=- id=1 uri=31".into(),
        "migrate to=updatable".into(),
        "utm s=10 funds=- id=1 uri=31".into(),
        format!("enable s=20 funds=0:{fee}"),
        format!("enable s=10 funds=0:{}", fee - 1),
        format!("enable s=10 funds=1:{fee}"),
        "enable s=10 funds=-".into(),
        format!("enable s=10 funds=0:{fee},1:1"),
        format!("enable s=10 funds=0:{}", fee + 1),
        format!("enable s=10 funds=0:{fee}"),
        "utm s=10 funds=- id=1 uri=31".into(),
        format!("own_transfer s={STUB_A} funds=- to=20 exp=-"),
        "freeze_meta s=10 funds=-".into(),
        "utm s=10 funds=- id=1 uri=32".into(),
    ];
    run_lines(ses, sut, &lines);
    // 7. migration from a release below 3.1.0 in a block whose time is 24 h - 1 ns / exactly 24 h (the royalty timestamp is
    //    rewound by `minus_seconds`, which panics on underflow = failed transaction)
    let lines: Vec<String> = vec![
        "case kind=base scripted migrate-early-clock".into(),
        format!("block h=5 t={}", day - 1),
        format!("inst s={STUB_A} funds=- minter={STUB_A} creator=10 desc=1:40 image=0 ext=- ec=- stt=- roy=-"),
        format!("mint s={STUB_A} funds=- id=1 owner=20 uri=1 ext=0"),
        "freeze s=10 funds=-".into(),
        "setver v=3.0.5".into(),
        "migrate to=updatable".into(),
        format!("block h=6 t={day}"),
        "migrate to=updatable".into(),
        "uci s=10 funds=- direct=0 desc=5:10 image=- ext=- ec=- roy=- creator=-".into(),
        format!("mint s={STUB_A} funds=- id=1 owner=20 uri=1 ext=0"),
        format!("mint s={STUB_A} funds=- id=2 owner=20 uri=1 ext=0"),
    ];
    run_lines(ses, sut, &lines);
    // 7b. THE FAITHFUL OLD COLLECTION: written by a release below 3.1.0, i.e. stored version < 3.1.0 AND no `royalty_updated_at`
    //     item (`setver … drop=1`). Both freezes first, then the upgrade that creates the item, then the creator tries again.
    //     Judged by the ghost freeze monitors (`migrate/unfrozen`, `…/info-changed`, `migrate/meta-unfrozen`, `…/frozen-uri-changed`).
    for kind in ["base", "updatable"] {
        for v in ["3.0.5", "3.0.0"] {
            let lines: Vec<String> = vec![
                format!("case kind={kind} scripted old-layout-upgrade v={v}"),
                format!("block h=100 t={t0}"),
                format!("inst s={STUB_A} funds=- minter={STUB_A} creator=10 desc=1:40 image=0 ext=7 ec=0 stt=- roy=40:{}", 5 * p),
                format!("mint s={STUB_A} funds=- id=1 owner=20 uri=1 ext=0"),
                "utm s=10 funds=- id=1 uri=31".into(),
                "freeze_meta s=10 funds=-".into(),
                "freeze s=10 funds=-".into(),
                format!("setver v={v} drop=1"),
                // the item is absent: a royalty change cannot even be evaluated; a plain update is refused because frozen
                format!("uci s=10 funds=- direct=0 desc=- image=- ext=- ec=- roy=41:{} creator=-", 4 * p),
                "uci s=10 funds=- direct=0 desc=5:10 image=- ext=- ec=- roy=- creator=-".into(),
                format!("block h=101 t={}", t0 + 3 * day),
                "migrate to=updatable".into(),
                "uci s=10 funds=- direct=0 desc=5:10 image=- ext=- ec=1 roy=- creator=-".into(),
                format!("uci s=10 funds=- direct=0 desc=- image=- ext=- ec=- roy=41:{} creator=-", 4 * p),
                "utm s=10 funds=- id=1 uri=38".into(),
                "freeze s=10 funds=-".into(),
                "freeze_meta s=10 funds=-".into(),
                // a second upgrade of the now-updatable collection, again from the old layout
                format!("setver v={v} drop=1"),
                format!("block h=102 t={}", t0 + 5 * day),
                "migrate to=updatable".into(),
                "uci s=10 funds=- direct=0 desc=5:10 image=- ext=- ec=1 roy=- creator=-".into(),
                "utm s=10 funds=- id=1 uri=39".into(),
                // item absent but stored version >= 3.1.0 (not a layout any release wrote; the upgrade does not run, the item stays absent)
                "setver v=3.1.0 drop=1".into(),
                "migrate to=updatable".into(),
                format!("uci s=10 funds=- direct=0 desc=- image=- ext=- ec=- roy=41:{} creator=-", 4 * p),
                "uci s=10 funds=- direct=0 desc=5:10 image=- ext=- ec=1 roy=- creator=-".into(),
                "utm s=10 funds=- id=1 uri=40".into(),
                format!("mint s={STUB_A} funds=- id=2 owner=21 uri=2 ext=0"),
            ];
            run_lines(ses, sut, &lines);
        }
        // the same without the freezes: the upgrade must not freeze or change anything either, and a royalty change works again afterwards
        let lines: Vec<String> = vec![
            format!("case kind={kind} scripted old-layout-upgrade unfrozen"),
            format!("block h=100 t={t0}"),
            format!("inst s={STUB_A} funds=- minter={STUB_A} creator=10 desc=1:40 image=0 ext=7 ec=0 stt=- roy=40:{}", 5 * p),
            format!("mint s={STUB_A} funds=- id=1 owner=20 uri=1 ext=0"),
            "setver v=3.0.5 drop=1".into(),
            format!("block h=101 t={}", t0 + 3 * day),
            format!("uci s=10 funds=- direct=0 desc=- image=- ext=- ec=- roy=41:{} creator=-", 4 * p),
            "migrate to=updatable".into(),
            format!("uci s=10 funds=- direct=0 desc=- image=- ext=- ec=- roy=41:{} creator=-", 4 * p),
            "uci s=10 funds=- direct=0 desc=5:10 image=- ext=- ec=1 roy=- creator=-".into(),
            "freeze s=10 funds=-".into(),
        ];
        run_lines(ses, sut, &lines);
    }
    // 8. more tokens than one page of AllTokens (default 10, explicit 100): count = number of existing tokens
    for kind in ["base", "nt"] {
        let mut lines: Vec<String> = vec![
            format!("case kind={kind} scripted paging"),
            format!("block h=100 t={t0}"),
            format!("inst s={STUB_A} funds=- minter={STUB_A} creator=10 desc=1:40 image=0 ext=- ec=- stt=- roy=-"),
        ];
        for i in 1..=103u64 {
            lines.push(format!("mint s={STUB_A} funds=- id={i} owner={} uri=- ext=0", 20 + i % 4));
        }
        lines.push(format!("mint s={STUB_A} funds=- id=100 owner=20 uri=- ext=0"));
        lines.push("burn s=21 funds=- id=101".into());
        lines.push("burn s=20 funds=- id=101".into());
        lines.push("burn s=20 funds=- id=100".into());
        lines.push(format!("mint s={STUB_A} funds=- id=101 owner=22 uri=- ext=0"));
        run_lines(ses, sut, &lines);
    }
    // 9. message variants the protocol has no name for (found in a schema at start-up; none on the unchanged tree): every role
    //    sends them, before and after the freezes, on a collection with tokens
    let sf = sut.sf.clone();
    for kind in KINDS {
        for v in sf.unknown.get(kind).cloned().unwrap_or_default() {
            let mut lines: Vec<String> = vec![
                format!("case kind={kind} scripted raw-{v}"),
                format!("block h=100 t={t0}"),
                format!("inst s={STUB_A} funds=- minter={STUB_A} creator=10 desc=1:40 image=0 ext=- ec=- stt=- roy=-"),
                format!("mint s={STUB_A} funds=- id=1 owner=20 uri=1 ext=0"),
                format!("mint s={STUB_A} funds=- id=2 owner=21 uri=2 ext=0"),
            ];
            for round in 0..2 {
                for s in [STRANGER, 20, 21, 10, STUB_A, STUB_B] {
                    for k in 1..=2 {
                        lines.push(format!("raw s={s} funds=- v={v} k={k}"));
                    }
                }
                if round == 0 {
                    lines.push("freeze s=10 funds=-".into());
                    lines.push("freeze_meta s=10 funds=-".into());
                }
            }
            run_lines(ses, sut, &lines);
        }
    }
    ses.mark("scripted:all");
}

fn main() {
    let mut ses = Session::new("C09");
    let sf = Surface::load();
    let mut sut = S::new(sf.clone());
    if ses.maybe_replay(&mut sut) {
        ses.finish(&mut sut);
    }
    let mut g = G { rng: ses.rng.fork(), h: 100, t: T0, sf: sf.clone() };
    surface_check(&mut ses, &sf);
    scripted(&mut ses, &mut sut);
    let per_kind = ses.scale(500, 6000);
    for kind in KINDS {
        for i in 0..per_kind {
            let n_ops = 30 + g.rng.below(60);
            random_case(&mut ses, &mut sut, &mut g, kind, n_ops, &format!("random i={i}"));
        }
    }
    let depth = if ses.tier() == Tier::Thorough { 3 } else { 2 };
    for kind in KINDS {
        exhaustive(&mut ses, &mut sut, kind, depth);
    }
    // ---- coverage floor: without these the run would be vacuous for a clause of the property
    ses.require("scripted:all");
    for kind in KINDS {
        for c in [
            "mint-ok", "mint-non-minter-rejected", "mint-dup-rejected", "burn-ok", "burn-non-owner-rejected", "freeze-ok", "freeze-non-creator-rejected",
            "uci-ok", "uci-after-freeze-rejected", "uci-non-creator-rejected", "migrate-rejected",
        ] {
            ses.require(format!("req:{kind}:{c}"));
        }
        ses.require(format!("surface:{kind}:variants:"));
    }
    for kind in ["base", "onchain"] {
        for c in ["handover-proposed", "handover-accepted", "accept-expired-rejected", "accept-not-proposed-rejected", "renounce-ok", "transfer-ok"] {
            ses.require(format!("req:{kind}:{c}"));
        }
    }
    for c in [
        "utm-ok", "utm-after-freeze-rejected", "utm-non-creator-rejected", "freeze-meta-ok", "migrate-ok-with-frozen-metadata", "migrate-ok-with-frozen-info",
        "migrate-upgrade-ok", "migrate-ok-from-below-3.1.0", "transfer-ok",
    ] {
        ses.require(format!("req:updatable:{c}"));
    }
    for c in ["migrate-ok", "migrate-ok-with-frozen-info", "migrate-ok-from-below-3.1.0", "more-than-100-tokens"] {
        ses.require(format!("req:base:{c}"));
    }
    // the faithful old-layout histories: freeze(s) -> setver <3.1.0 with the item removed -> accepted migrate -> creator's update refused
    for c in ["migrate-ok-old-layout", "migrate-ok-old-layout-frozen-info"] {
        ses.require(format!("req:base:{c}"));
    }
    for c in [
        "migrate-ok-old-layout", "migrate-ok-old-layout-frozen-info", "migrate-ok-old-layout-frozen-metadata", "uci-rejected-after-old-layout-migrate",
        "utm-rejected-after-old-layout-migrate",
    ] {
        ses.require(format!("req:updatable:{c}"));
    }
    ses.require("req:onchain:migrate-upgrade-ok");
    ses.require("req:nt:transfer-by-owner-rejected");
    ses.require("req:nt:more-than-100-tokens");
    ses.note(format!(
        "4 collections x (scripted boundary scenarios incl. upgrades from older stored versions, {per_kind} random histories of 30-90 messages, every message sequence of length {depth} over a 22-line alphabet); contract panics (Extension todo!(), minus_seconds underflow) caught: {}",
        sut.panics
    ));
    ses.note("senders: minter stubs (forwarding sub-messages), creators, holders, approved spenders, operators, pending owner, strangers; clock steps to expiry/24h instants -1/0/+1; zero-amount coins are not generated (cw-multi-test bank drops them)");
    ses.note("monitors compare the contract's answers with the harness's own bookkeeping (minter, proposed minter + expiry, creator, accepted freezes, ids alive and their mint recipients), not with earlier answers of the contract");
    ses.finish(&mut sut);
}
