//! C09 — collection tokens: minted only by the minter, ids unique, freezes final, nt owner constant.
//!
//! World: the REAL sg721-base / sg721-nt / sg721-updatable / sg721-metadata-onchain entry points under
//! cw-multi-test, instantiated by a tiny stub "minter" contract (sg721 requires the instantiating sender to be a
//! contract). Two stubs exist (ids 1000, 1001): messages "sent by" a stub are forwarded as `WasmMsg::Execute`
//! sub-messages, so duplicate-id mints, mints after an ownership hand-over etc. can be attempted. The stubs also
//! implement `ReceiveNft` (refusing when the payload is `fail`) so `SendNft` can be exercised both ways.
//!
//! Protocol: see lean/LaunchpadModel/Driver/C09.lean.
use std::collections::{BTreeMap, BTreeSet, HashMap};

use cosmwasm_schema::cw_serde;
use cosmwasm_std::testing::{MockApi, MockQuerier};
use cosmwasm_std::{
    to_json_binary, Addr, Binary, BlockInfo, Coin, ContractInfo, Decimal, Deps, DepsMut, Empty, Env, MessageInfo, QuerierWrapper, Response,
    StdError, StdResult, Timestamp, Uint128, WasmMsg,
};
use cw_multi_test::{BankSudo, ContractWrapper, Executor, SudoMsg};
use lp_harness::boxes::{self, custom_mock_app, App, Boxed};
use lp_harness::world::*;
use lp_harness::*;
use serde_json::{json, Value};

// ------------------------------------------------------------------------------------------------ stub minter

#[cw_serde]
pub enum StubExec {
    /// forward an arbitrary message to another contract as a sub-message
    Forward { to: String, msg: Binary, funds: Vec<Coin> },
    /// instantiate a contract (the collection) as a sub-message, so that `info.sender` is this contract
    Inst { code_id: u64, msg: Binary, admin: Option<String>, funds: Vec<Coin> },
    /// cw721 receiver hook; refuses the token when the payload is `fail`
    ReceiveNft(cw721::Cw721ReceiveMsg),
}

fn stub_instantiate(_d: DepsMut, _e: Env, _i: MessageInfo, _m: Empty) -> StdResult<Response> {
    Ok(Response::new())
}
fn stub_execute(_d: DepsMut, _e: Env, _i: MessageInfo, m: StubExec) -> StdResult<Response> {
    match m {
        StubExec::Forward { to, msg, funds } => Ok(Response::new().add_message(WasmMsg::Execute { contract_addr: to, msg, funds })),
        StubExec::Inst { code_id, msg, admin, funds } => {
            Ok(Response::new().add_message(WasmMsg::Instantiate { admin, code_id, msg, funds, label: "collection".into() }))
        }
        StubExec::ReceiveNft(r) => {
            if r.msg.as_slice() == b"fail" {
                Err(StdError::generic_err("stub refuses this token"))
            } else {
                Ok(Response::new())
            }
        }
    }
}
fn stub_query(_d: Deps, _e: Env, _m: Empty) -> StdResult<Binary> {
    to_json_binary(&Empty {})
}
fn stub_box() -> Boxed {
    Box::new(ContractWrapper::new(stub_execute, stub_instantiate, stub_query))
}

// ------------------------------------------------------------------------------------------------ naming

const CREATORS: [u64; 2] = [10, 11];
const HOLDERS: [u64; 4] = [20, 21, 22, 23];
const STRANGER: u64 = 30;
const PAYEES: [u64; 2] = [40, 41];
const ADMIN: u64 = 50;
const BANK: u64 = 60;
const INVALID: [u64; 4] = [900, 901, 902, 903];
const STUB_A: u64 = 1000;
const STUB_B: u64 = 1001;
const DAY_NS: u64 = 86_400_000_000_000;
const T0: u64 = 1_700_000_000_000_000_000;

/// ids 900..=999 are malformed address strings (rejected by `addr_validate`); everything else as in `world::addr`
fn my_addr(id: u64) -> String {
    if (900..1000).contains(&id) {
        match id % 4 {
            0 => "ab".to_string(),                 // too short
            1 => format!("Acct{:05}", id),         // not normalised (upper case)
            2 => "x".repeat(100),                  // too long
            _ => String::new(),                    // empty
        }
    } else {
        addr(id)
    }
}

fn url_str(id: u64) -> String {
    let n = id / 6;
    match id % 6 {
        0 => format!("https://example.com/{n}"),
        1 => format!("ipfs://bafy{n}/img.png"),
        2 => format!("not-a-url-{n}"),
        3 => format!("//missing-scheme/{n}"),
        4 => format!("http://[::1/{n}"),
        _ => format!("data:text/plain,{n}"),
    }
}
fn url_valid(id: u64) -> bool {
    url::Url::parse(&url_str(id)).is_ok()
}
fn desc_str(id: u64, len: u64) -> String {
    let len = len as usize;
    if len < 6 {
        return "x".repeat(len);
    }
    let head = format!("{:06}", id % 1_000_000);
    let rest = len - 6;
    let s = if id % 2 == 1 && rest % 2 == 0 { head + &"é".repeat(rest / 2) } else { head + &"x".repeat(rest) };
    assert_eq!(s.len(), len);
    s
}
fn desc_back(s: &str) -> (u64, u64) {
    let len = s.len() as u64;
    let id = if s.len() >= 6 { s.get(..6).and_then(|h| h.parse::<u64>().ok()).unwrap_or(999_999) } else { 0 };
    (id, len)
}
fn uri_str(id: u64) -> String {
    format!("ipfs://meta/{id}.json")
}
fn uri_back(s: &str) -> u64 {
    s.strip_prefix("ipfs://meta/").and_then(|r| r.strip_suffix(".json")).and_then(|n| n.parse().ok()).unwrap_or(999_999)
}
fn exp_json(e: &str) -> Value {
    match e {
        "-" => Value::Null,
        "n" => json!({"never": {}}),
        x if x.starts_with('h') => json!({"at_height": x[1..].parse::<u64>().unwrap()}),
        x if x.starts_with('t') => json!({"at_time": x[1..].to_string()}),
        _ => panic!("bad exp {e}"),
    }
}
fn exp_back(e: &cw_utils::Expiration) -> String {
    match e {
        cw_utils::Expiration::Never {} => "n".into(),
        cw_utils::Expiration::AtHeight(h) => format!("h{h}"),
        cw_utils::Expiration::AtTime(t) => format!("t{}", t.nanos()),
    }
}
fn share_str(atomics: u128) -> String {
    Decimal::new(Uint128::new(atomics)).to_string()
}

// ------------------------------------------------------------------------------------------------ observations

#[derive(Clone, PartialEq, Debug, Default)]
struct Tok {
    id: u64,
    owner: u64,
    uri: Option<u64>,
    ext: u64,
    approvals: Vec<(u64, String)>,
}
#[derive(Clone, PartialEq, Debug, Default)]
struct Obs {
    kind: String,
    owner: Option<u64>,
    pending: Option<u64>,
    pexp: Option<String>,
    fz: bool,
    rua: u64,
    creator: u64,
    desc: (u64, u64),
    img: u64,
    ext: Option<u64>,
    ec: Option<bool>,
    stt: Option<u64>,
    roy: Option<(u64, u128)>,
    n: u64,
    toks: Vec<Tok>,
    ops: Vec<(u64, u64, String)>,
    fm: bool,
    ue: bool,
    /// `Minter {}` query (monitors use this, not the raw ownership item)
    minter_q: Option<u64>,
}
impl Obs {
    fn tok(&self, id: u64) -> Option<&Tok> {
        self.toks.iter().find(|t| t.id == id)
    }
    fn editable(&self) -> (u64, (u64, u64), u64, Option<u64>, Option<bool>, Option<(u64, u128)>) {
        (self.creator, self.desc, self.img, self.ext, self.ec, self.roy)
    }
    fn render(&self) -> String {
        let toks: Vec<String> = self
            .toks
            .iter()
            .map(|t| {
                let aps: Vec<String> = t.approvals.iter().map(|(s, e)| format!("{s}@{e}")).collect();
                format!("{}/{}/{}/{}/{}", t.id, t.owner, fmt_opt(&t.uri), t.ext, if aps.is_empty() { "-".into() } else { aps.join("+") })
            })
            .collect();
        let ops: Vec<String> = self.ops.iter().map(|(o, p, e)| format!("{o}>{p}@{e}")).collect();
        let ob = |b: &Option<bool>| match b {
            None => "-",
            Some(true) => "1",
            Some(false) => "0",
        };
        format!(
            "k={} own={}/{}/{} fz={} rua={} cr={} desc={}:{} img={} ext={} ec={} stt={} roy={} n={} toks={} ops={} fm={} ue={}",
            self.kind,
            fmt_opt(&self.owner),
            fmt_opt(&self.pending),
            self.pexp.clone().unwrap_or("-".into()),
            self.fz as u8,
            self.rua,
            self.creator,
            self.desc.0,
            self.desc.1,
            self.img,
            fmt_opt(&self.ext),
            ob(&self.ec),
            fmt_opt(&self.stt),
            self.roy.map(|(p, s)| format!("{p}:{s}")).unwrap_or("-".into()),
            self.n,
            if toks.is_empty() { "-".into() } else { toks.join(";") },
            if ops.is_empty() { "-".into() } else { ops.join(",") },
            self.fm as u8,
            self.ue as u8
        )
    }
}

// ------------------------------------------------------------------------------------------------ world

struct World {
    app: App,
    codes: BTreeMap<&'static str, u64>,
    #[allow(dead_code)]
    stub_code: u64,
    coll: Option<Addr>,
    urls: HashMap<String, u64>,
}

impl World {
    fn new() -> World {
        let mut app = custom_mock_app();
        let mut codes = BTreeMap::new();
        codes.insert("base", app.store_code(boxes::sg721_base()));
        codes.insert("nt", app.store_code(boxes::sg721_nt()));
        codes.insert("updatable", app.store_code(boxes::sg721_updatable()));
        codes.insert("onchain", app.store_code(boxes::sg721_metadata_onchain()));
        let stub_code = app.store_code(stub_box());
        for id in CREATORS.iter().chain(HOLDERS.iter()).chain(PAYEES.iter()).chain([STRANGER, ADMIN, BANK].iter()) {
            for d in [0u64, 1] {
                app.sudo(SudoMsg::Bank(BankSudo::Mint { to_address: addr(*id), amount: vec![coin_of(d, 10u128.pow(24))] })).unwrap();
            }
        }
        let sa = app.instantiate_contract(stub_code, a(ADMIN), &Empty {}, &[], "stub-a", None).unwrap();
        let sb = app.instantiate_contract(stub_code, a(ADMIN), &Empty {}, &[], "stub-b", None).unwrap();
        assert_eq!(sa.as_str(), addr(STUB_A));
        assert_eq!(sb.as_str(), addr(STUB_B));
        let mut w = World { app, codes, stub_code, coll: None, urls: HashMap::new() };
        w.set_block(1, 1); // the model driver's default block
        for id in 0..60 {
            w.urls.insert(url_str(id), id);
        }
        w
    }

    fn url_id(&self, s: &str) -> u64 {
        *self.urls.get(s).unwrap_or(&999_999)
    }

    fn set_block(&mut self, h: u64, t: u64) {
        self.app.set_block(BlockInfo { height: h, time: Timestamp::from_nanos(t), chain_id: "verif-1".into() });
    }

    /// run `msg` against `target` with `sender` (through the stub when the sender is a stub contract)
    fn send(&mut self, sender: u64, target: &Addr, msg: &Value, funds: &[Coin]) -> bool {
        self.fund(sender, funds);
        if sender == STUB_A || sender == STUB_B {
            let fwd = StubExec::Forward { to: target.to_string(), msg: to_json_binary(msg).unwrap(), funds: funds.to_vec() };
            self.app.execute_contract(a(BANK), a(sender), &fwd, funds).is_ok()
        } else {
            self.app.execute_contract(a(sender), target.clone(), msg, funds).is_ok()
        }
    }

    /// environment assumption: whoever signs a message owns the coins attached to it
    fn fund(&mut self, sender: u64, funds: &[Coin]) {
        if !funds.is_empty() {
            let payer = if sender == STUB_A || sender == STUB_B { BANK } else { sender };
            self.app.sudo(SudoMsg::Bank(BankSudo::Mint { to_address: addr(payer), amount: funds.to_vec() })).unwrap();
        }
    }

    fn instantiate(&mut self, kind: &str, sender: u64, msg: &Value, funds: &[Coin]) -> bool {
        self.fund(sender, funds);
        let code_id = self.codes[kind];
        if sender == STUB_A || sender == STUB_B {
            let m = StubExec::Inst { code_id, msg: to_json_binary(msg).unwrap(), admin: Some(addr(ADMIN)), funds: funds.to_vec() };
            match self.app.execute_contract(a(BANK), a(sender), &m, funds) {
                Ok(res) => {
                    let ev = res.events.iter().find(|e| e.ty == "instantiate").expect("instantiate event");
                    let ad = ev.attributes.iter().find(|x| x.key == "_contract_address").expect("address attr").value.clone();
                    self.coll = Some(Addr::unchecked(ad));
                    true
                }
                Err(_) => false,
            }
        } else {
            match self.app.instantiate_contract(code_id, a(sender), msg, funds, "collection", Some(addr(ADMIN))) {
                Ok(ad) => {
                    self.coll = Some(ad);
                    true
                }
                Err(_) => false,
            }
        }
    }

    fn raw(&self, key: &[u8]) -> Option<Vec<u8>> {
        let c = self.coll.as_ref()?;
        self.app.wrap().query_wasm_raw(c.to_string(), key.to_vec()).ok().flatten()
    }
    fn raw_json(&self, key: &[u8]) -> Option<Value> {
        self.raw(key).and_then(|v| serde_json::from_slice(&v).ok())
    }
    fn q(&self, msg: Value) -> Value {
        let c = self.coll.as_ref().unwrap();
        self.app.wrap().query_wasm_smart::<Value>(c.to_string(), &msg).unwrap_or_else(|e| panic!("query {msg} failed: {e}"))
    }

    fn observe(&self) -> Option<Obs> {
        let coll = self.coll.as_ref()?;
        let mut o = Obs::default();
        let cw2 = self.raw_json(b"contract_info").expect("cw2");
        o.kind = match cw2["contract"].as_str().unwrap() {
            "crates.io:sg721-base" => "base",
            "crates.io:sg721-nt" => "nt",
            "crates.io:sg721-updatable" => "updatable",
            "crates.io:sg721-metadata-onchain" => "onchain",
            x => x,
        }
        .to_string();
        let own = self.raw_json(b"ownership").expect("ownership");
        let oa = |v: &Value| v.as_str().map(addr_id);
        o.owner = oa(&own["owner"]);
        o.pending = oa(&own["pending_owner"]);
        o.pexp = if own["pending_expiry"].is_null() {
            None
        } else {
            Some(exp_back(&serde_json::from_value::<cw_utils::Expiration>(own["pending_expiry"].clone()).unwrap()))
        };
        o.fz = self.raw_json(b"frozen_collection_info").and_then(|v| v.as_bool()).expect("frozen flag");
        o.rua = self.raw_json(b"royalty_updated_at").and_then(|v| v.as_str().map(|s| s.parse::<u64>().unwrap())).expect("rua");
        o.fm = self.raw_json(b"frozen_token_metadata").and_then(|v| v.as_bool()).unwrap_or(false);
        o.ue = self.raw_json(b"enable_updatable").and_then(|v| v.as_bool()).unwrap_or(false);
        let ci = self.q(json!({"collection_info": {}}));
        o.creator = addr_id(ci["creator"].as_str().unwrap());
        o.desc = desc_back(ci["description"].as_str().unwrap());
        o.img = self.url_id(ci["image"].as_str().unwrap());
        o.ext = ci["external_link"].as_str().map(|s| self.url_id(s));
        o.ec = ci["explicit_content"].as_bool();
        o.stt = ci["start_trading_time"].as_str().map(|s| s.parse().unwrap());
        o.roy = if ci["royalty_info"].is_null() {
            None
        } else {
            let sh: Decimal = ci["royalty_info"]["share"].as_str().unwrap().parse().unwrap();
            Some((addr_id(ci["royalty_info"]["payment_address"].as_str().unwrap()), sh.atomics().u128()))
        };
        o.n = self.q(json!({"num_tokens": {}}))["count"].as_u64().unwrap();
        o.minter_q = self.q(json!({"minter": {}}))["minter"].as_str().map(addr_id);
        // all tokens, paged
        let mut ids: Vec<String> = vec![];
        let mut after: Option<String> = None;
        loop {
            let r = self.q(json!({"all_tokens": {"start_after": after, "limit": 100}}));
            let page: Vec<String> = r["tokens"].as_array().unwrap().iter().map(|x| x.as_str().unwrap().to_string()).collect();
            if page.is_empty() {
                break;
            }
            after = page.last().cloned();
            let full = page.len() == 100;
            ids.extend(page);
            if !full {
                break;
            }
        }
        for tid in ids {
            let ow = self.q(json!({"owner_of": {"token_id": tid, "include_expired": true}}));
            let ni = self.q(json!({"nft_info": {"token_id": tid}}));
            let approvals = ow["approvals"]
                .as_array()
                .unwrap()
                .iter()
                .map(|ap| {
                    (addr_id(ap["spender"].as_str().unwrap()), exp_back(&serde_json::from_value::<cw_utils::Expiration>(ap["expires"].clone()).unwrap()))
                })
                .collect();
            let ext = ni["extension"]["name"].as_str().and_then(|s| s.strip_prefix('n')).and_then(|n| n.parse().ok()).unwrap_or(0);
            o.toks.push(Tok {
                id: tid.parse().unwrap_or(999_999),
                owner: addr_id(ow["owner"].as_str().unwrap()),
                uri: ni["token_uri"].as_str().map(uri_back),
                ext,
                approvals,
            });
        }
        o.toks.sort_by_key(|t| t.id);
        // operators: raw dump of the `operators` map: [0,9]"operators"[0,len]owner operator
        let pre: Vec<u8> = [&[0u8, 9][..], b"operators"].concat();
        for (k, v) in self.app.dump_wasm_raw(coll) {
            if k.len() > pre.len() + 2 && k[..pre.len()] == pre[..] {
                let rest = &k[pre.len()..];
                let l = ((rest[0] as usize) << 8) | rest[1] as usize;
                let owner = std::str::from_utf8(&rest[2..2 + l]).unwrap();
                let oper = std::str::from_utf8(&rest[2 + l..]).unwrap();
                let e: cw_utils::Expiration = serde_json::from_slice(&v).unwrap();
                o.ops.push((addr_id(owner), addr_id(oper), exp_back(&e)));
            }
        }
        o.ops.sort();
        Some(o)
    }
}

/// JSON of the message for protocol line `line`, as a client of the collection kind `cur_kind` would encode it,
/// plus the witness fields for the model (`recv=`, `iv=`/`ev=`).
fn build_msg(op: &str, line: &str, cur_kind: &str) -> Option<(Value, String)> {
    let id = || kv_u64(line, "id").unwrap().to_string();
    let mut witness = String::new();
    let nt = cur_kind == "nt";
    let msg: Value = match op {
        "transfer" => json!({"transfer_nft": {"recipient": my_addr(kv_u64(line, "to").unwrap()), "token_id": id()}}),
        "send" => {
            let to = kv_u64(line, "to").unwrap();
            let fail = kv_u64(line, "payload").unwrap() == 0;
            let recv = (to == STUB_A || to == STUB_B) && !fail;
            witness = format!(" recv={}", recv as u8);
            json!({"send_nft": {"contract": my_addr(to), "token_id": id(), "msg": Binary::from(if fail { &b"fail"[..] } else { &b"fine"[..] })}})
        }
        "approve" => json!({"approve": {"spender": my_addr(kv_u64(line, "sp").unwrap()), "token_id": id(), "expires": exp_json(kv(line, "exp").unwrap())}}),
        "revoke" => json!({"revoke": {"spender": my_addr(kv_u64(line, "sp").unwrap()), "token_id": id()}}),
        "approve_all" => json!({"approve_all": {"operator": my_addr(kv_u64(line, "op").unwrap()), "expires": exp_json(kv(line, "exp").unwrap())}}),
        "revoke_all" => json!({"revoke_all": {"operator": my_addr(kv_u64(line, "op").unwrap())}}),
        "mint" => {
            let ext = kv_u64(line, "ext").unwrap();
            let extension = if cur_kind == "onchain" {
                if ext > 0 {
                    json!({"name": format!("n{ext}")})
                } else {
                    json!({})
                }
            } else {
                Value::Null
            };
            json!({"mint": {"token_id": id(), "owner": my_addr(kv_u64(line, "owner").unwrap()),
                "token_uri": kv_opt_u64(line, "uri").unwrap().map(uri_str), "extension": extension}})
        }
        "burn" => json!({"burn": {"token_id": id()}}),
        "extension" => json!({"extension": {"msg": {}}}),
        "uci" => {
            let iv = kv_opt_u64(line, "image").unwrap().map(url_valid).unwrap_or(true);
            let extv = match kv(line, "ext").unwrap() {
                "-" | "none" => true,
                v => url_valid(v.parse().unwrap()),
            };
            witness = format!(" iv={} ev={}", iv as u8, extv as u8);
            let ext = match kv(line, "ext").unwrap() {
                "-" | "none" => Value::Null,
                v => json!(url_str(v.parse().unwrap())),
            };
            let roy = match kv(line, "roy").unwrap() {
                "-" | "none" => Value::Null,
                v => {
                    let (p, s) = v.split_once(':').unwrap();
                    json!({"payment_address": my_addr(p.parse().unwrap()), "share": share_str(s.parse().unwrap())})
                }
            };
            let ci = json!({
                "description": opt_s(line, "desc").map(|v| { let (x, y) = v.split_once(':').unwrap(); desc_str(x.parse().unwrap(), y.parse().unwrap()) }),
                "image": kv_opt_u64(line, "image").unwrap().map(url_str),
                "external_link": ext,
                "explicit_content": match kv(line, "ec").unwrap() { "-" => Value::Null, "1" => json!(true), _ => json!(false) },
                "royalty_info": roy,
                "creator": kv_opt_u64(line, "creator").unwrap().map(my_addr),
            });
            if nt {
                json!({"update_collection_info": {"new_collection_info": ci}})
            } else {
                json!({"update_collection_info": {"collection_info": ci}})
            }
        }
        "ustt" => json!({"update_start_trading_time": kv_opt_u64(line, "t").unwrap().map(|t| t.to_string())}),
        // `FreezeCollectionInfo` is a unit variant in sg721::ExecuteMsg, a struct variant in the nt/updatable enums
        "freeze" => {
            if cur_kind == "base" || cur_kind == "onchain" {
                json!("freeze_collection_info")
            } else {
                json!({"freeze_collection_info": {}})
            }
        }
        "own_transfer" => json!({"update_ownership": {"transfer_ownership": {"new_owner": my_addr(kv_u64(line, "to").unwrap()), "expiry": exp_json(kv(line, "exp").unwrap())}}}),
        "own_accept" => json!({"update_ownership": "accept_ownership"}),
        "own_renounce" => json!({"update_ownership": "renounce_ownership"}),
        "freeze_meta" => json!({"freeze_token_metadata": {}}),
        "utm" => json!({"update_token_metadata": {"token_id": id(), "token_uri": kv_opt_u64(line, "uri").unwrap().map(uri_str)}}),
        "enable" => json!({"enable_updatable": {}}),
        _ => return None,
    };
    Some((msg, witness))
}

// ------------------------------------------------------------------------------------------------ message surface

/// One sample protocol line per message kind of the protocol.
const SAMPLES: [&str; 18] = [
    "transfer s=20 funds=- to=21 id=1",
    "send s=20 funds=- to=1001 id=1 payload=1",
    "approve s=20 funds=- sp=22 id=1 exp=h5",
    "revoke s=20 funds=- sp=22 id=1",
    "approve_all s=20 funds=- op=22 exp=t7",
    "revoke_all s=20 funds=- op=22",
    "mint s=1000 funds=- id=1 owner=20 uri=3 ext=2",
    "burn s=20 funds=- id=1",
    "extension s=20 funds=-",
    "uci s=10 funds=- direct=0 desc=1:10 image=0 ext=1 ec=1 roy=40:5 creator=11",
    "ustt s=1000 funds=- t=5",
    "freeze s=10 funds=-",
    "own_transfer s=1000 funds=- to=20 exp=n",
    "own_accept s=20 funds=-",
    "own_renounce s=1000 funds=-",
    "freeze_meta s=10 funds=-",
    "utm s=10 funds=- id=1 uri=4",
    "enable s=10 funds=-",
];

// Wildcard-free matches: adding, removing or renaming a variant of any of the three `ExecuteMsg` enums makes this
// file fail to compile (reported by ./check as a broken correspondence) instead of being silently ignored.
fn op_of_sg721(m: &sg721::ExecuteMsg<sg_metadata::Metadata, Empty>) -> &'static str {
    use sg721::ExecuteMsg as M;
    match m {
        M::TransferNft { .. } => "transfer",
        M::SendNft { .. } => "send",
        M::Approve { .. } => "approve",
        M::Revoke { .. } => "revoke",
        M::ApproveAll { .. } => "approve_all",
        M::RevokeAll { .. } => "revoke_all",
        M::Mint { .. } => "mint",
        M::Burn { .. } => "burn",
        M::Extension { .. } => "extension",
        M::UpdateCollectionInfo { .. } => "uci",
        M::UpdateStartTradingTime(_) => "ustt",
        M::FreezeCollectionInfo => "freeze",
        M::UpdateOwnership(cw_ownable::Action::TransferOwnership { .. }) => "own_transfer",
        M::UpdateOwnership(cw_ownable::Action::AcceptOwnership) => "own_accept",
        M::UpdateOwnership(cw_ownable::Action::RenounceOwnership) => "own_renounce",
    }
}
fn op_of_nt(m: &sg721_nt::msg::ExecuteMsg<cw721_base::Extension>) -> &'static str {
    use sg721_nt::msg::ExecuteMsg as M;
    match m {
        M::Mint { .. } => "mint",
        M::Burn { .. } => "burn",
        M::UpdateCollectionInfo { .. } => "uci",
        M::FreezeCollectionInfo {} => "freeze",
    }
}
fn op_of_updatable(m: &sg721_updatable::msg::ExecuteMsg<cw721_base::Extension, Empty>) -> &'static str {
    use sg721_updatable::msg::ExecuteMsg as M;
    match m {
        M::FreezeTokenMetadata {} => "freeze_meta",
        M::UpdateTokenMetadata { .. } => "utm",
        M::EnableUpdatable {} => "enable",
        M::TransferNft { .. } => "transfer",
        M::SendNft { .. } => "send",
        M::Approve { .. } => "approve",
        M::Revoke { .. } => "revoke",
        M::ApproveAll { .. } => "approve_all",
        M::RevokeAll { .. } => "revoke_all",
        M::Burn { .. } => "burn",
        M::UpdateCollectionInfo { .. } => "uci",
        M::UpdateStartTradingTime(_) => "ustt",
        M::FreezeCollectionInfo {} => "freeze",
        M::Mint { .. } => "mint",
        M::Extension { .. } => "extension",
    }
}

/// The message surface the model assumes (`LP.Sg721.supported`), checked against the real enums: every sample line
/// is encoded as the harness encodes it and decoded with the contract's own deserialiser (serde-json-wasm).
fn surface_check(ses: &mut Session) {
    let model_supported = |kind: &str, op: &str| -> bool {
        match kind {
            "nt" => matches!(op, "mint" | "burn" | "uci" | "freeze"),
            "updatable" => !op.starts_with("own_"),
            _ => !matches!(op, "freeze_meta" | "utm" | "enable"),
        }
    };
    for kind in ["base", "nt", "updatable", "onchain"] {
        for line in SAMPLES {
            let op = line.split_whitespace().next().unwrap();
            let (msg, _) = build_msg(op, line, kind).unwrap();
            let bytes = serde_json::to_vec(&msg).unwrap();
            let decoded: Option<&'static str> = match kind {
                "base" => cosmwasm_std::from_json::<sg721::ExecuteMsg<cw721_base::Extension, Empty>>(&bytes).ok().map(|_| {
                    // same enum as onchain up to the extension type; map the variant through the onchain decoding
                    cosmwasm_std::from_json::<sg721::ExecuteMsg<sg_metadata::Metadata, Empty>>(
                        &serde_json::to_vec(&build_msg(op, line, "onchain").unwrap().0).unwrap(),
                    )
                    .map(|m| op_of_sg721(&m))
                    .unwrap_or("?")
                }),
                "onchain" => cosmwasm_std::from_json::<sg721::ExecuteMsg<sg_metadata::Metadata, Empty>>(&bytes).ok().map(|m| op_of_sg721(&m)),
                "nt" => cosmwasm_std::from_json::<sg721_nt::msg::ExecuteMsg<cw721_base::Extension>>(&bytes).ok().map(|m| op_of_nt(&m)),
                _ => cosmwasm_std::from_json::<sg721_updatable::msg::ExecuteMsg<cw721_base::Extension, Empty>>(&bytes).ok().map(|m| op_of_updatable(&m)),
            };
            let want = if model_supported(kind, op) { Some(op) } else { None };
            assert_eq!(decoded, want, "message surface of sg721-{kind} differs from the model for `{line}` (json {msg})");
            ses.mark(format!("surface:{kind}:{op}:{}", decoded.is_some()));
        }
    }
}

// ------------------------------------------------------------------------------------------------ Sut

#[derive(Clone, Debug, Default)]
struct Last {
    line: String,
    op: String,
    ok: bool,
    before: Option<Obs>,
    after: Option<Obs>,
}

struct S {
    kind: String,
    w: World,
    /// lines executed so far in this case without panicking (for rebuilding the world after a contract panic)
    log: Vec<String>,
    cur: Option<Obs>,
    last: Option<Last>,
    /// creator-editable fields as they were when FreezeCollectionInfo succeeded
    frozen_info: Option<(u64, (u64, u64), u64, Option<u64>, Option<bool>, Option<(u64, u128)>)>,
    meta_frozen: bool,
    panics: u64,
}

fn funds_of(line: &str) -> Vec<Coin> {
    coins_of(&kv_pairs(line, "funds").unwrap_or_default())
}
fn opt_s(line: &str, key: &str) -> Option<String> {
    let v = kv(line, key)?;
    if v == "-" {
        None
    } else {
        Some(v.to_string())
    }
}

impl S {
    fn new() -> S {
        S { kind: "base".into(), w: World::new(), log: vec![], cur: None, last: None, frozen_info: None, meta_frozen: false, panics: 0 }
    }

    fn info_json(&self, line: &str, with_stt: bool) -> (Value, bool, bool) {
        // returns (collection info JSON, image valid, ext valid)
        let (did, dlen) = kv(line, "desc").and_then(|v| v.split_once(':')).map(|(x, y)| (x.parse::<u64>().unwrap(), y.parse::<u64>().unwrap())).unwrap();
        let img = kv_u64(line, "image").unwrap();
        let ext = kv_opt_u64(line, "ext").unwrap();
        let ec = match kv(line, "ec").unwrap() {
            "-" => Value::Null,
            "1" => json!(true),
            _ => json!(false),
        };
        let roy = match opt_s(line, "roy") {
            None => Value::Null,
            Some(v) => {
                let (p, s) = v.split_once(':').unwrap();
                json!({"payment_address": my_addr(p.parse().unwrap()), "share": share_str(s.parse().unwrap())})
            }
        };
        let mut j = json!({
            "creator": my_addr(kv_u64(line, "creator").unwrap()),
            "description": desc_str(did, dlen),
            "image": url_str(img),
            "external_link": ext.map(url_str),
            "explicit_content": ec,
            "royalty_info": roy,
        });
        if with_stt {
            j["start_trading_time"] = match kv_opt_u64(line, "stt").unwrap() {
                Some(t) => json!(t.to_string()),
                None => Value::Null,
            };
        }
        (j, url_valid(img), ext.map(url_valid).unwrap_or(true))
    }

    /// execute one line on the real contracts; returns (model line, ok)
    fn run_line(&mut self, line: &str) -> (String, Option<bool>) {
        let op = line.split_whitespace().next().unwrap_or("");
        match op {
            "block" => {
                self.w.set_block(kv_u64(line, "h").unwrap(), kv_u64(line, "t").unwrap());
                (line.to_string(), None)
            }
            "inst" => {
                let (ci, iv, ev) = self.info_json(line, true);
                let msg = json!({"name": "Collection", "symbol": "COL", "minter": my_addr(kv_u64(line, "minter").unwrap()), "collection_info": ci});
                let kind = self.kind.clone();
                let ok = self.w.instantiate(&kind, kv_u64(line, "s").unwrap(), &msg, &funds_of(line));
                if ok {
                    self.frozen_info = None;
                    self.meta_frozen = false;
                }
                (format!("{line} iv={} ev={}", iv as u8, ev as u8), Some(ok))
            }
            "migrate" => {
                let ok = match self.w.coll.clone() {
                    Some(c) => {
                        let code = self.w.codes["updatable"];
                        self.w.app.migrate_contract(a(ADMIN), c, &Empty {}, code).is_ok()
                    }
                    None => false,
                };
                (line.to_string(), Some(ok))
            }
            _ => self.run_msg(op, line),
        }
    }

    fn run_msg(&mut self, op: &str, line: &str) -> (String, Option<bool>) {
        let sender = kv_u64(line, "s").unwrap();
        let funds = funds_of(line);
        // the code the contract runs NOW (a migrated sg721-base is an sg721-updatable)
        let cur_kind = self.cur.as_ref().map(|o| o.kind.clone()).unwrap_or(self.kind.clone());
        let Some((msg, witness)) = build_msg(op, line, &cur_kind) else { return (line.to_string(), None) };
        let model_line = format!("{line}{witness}");
        let Some(coll) = self.w.coll.clone() else {
            return (model_line, Some(false)); // no collection yet: nothing to call
        };
        if op == "uci" && kv_bool(line, "direct").unwrap_or(false) {
            return (model_line, Some(self.uci_direct(line, &coll, sender, funds)));
        }
        (model_line, Some(self.w.send(sender, &coll, &msg, &funds)))
    }

    /// typed call of `Sg721Contract::update_collection_info` on the collection's storage: the only way to reach
    /// `Some(None)` for `external_link` / `royalty_info` (JSON `null` deserialises to the outer `None`).
    fn uci_direct(&mut self, line: &str, coll: &Addr, sender: u64, funds: Vec<Coin>) -> bool {
        use sg721::{RoyaltyInfoResponse, UpdateCollectionInfoMsg};
        let ext = match kv(line, "ext").unwrap() {
            "-" => None,
            "none" => Some(None),
            v => Some(Some(url_str(v.parse().unwrap()))),
        };
        let roy = match kv(line, "roy").unwrap() {
            "-" => None,
            "none" => Some(None),
            v => {
                let (p, s) = v.split_once(':').unwrap();
                Some(Some(RoyaltyInfoResponse { payment_address: my_addr(p.parse().unwrap()), share: Decimal::new(Uint128::new(s.parse().unwrap())) }))
            }
        };
        let msg = UpdateCollectionInfoMsg {
            description: opt_s(line, "desc").map(|v| {
                let (x, y) = v.split_once(':').unwrap();
                desc_str(x.parse().unwrap(), y.parse().unwrap())
            }),
            image: kv_opt_u64(line, "image").unwrap().map(url_str),
            external_link: ext,
            explicit_content: match kv(line, "ec").unwrap() {
                "-" => None,
                "1" => Some(true),
                _ => Some(false),
            },
            royalty_info: roy,
            creator: kv_opt_u64(line, "creator").unwrap().map(my_addr),
        };
        let block = self.w.app.block_info();
        let env = Env { block, transaction: None, contract: ContractInfo { address: coll.clone() } };
        let api = MockApi::default();
        let mq: MockQuerier<Empty> = MockQuerier::default();
        let mut st = self.w.app.contract_storage_mut(coll);
        let deps = DepsMut { storage: &mut *st, api: &api, querier: QuerierWrapper::new(&mq) };
        sg721_base::Sg721Contract::<cw721_base::Extension>::default()
            .update_collection_info(deps, env, MessageInfo { sender: a(sender), funds }, msg)
            .is_ok()
    }

    fn rebuild(&mut self) {
        let log = std::mem::take(&mut self.log);
        self.w = World::new();
        self.cur = None;
        for l in &log {
            let _ = self.run_line(l);
            self.cur = self.w.observe(); // message encodings depend on the code the contract currently runs
        }
        self.log = log;
    }
}

impl Sut for S {
    fn begin(&mut self, header: &str) -> (String, String) {
        self.kind = kv(header, "kind").unwrap_or("base").to_string();
        self.w = World::new();
        self.log.clear();
        self.cur = None;
        self.last = None;
        self.frozen_info = None;
        self.meta_frozen = false;
        (header.to_string(), "case".to_string())
    }

    fn exec(&mut self, line: &str) -> (String, String) {
        let op = line.split_whitespace().next().unwrap_or("").to_string();
        let before = self.cur.clone();
        let saved = (self.frozen_info.clone(), self.meta_frozen);
        let r = catch(|| self.run_line(line));
        let (model_line, ok) = match r {
            Ok(x) => {
                self.log.push(line.to_string());
                x
            }
            Err(_) => {
                // contract panicked (`todo!()` in Extension): on chain that is a failed transaction
                self.panics += 1;
                self.frozen_info = saved.0;
                self.meta_frozen = saved.1;
                self.rebuild();
                let mut ml = line.to_string();
                if op == "send" {
                    ml.push_str(" recv=0");
                }
                if op == "uci" || op == "inst" {
                    ml.push_str(" iv=1 ev=1");
                }
                (ml, Some(false))
            }
        };
        let Some(ok) = ok else {
            self.last = None;
            return (model_line, if op == "block" { "blk".into() } else { "bad-op".into() });
        };
        let after = self.w.observe();
        self.cur = after.clone();
        self.last = Some(Last { line: line.to_string(), op, ok, before, after: after.clone() });
        let out = format!("{} {}", if ok { "ok" } else { "err" }, after.map(|o| o.render()).unwrap_or("-".into()));
        (model_line, out)
    }

    /// Direct transcription of the property on the implementation's own observations (queries / raw storage
    /// before and after the call), independent of the Lean model.
    fn monitor(&mut self) -> Option<(String, String)> {
        let l = self.last.clone()?;
        let after = l.after.as_ref()?;
        let kind = after.kind.clone();
        let line = &l.line;
        let bad = |p: &str, w: String| Some((format!("sg721-{kind}/{}/{p}", l.op), format!("{w} on `{line}`")));
        // token count always equals the number of existing tokens
        if after.n != after.toks.len() as u64 {
            return bad("count", format!("NumTokens={} but AllTokens has {}", after.n, after.toks.len()));
        }
        let ids_after: BTreeSet<u64> = after.toks.iter().map(|t| t.id).collect();
        if ids_after.len() != after.toks.len() {
            return bad("duplicate-id", "AllTokens lists an id twice".into());
        }
        if l.op == "inst" {
            if l.ok && !after.toks.is_empty() {
                return bad("token-created", "fresh collection already has tokens".into());
            }
            return None;
        }
        let Some(before) = l.before.as_ref() else { return None };
        let sender = kv_u64(line, "s");
        // a failed call changes nothing
        if !l.ok && before != after {
            return bad("failed-call-changed-state", format!("before `{}` after `{}`", before.render(), after.render()));
        }
        // a token can be created only by the minter, never with an id that already exists
        let ids_before: BTreeSet<u64> = before.toks.iter().map(|t| t.id).collect();
        let created: Vec<u64> = ids_after.difference(&ids_before).cloned().collect();
        if !created.is_empty() {
            let is_mint = l.op == "mint" && l.ok && created == vec![kv_u64(line, "id").unwrap_or(u64::MAX)];
            if !is_mint {
                return bad("token-created", format!("tokens {:?} appeared without a mint of exactly that id", created));
            }
        }
        if l.op == "mint" && l.ok {
            let id = kv_u64(line, "id").unwrap();
            if before.minter_q.is_none() || before.minter_q != sender {
                return bad("non-minter", format!("mint succeeded for sender {:?} while the minter was {:?}", sender, before.minter_q));
            }
            if ids_before.contains(&id) {
                return bad("duplicate-id", format!("mint of existing id {id} succeeded"));
            }
            if !ids_after.contains(&id) {
                return bad("mint-lost", format!("mint of {id} succeeded but the token does not exist"));
            }
        }
        // once the creator froze collection info no later call changes any creator-editable field
        if before.fz && !after.fz {
            return bad("unfrozen", "frozen_collection_info went back to false".into());
        }
        if let Some(snap) = &self.frozen_info {
            if &after.editable() != snap {
                return bad("frozen-info-changed", format!("creator-editable fields changed after the freeze: {:?} -> {:?}", snap, after.editable()));
            }
        }
        if l.op == "freeze" && l.ok {
            if before.creator != sender.unwrap_or(u64::MAX) {
                return bad("non-creator", "FreezeCollectionInfo by a non-creator succeeded".into());
            }
            if !after.fz {
                return bad("not-frozen", "FreezeCollectionInfo succeeded but the flag is false".into());
            }
            if self.frozen_info.is_none() {
                self.frozen_info = Some(after.editable());
            }
        }
        if l.op == "uci" && l.ok && (before.fz || before.creator != sender.unwrap_or(u64::MAX)) {
            return bad("guard", "UpdateCollectionInfo succeeded while frozen or from a non-creator".into());
        }
        // token metadata: updates need the creator and an existing token; after the freeze no URI changes again
        let mut uri_changed: Vec<u64> = vec![];
        for t in &before.toks {
            if let Some(t2) = after.tok(t.id) {
                if t2.uri != t.uri {
                    uri_changed.push(t.id);
                }
            }
        }
        if before.fm && !after.fm {
            return bad("meta-unfrozen", "frozen_token_metadata went back to false".into());
        }
        if self.meta_frozen && (!uri_changed.is_empty() || (l.op == "utm" && l.ok)) {
            return bad("frozen-uri-changed", format!("token URIs {:?} changed / update accepted after FreezeTokenMetadata", uri_changed));
        }
        if l.op == "freeze_meta" && l.ok {
            if before.creator != sender.unwrap_or(u64::MAX) {
                return bad("non-creator", "FreezeTokenMetadata by a non-creator succeeded".into());
            }
            self.meta_frozen = true;
        }
        if l.op == "utm" && l.ok {
            let id = kv_u64(line, "id").unwrap();
            if before.creator != sender.unwrap_or(u64::MAX) || !ids_before.contains(&id) || kind != "updatable" {
                return bad("guard", "UpdateTokenMetadata succeeded for a non-creator / missing token / non-updatable collection".into());
            }
        }
        if !uri_changed.is_empty() {
            let legit = l.op == "utm" && l.ok && uri_changed == vec![kv_u64(line, "id").unwrap_or(u64::MAX)];
            if !legit {
                return bad("uri-changed", format!("URIs of {:?} changed without an UpdateTokenMetadata of that token", uri_changed));
            }
        }
        // non-transferable collection: the owner never changes between mint and burn; only the owner burns
        if kind == "nt" {
            for t in &before.toks {
                if let Some(t2) = after.tok(t.id) {
                    if t2.owner != t.owner {
                        return bad("owner-changed", format!("token {} moved from {} to {}", t.id, t.owner, t2.owner));
                    }
                }
            }
            if l.op == "burn" && l.ok {
                let id = kv_u64(line, "id").unwrap();
                if before.tok(id).map(|t| t.owner) != sender {
                    return bad("burn-by-non-owner", format!("token {id} burned by {:?}", sender));
                }
            }
        }
        None
    }
}

// ------------------------------------------------------------------------------------------------ generators

struct G {
    rng: Rng,
    h: u64,
    t: u64,
}

fn parse_exp(e: &str) -> Option<(char, u64)> {
    if e == "n" {
        None
    } else {
        Some((e.chars().next().unwrap(), e[1..].parse().unwrap()))
    }
}

impl G {
    fn any_sender(&mut self) -> u64 {
        let all = [10, 11, 20, 21, 22, 23, 30, 40, 50, STUB_A, STUB_B];
        *self.rng.pick(&all)
    }
    fn any_target(&mut self, o: Option<&Obs>) -> u64 {
        let _ = o;
        match self.rng.below(12) {
            0 => *self.rng.pick(&INVALID),
            1 => STUB_A,
            2 => STUB_B,
            3 => 1002, // (usually) the collection itself
            4 => 10,
            _ => *self.rng.pick(&HOLDERS),
        }
    }
    fn funds(&mut self) -> String {
        match self.rng.below(12) {
            0 => "0:5".into(),
            1 => "1:7".into(),
            _ => "-".into(),
        }
    }
    fn exp(&mut self) -> String {
        match self.rng.below(10) {
            0 | 1 => "-".into(),
            2 => "n".into(),
            3 => format!("h{}", self.h),
            4 => format!("h{}", self.h + 1),
            5 => format!("h{}", self.h + self.rng.range(2, 6)),
            6 => format!("t{}", self.t),
            7 => format!("t{}", self.t + 1),
            8 => format!("t{}", self.t + self.rng.range(2, 5) * 1_000_000_000),
            _ => format!("h{}", self.h.saturating_sub(1)),
        }
    }
    fn token_id(&mut self, o: &Obs, want_existing: bool) -> u64 {
        if want_existing && !o.toks.is_empty() {
            let i = self.rng.below(o.toks.len() as u64) as usize;
            o.toks[i].id
        } else {
            let free: Vec<u64> = (1..=9).filter(|i| o.tok(*i).is_none()).collect();
            if free.is_empty() || self.rng.chance(1, 10) {
                self.rng.range(1, 12)
            } else {
                *self.rng.pick(&free)
            }
        }
    }
    /// somebody who may move token `t`: owner, an approved spender, an operator of the owner
    fn mover(&mut self, o: &Obs, t: &Tok) -> (u64, &'static str) {
        let mut c: Vec<(u64, &'static str)> = vec![(t.owner, "owner"), (t.owner, "owner")];
        for (s, _) in &t.approvals {
            c.push((*s, "approved"));
        }
        for (ow, op, _) in &o.ops {
            if *ow == t.owner {
                c.push((*op, "operator"));
            }
        }
        *self.rng.pick(&c)
    }
    fn share(&mut self, o: &Obs) -> u128 {
        let p = 10u128.pow(16);
        let old = o.roy.map(|r| r.1).unwrap_or(0);
        let c = [
            old,
            old + 2 * p,
            old + 2 * p + 1,
            (old + 2 * p).saturating_sub(1),
            old.saturating_sub(p),
            10 * p,
            10 * p + 1,
            10 * p - 1,
            100 * p,
            100 * p + 1,
            0,
            old + p,
            self.rng.below(12) as u128 * p,
        ];
        *self.rng.pick(&c)
    }
    fn desc(&mut self) -> String {
        let len = match self.rng.below(10) {
            0 => 512,
            1 => 513,
            2 => 511,
            3 => 0,
            4 => 5,
            5 => 518,
            6 => 514,
            _ => self.rng.range(6, 80),
        };
        let id = if len < 6 { 0 } else { self.rng.range(1, 50) };
        format!("{id}:{len}")
    }
    fn url(&mut self, mostly_valid: bool) -> u64 {
        let valid = [0u64, 1, 5, 6, 7, 11, 12];
        let invalid = [2u64, 3, 4, 8, 9, 10];
        if mostly_valid && !self.rng.chance(1, 8) {
            *self.rng.pick(&valid)
        } else {
            *self.rng.pick(&invalid)
        }
    }

    fn inst_line(&mut self, fault: bool) -> String {
        let mut s = STUB_A;
        let mut funds = "-".to_string();
        let mut minter = if self.rng.chance(1, 6) { *self.rng.pick(&[STUB_B, 20, 10]) } else { STUB_A };
        let mut creator = 10;
        let mut desc = {
            let d = self.desc();
            let len: u64 = d.split_once(':').unwrap().1.parse().unwrap();
            if len > 512 {
                "3:512".to_string()
            } else {
                d
            }
        };
        let mut image = *self.rng.pick(&[0u64, 1, 5, 6]);
        let mut ext = if self.rng.chance(1, 2) { fmt_opt(&Some(*self.rng.pick(&[0u64, 7, 11]))) } else { "-".into() };
        let ec = *self.rng.pick(&["-", "0", "1"]);
        let stt = if self.rng.chance(1, 2) { "-".to_string() } else { (self.t + self.rng.below(1000)).to_string() };
        let p = 10u128.pow(16);
        let mut roy = match self.rng.below(6) {
            0 => "-".to_string(),
            1 => format!("40:{}", 100 * p),
            2 => "41:0".to_string(),
            3 => format!("40:{}", 10 * p),
            _ => format!("40:{}", self.rng.below(10) as u128 * p),
        };
        if fault {
            match self.rng.below(9) {
                0 => s = *self.rng.pick(&[10, 20, 50]),
                1 => funds = "0:10".into(),
                2 => minter = *self.rng.pick(&INVALID),
                3 => creator = *self.rng.pick(&INVALID),
                4 => desc = "4:513".into(),
                5 => image = *self.rng.pick(&[2u64, 3, 4]),
                6 => ext = (*self.rng.pick(&[2u64, 3, 4])).to_string(),
                7 => roy = format!("40:{}", 100 * p + 1),
                _ => roy = format!("{}:{}", self.rng.pick(&INVALID), 5 * p),
            }
        }
        format!("inst s={s} funds={funds} minter={minter} creator={creator} desc={desc} image={image} ext={ext} ec={ec} stt={stt} roy={roy}")
    }

    /// maybe advance the clock; prefers instants the current state makes interesting
    fn clock(&mut self, o: Option<&Obs>) -> Option<String> {
        if !self.rng.chance(1, 3) {
            return None;
        }
        let mut cands_t: Vec<u64> = vec![];
        let mut cands_h: Vec<u64> = vec![];
        if let Some(o) = o {
            cands_t.push(o.rua + DAY_NS);
            let mut exps: Vec<String> = o.toks.iter().flat_map(|t| t.approvals.iter().map(|x| x.1.clone())).collect();
            exps.extend(o.ops.iter().map(|x| x.2.clone()));
            if let Some(e) = &o.pexp {
                exps.push(e.clone());
            }
            for e in exps {
                match parse_exp(&e) {
                    Some(('h', v)) => cands_h.push(v),
                    Some(('t', v)) => cands_t.push(v),
                    _ => {}
                }
            }
        }
        let r = self.rng.below(10);
        if r < 4 && !cands_t.is_empty() {
            let c = *self.rng.pick(&cands_t);
            let d = *self.rng.pick(&[0i64, -1, 1]);
            let nt = (c as i64 + d) as u64;
            if nt >= self.t {
                self.t = nt;
                self.h += 1;
            } else {
                self.t += 1;
                self.h += 1;
            }
        } else if r < 6 && !cands_h.is_empty() {
            let c = *self.rng.pick(&cands_h);
            let d = *self.rng.pick(&[0i64, -1, 1]);
            let nh = (c as i64 + d).max(0) as u64;
            if nh >= self.h {
                self.h = nh;
            } else {
                self.h += 1;
            }
            self.t += 5_000_000_000;
        } else if r < 8 {
            self.h += 1;
            self.t += self.rng.range(1, 6) * 1_000_000_000;
        } else {
            self.h += self.rng.range(1, 20000);
            self.t += self.rng.range(1, 2 * DAY_NS);
        }
        Some(format!("block h={} t={}", self.h, self.t))
    }

    /// one message line + a coverage class
    fn op_line(&mut self, o: &Obs) -> (String, String) {
        let valid = self.rng.chance(7, 10);
        let minter = o.owner;
        let creator = o.creator;
        let f = self.funds();
        let upd = o.kind == "updatable";
        let pick = self.rng.below(100);
        // weights tuned so every message kind is frequent; collection-specific ones more on their collection
        let (line, role): (String, &str) = if pick < 16 {
            // mint
            let (s, role) = if valid && minter.is_some() { (minter.unwrap(), "minter") } else { (self.any_sender(), "any") };
            let dup = !valid && self.rng.chance(1, 2);
            let id = self.token_id(o, dup);
            let owner = if !valid && self.rng.chance(1, 4) { *self.rng.pick(&INVALID) } else { self.any_target(Some(o)) };
            let uri = if self.rng.chance(1, 4) { "-".to_string() } else { self.rng.range(1, 30).to_string() };
            let s2 = if dup && minter.is_some() { minter.unwrap() } else { s };
            (format!("mint s={s2} funds={f} id={id} owner={owner} uri={uri} ext={}", self.rng.below(4)), role)
        } else if pick < 26 {
            // transfer
            let want = valid || self.rng.chance(1, 2);
            let id = self.token_id(o, want);
            let (s, role) = match o.tok(id) {
                Some(t) if valid => {
                    let t = t.clone();
                    self.mover(o, &t)
                }
                _ => (self.any_sender(), "any"),
            };
            (format!("transfer s={s} funds={f} to={} id={id}", self.any_target(Some(o))), role)
        } else if pick < 33 {
            let want = valid || self.rng.chance(1, 2);
            let id = self.token_id(o, want);
            let (s, role) = match o.tok(id) {
                Some(t) if valid => {
                    let t = t.clone();
                    self.mover(o, &t)
                }
                _ => (self.any_sender(), "any"),
            };
            let to = if valid { *self.rng.pick(&[STUB_A, STUB_B]) } else { self.any_target(Some(o)) };
            let payload = if self.rng.chance(1, 5) { 0 } else { 1 };
            (format!("send s={s} funds={f} to={to} id={id} payload={payload}"), role)
        } else if pick < 42 {
            let want = valid || self.rng.chance(1, 2);
            let id = self.token_id(o, want);
            let (s, role) = match o.tok(id) {
                Some(t) if valid => {
                    // owner or one of the owner's operators may approve
                    let t = t.clone();
                    let mut m = self.mover(o, &t);
                    if m.1 == "approved" {
                        m = (t.owner, "owner");
                    }
                    m
                }
                _ => (self.any_sender(), "any"),
            };
            let sp = if self.rng.chance(1, 12) { *self.rng.pick(&INVALID) } else { *self.rng.pick(&[21u64, 22, 23, 30, STUB_B]) };
            if self.rng.chance(2, 3) {
                (format!("approve s={s} funds={f} sp={sp} id={id} exp={}", self.exp()), role)
            } else {
                (format!("revoke s={s} funds={f} sp={sp} id={id}"), role)
            }
        } else if pick < 49 {
            let s = if valid { *self.rng.pick(&HOLDERS) } else { self.any_sender() };
            let opr = if self.rng.chance(1, 12) { *self.rng.pick(&INVALID) } else { *self.rng.pick(&[20u64, 21, 22, 30, STUB_B]) };
            if self.rng.chance(2, 3) {
                (format!("approve_all s={s} funds={f} op={opr} exp={}", self.exp()), "holder")
            } else {
                (format!("revoke_all s={s} funds={f} op={opr}"), "holder")
            }
        } else if pick < 57 {
            let want = valid || self.rng.chance(1, 2);
            let id = self.token_id(o, want);
            let (s, role) = match o.tok(id) {
                Some(t) if valid => {
                    let t = t.clone();
                    self.mover(o, &t)
                }
                _ => (self.any_sender(), "any"),
            };
            (format!("burn s={s} funds={f} id={id}"), role)
        } else if pick < 70 {
            // update collection info
            let (s, role) = if valid { (creator, "creator") } else { (self.any_sender(), "any") };
            let direct = self.rng.chance(1, 4);
            let desc = if self.rng.chance(1, 2) { "-".to_string() } else { self.desc() };
            let image = if self.rng.chance(1, 2) { "-".to_string() } else { self.url(true).to_string() };
            let ext = match self.rng.below(4) {
                0 | 1 => "-".to_string(),
                2 if direct => "none".to_string(),
                _ => self.url(true).to_string(),
            };
            let ec = *self.rng.pick(&["-", "0", "1"]);
            let roy = match self.rng.below(6) {
                0 | 1 | 2 => "-".to_string(),
                3 if direct => "none".to_string(),
                _ => {
                    let payee = if self.rng.chance(1, 12) { *self.rng.pick(&INVALID) } else { *self.rng.pick(&PAYEES) };
                    format!("{payee}:{}", self.share(o))
                }
            };
            let cr = match self.rng.below(8) {
                0 => "11".to_string(),
                1 => "10".to_string(),
                2 if !valid => self.rng.pick(&INVALID).to_string(),
                _ => "-".to_string(),
            };
            (format!("uci s={s} funds={f} direct={} desc={desc} image={image} ext={ext} ec={ec} roy={roy} creator={cr}", direct as u8), role)
        } else if pick < 74 {
            let (s, role) = if valid && minter.is_some() { (minter.unwrap(), "minter") } else { (self.any_sender(), "any") };
            let t = if self.rng.chance(1, 4) { "-".to_string() } else { (self.t + self.rng.below(100000)).to_string() };
            (format!("ustt s={s} funds={f} t={t}"), role)
        } else if pick < 78 {
            // freeze: creators freeze rarely unless already frozen (keeps unfrozen histories long enough)
            let (s, role) = if valid && (o.fz || self.rng.chance(1, 3)) { (creator, "creator") } else { (self.any_sender(), "any") };
            (format!("freeze s={s} funds={f}"), role)
        } else if pick < 86 {
            // ownership hand-over
            let r = if o.pending.is_some() && self.rng.chance(1, 2) { 3 } else { self.rng.below(6) };
            match r {
                0 | 1 | 2 => {
                    let (s, role) = if valid && minter.is_some() { (minter.unwrap(), "minter") } else { (self.any_sender(), "any") };
                    let to = if self.rng.chance(1, 10) { *self.rng.pick(&INVALID) } else { *self.rng.pick(&[STUB_A, STUB_B, 20, 10]) };
                    (format!("own_transfer s={s} funds={f} to={to} exp={}", self.exp()), role)
                }
                3 | 4 => {
                    let (s, role) = if valid && o.pending.is_some() { (o.pending.unwrap(), "pending") } else { (self.any_sender(), "any") };
                    (format!("own_accept s={s} funds={f}"), role)
                }
                _ => {
                    let (s, role) = if valid && minter.is_some() && self.rng.chance(1, 4) { (minter.unwrap(), "minter") } else { (self.any_sender(), "any") };
                    (format!("own_renounce s={s} funds={f}"), role)
                }
            }
        } else if pick < 97 {
            // updatable-only messages (also sent to the other collections, where they must be rejected)
            if !upd && self.rng.chance(2, 3) {
                let (s, role) = if minter.is_some() { (minter.unwrap(), "minter") } else { (self.any_sender(), "any") };
                let id = self.token_id(o, false);
                let l = format!("mint s={s} funds=- id={id} owner={} uri={} ext=1", self.rng.pick(&HOLDERS), self.rng.range(1, 30));
                return self.class(o, l, role);
            }
            match self.rng.below(10) {
                0 => {
                    let (s, role) = if valid && (o.fm || self.rng.chance(1, 3)) { (creator, "creator") } else { (self.any_sender(), "any") };
                    let ff = if valid { "-".to_string() } else { f.clone() };
                    (format!("freeze_meta s={s} funds={ff}"), role)
                }
                1 | 2 => {
                    let (s, role) = if valid { (creator, "creator") } else { (self.any_sender(), "any") };
                    let fee = 1_500_000_000u128;
                    let ff = match self.rng.below(8) {
                        0 => format!("0:{}", fee - 1),
                        1 => format!("0:{}", fee + 1),
                        2 => format!("1:{fee}"),
                        3 => "-".to_string(),
                        4 => format!("0:{fee},1:5"),
                        _ => format!("0:{fee}"),
                    };
                    (format!("enable s={s} funds={ff}"), role)
                }
                _ => {
                    let (s, role) = if valid { (creator, "creator") } else { (self.any_sender(), "any") };
                    let want = valid || self.rng.chance(1, 2);
            let id = self.token_id(o, want);
                    let uri = if self.rng.chance(1, 5) { "-".to_string() } else { self.rng.range(31, 60).to_string() };
                    let ff = if valid { "-".to_string() } else { f.clone() };
                    (format!("utm s={s} funds={ff} id={id} uri={uri}"), role)
                }
            }
        } else if pick < 99 {
            (format!("extension s={} funds={f}", self.any_sender()), "any")
        } else {
            ("migrate".to_string(), "admin")
        };
        self.class(o, line, role)
    }

    fn class(&mut self, o: &Obs, line: String, role: &'static str) -> (String, String) {
        let op = line.split_whitespace().next().unwrap().to_string();
        let s = kv_u64(&line, "s");
        let who = if s.is_some() && s == o.owner {
            "minter"
        } else if s == Some(o.creator) {
            "creator"
        } else if s.is_some() && s == o.pending {
            "pending"
        } else {
            role
        };
        let cls = format!("{}:{op}:{who}:fz{}:fm{}:ue{}", o.kind, o.fz as u8, o.fm as u8, o.ue as u8);
        (line, cls)
    }
}

fn random_case(ses: &mut Session, sut: &mut S, g: &mut G, kind: &str, n_ops: u64, tag: &str) {
    g.h = 100 + g.rng.below(50);
    g.t = T0 + g.rng.below(1_000_000_000);
    ses.begin_case(sut, &format!("case kind={kind} {tag}"));
    ses.step(sut, &format!("block h={} t={}", g.h, g.t));
    // a few messages before any collection exists
    if g.rng.chance(1, 6) {
        ses.step(sut, "freeze s=10 funds=-");
    }
    // instantiate: sometimes a faulty attempt first
    let mut tries = 0;
    loop {
        let fault = tries == 0 && g.rng.chance(1, 3);
        let l = g.inst_line(fault);
        let out = ses.step(sut, &l);
        ses.mark(format!("{kind}:inst:{}:{}", if fault { "fault" } else { "valid" }, &out[..2]));
        tries += 1;
        if out.starts_with("ok") {
            break;
        }
        assert!(tries < 6, "cannot instantiate: {l}");
    }
    let early_freeze = g.rng.chance(1, 3);
    let early_meta_freeze = kind == "updatable" && g.rng.chance(1, 3);
    let migrate_early = kind == "base" && g.rng.chance(1, 5);
    for i in 0..n_ops {
        let o = sut.cur.clone();
        if let Some(b) = g.clock(o.as_ref()) {
            ses.step(sut, &b);
        }
        let Some(o) = sut.cur.clone() else { break };
        if migrate_early && i == 3 {
            ses.step(sut, "migrate");
            continue;
        }
        if early_freeze && i == n_ops / 4 {
            ses.step(sut, &format!("freeze s={} funds=-", o.creator));
            continue;
        }
        if early_meta_freeze && i == n_ops / 3 {
            ses.step(sut, &format!("freeze_meta s={} funds=-", o.creator));
            continue;
        }
        let (line, cls) = g.op_line(&o);
        let out = ses.step(sut, &line);
        ses.mark(format!("{cls}:{}", &out[..2]));
    }
    ses.end_case();
}

/// every sequence of length `depth` over a small alphabet of messages (model validation in a small scope)
fn exhaustive(ses: &mut Session, sut: &mut S, kind: &str, depth: usize) {
    let alphabet: Vec<String> = vec![
        format!("mint s={STUB_A} funds=- id=1 owner=20 uri=1 ext=0"),
        format!("mint s={STUB_A} funds=- id=2 owner=21 uri=- ext=2"),
        "mint s=20 funds=- id=3 owner=20 uri=- ext=0".into(),
        "transfer s=20 funds=- to=21 id=1".into(),
        "approve s=20 funds=- sp=22 id=1 exp=-".into(),
        "approve_all s=21 funds=- op=22 exp=h102".into(),
        "burn s=22 funds=- id=1".into(),
        "burn s=21 funds=- id=2".into(),
        format!("send s=21 funds=- to={STUB_B} id=2 payload=1"),
        "uci s=10 funds=- direct=0 desc=9:40 image=1 ext=7 ec=1 roy=- creator=11".into(),
        "uci s=11 funds=- direct=1 desc=- image=- ext=none ec=- roy=none creator=-".into(),
        "freeze s=10 funds=-".into(),
        "freeze s=11 funds=-".into(),
        format!("own_transfer s={STUB_A} funds=- to=20 exp=-"),
        "own_accept s=20 funds=-".into(),
        format!("own_renounce s={STUB_A} funds=-"),
        "utm s=10 funds=- id=1 uri=44".into(),
        "freeze_meta s=10 funds=-".into(),
        "block h=102 t=1700000100000000000".into(),
    ];
    let n = alphabet.len();
    let mut idx = vec![0usize; depth];
    let total = n.pow(depth as u32);
    for k in 0..total {
        let mut x = k;
        for d in 0..depth {
            idx[d] = x % n;
            x /= n;
        }
        let mut lines = vec![
            format!("case kind={kind} exhaustive depth={depth} k={k}"),
            "block h=100 t=1700000000000000000".to_string(),
            format!("inst s={STUB_A} funds=- minter={STUB_A} creator=10 desc=1:30 image=0 ext=- ec=- stt=- roy=40:50000000000000000"),
        ];
        for d in 0..depth {
            lines.push(alphabet[idx[d]].clone());
        }
        ses.run_case(sut, &lines);
    }
    ses.mark(format!("{kind}:exhaustive:depth{depth}:{total}"));
}

/// scripted scenarios at exact boundaries and for the clauses of the property (also the documentation examples)
fn scripted(ses: &mut Session, sut: &mut S) {
    let t0 = T0;
    let day = DAY_NS;
    let p = 10u128.pow(16);
    for kind in ["base", "nt", "updatable", "onchain"] {
        let inst = format!("inst s={STUB_A} funds=- minter={STUB_A} creator=10 desc=1:512 image=0 ext=7 ec=0 stt=- roy=40:{}", 5 * p);
        // 1. mint authority before/after a hand-over, duplicate ids, burn + re-mint
        let lines: Vec<String> = vec![
            format!("case kind={kind} scripted mint-authority"),
            format!("block h=100 t={t0}"),
            "inst s=10 funds=- minter=1000 creator=10 desc=1:512 image=0 ext=7 ec=0 stt=- roy=-".into(),
            format!("inst s={STUB_A} funds=0:1 minter={STUB_A} creator=10 desc=1:512 image=0 ext=7 ec=0 stt=- roy=-"),
            inst.clone(),
            format!("mint s={STUB_A} funds=- id=1 owner=20 uri=1 ext=3"),
            format!("mint s={STUB_A} funds=- id=1 owner=21 uri=2 ext=0"),
            format!("mint s={STUB_B} funds=- id=2 owner=21 uri=2 ext=0"),
            "mint s=10 funds=- id=2 owner=21 uri=2 ext=0".into(),
            format!("own_transfer s={STUB_A} funds=- to={STUB_B} exp=h105"),
            format!("mint s={STUB_B} funds=- id=2 owner=21 uri=2 ext=0"),
            "block h=104 t=1700000001000000000".into(),
            format!("own_accept s={STUB_A} funds=-"),
            format!("own_accept s={STUB_B} funds=-"),
            format!("mint s={STUB_A} funds=- id=2 owner=21 uri=2 ext=0"),
            format!("mint s={STUB_B} funds=- id=2 owner=21 uri=2 ext=0"),
            format!("mint s={STUB_B} funds=- id=1 owner=21 uri=2 ext=0"),
            "burn s=20 funds=- id=1".into(),
            format!("mint s={STUB_B} funds=- id=1 owner=22 uri=9 ext=0"),
            format!("own_transfer s={STUB_B} funds=- to=20 exp=h105"),
            "block h=105 t=1700000002000000000".into(),
            "own_accept s=20 funds=-".into(),
            format!("own_renounce s={STUB_B} funds=-"),
            format!("mint s={STUB_B} funds=- id=5 owner=22 uri=9 ext=0"),
            format!("ustt s={STUB_B} funds=- t=5"),
        ];
        ses.run_case(sut, &lines);
        // 2. collection-info freeze: every mutating message afterwards
        let lines: Vec<String> = vec![
            format!("case kind={kind} scripted freeze-info"),
            format!("block h=100 t={t0}"),
            inst.clone(),
            format!("mint s={STUB_A} funds=- id=1 owner=20 uri=1 ext=0"),
            "uci s=10 funds=- direct=0 desc=2:513 image=- ext=- ec=- roy=- creator=-".into(),
            "uci s=10 funds=- direct=0 desc=2:512 image=1 ext=11 ec=1 roy=- creator=-".into(),
            "uci s=10 funds=- direct=0 desc=- image=2 ext=- ec=- roy=- creator=-".into(),
            "uci s=10 funds=- direct=0 desc=- image=- ext=3 ec=- roy=- creator=-".into(),
            format!("uci s=10 funds=- direct=0 desc=- image=- ext=- ec=- roy=41:{} creator=-", 6 * p),
            format!("block h=101 t={}", t0 + day - 1),
            format!("uci s=10 funds=- direct=0 desc=- image=- ext=- ec=- roy=41:{} creator=-", 6 * p),
            format!("block h=102 t={}", t0 + day),
            format!("uci s=10 funds=- direct=0 desc=- image=- ext=- ec=- roy=41:{} creator=-", 7 * p + 1),
            format!("uci s=10 funds=- direct=0 desc=- image=- ext=- ec=- roy=41:{} creator=-", 7 * p),
            "uci s=10 funds=- direct=1 desc=- image=- ext=none ec=- roy=none creator=11".into(),
            "freeze s=10 funds=-".into(),
            "freeze s=30 funds=-".into(),
            "freeze s=11 funds=-".into(),
            format!("block h=103 t={}", t0 + 3 * day),
            "uci s=11 funds=- direct=0 desc=5:10 image=5 ext=0 ec=1 roy=40:0 creator=10".into(),
            "uci s=11 funds=- direct=1 desc=- image=- ext=none ec=- roy=- creator=-".into(),
            "uci s=10 funds=- direct=0 desc=- image=- ext=- ec=- roy=- creator=-".into(),
            format!("uci s={STUB_A} funds=- direct=0 desc=- image=- ext=- ec=0 roy=- creator=-"),
            "freeze s=11 funds=-".into(),
            format!("ustt s={STUB_A} funds=- t=77"),
            "ustt s=11 funds=- t=78".into(),
            format!("mint s={STUB_A} funds=- id=2 owner=21 uri=- ext=0"),
            "transfer s=20 funds=- to=22 id=1".into(),
            "burn s=21 funds=- id=2".into(),
            "extension s=11 funds=-".into(),
            "migrate".into(),
            "uci s=11 funds=- direct=0 desc=5:10 image=- ext=- ec=- roy=- creator=-".into(),
            "migrate".into(),
        ];
        ses.run_case(sut, &lines);
        // 3. approvals / operators with exact expiry instants
        let lines: Vec<String> = vec![
            format!("case kind={kind} scripted approvals"),
            format!("block h=100 t={t0}"),
            inst.clone(),
            format!("mint s={STUB_A} funds=- id=1 owner=20 uri=1 ext=0"),
            format!("mint s={STUB_A} funds=- id=2 owner=20 uri=- ext=0"),
            format!("mint s={STUB_A} funds=- id=3 owner=21 uri=- ext=0"),
            "approve s=20 funds=- sp=22 id=1 exp=h100".into(),
            "approve s=20 funds=- sp=22 id=1 exp=h101".into(),
            format!("approve s=20 funds=- sp=23 id=1 exp=t{}", t0 + 5),
            "approve s=30 funds=- sp=30 id=1 exp=-".into(),
            format!("approve_all s=20 funds=- op=30 exp=t{}", t0 + 10),
            "approve s=30 funds=- sp=21 id=2 exp=n".into(),
            format!("block h=100 t={}", t0 + 4),
            "transfer s=23 funds=- to=900 id=1".into(),
            format!("block h=100 t={}", t0 + 5),
            "transfer s=23 funds=- to=21 id=1".into(),
            format!("block h=101 t={}", t0 + 6),
            "transfer s=22 funds=- to=21 id=1".into(),
            format!("block h=100 t={}", t0 + 9),
            format!("send s=30 funds=- to={STUB_B} id=1 payload=0"),
            "send s=30 funds=- to=21 id=1 payload=1".into(),
            format!("send s=30 funds=- to={STUB_B} id=1 payload=1"),
            format!("block h=100 t={}", t0 + 10),
            "burn s=30 funds=- id=2".into(),
            "revoke s=30 funds=- sp=21 id=2".into(),
            "revoke s=20 funds=- sp=21 id=2".into(),
            "revoke_all s=20 funds=- op=30".into(),
            "burn s=21 funds=- id=2".into(),
            "burn s=20 funds=- id=2".into(),
            "burn s=20 funds=- id=2".into(),
            "burn s=21 funds=- id=3".into(),
        ];
        ses.run_case(sut, &lines);
        // 4. token metadata (updatable; the others must reject all three messages)
        let fee = 1_500_000_000u128;
        let lines: Vec<String> = vec![
            format!("case kind={kind} scripted token-metadata"),
            format!("block h=100 t={t0}"),
            inst.clone(),
            format!("mint s={STUB_A} funds=- id=1 owner=20 uri=1 ext=0"),
            "utm s=10 funds=- id=1 uri=31".into(),
            "utm s=10 funds=- id=2 uri=31".into(),
            "utm s=20 funds=- id=1 uri=32".into(),
            format!("utm s={STUB_A} funds=- id=1 uri=32"),
            "utm s=10 funds=0:1 id=1 uri=33".into(),
            "utm s=10 funds=- id=1 uri=-".into(),
            format!("enable s=10 funds=0:{fee}"),
            "freeze_meta s=20 funds=-".into(),
            "freeze_meta s=10 funds=0:1".into(),
            "freeze_meta s=10 funds=-".into(),
            "utm s=10 funds=- id=1 uri=34".into(),
            "burn s=20 funds=- id=1".into(),
            format!("mint s={STUB_A} funds=- id=1 owner=20 uri=35 ext=0"),
            "utm s=10 funds=- id=1 uri=36".into(),
            "freeze_meta s=10 funds=-".into(),
            "migrate".into(),
            "utm s=10 funds=- id=1 uri=37".into(),
        ];
        ses.run_case(sut, &lines);
    }
    // 5. sg721-base migrated to sg721-updatable: EnableUpdatable fee boundaries
    let fee = 1_500_000_000u128;
    let lines: Vec<String> = vec![
        "case kind=base scripted migrate-enable".into(),
        format!("block h=100 t={t0}"),
        format!("inst s={STUB_A} funds=- minter={STUB_A} creator=10 desc=1:40 image=0 ext=- ec=- stt=- roy=-"),
        format!("mint s={STUB_A} funds=- id=1 owner=20 uri=1 ext=0"),
        "utm s=10 funds=- id=1 uri=31".into(),
        "migrate".into(),
        "utm s=10 funds=- id=1 uri=31".into(),
        format!("enable s=20 funds=0:{fee}"),
        format!("enable s=10 funds=0:{}", fee - 1),
        format!("enable s=10 funds=1:{fee}"),
        "enable s=10 funds=-".into(),
        format!("enable s=10 funds=0:{fee},1:1"),
        format!("enable s=10 funds=0:{}", fee + 1),
        format!("enable s=10 funds=0:{fee}"),
        "utm s=10 funds=- id=1 uri=31".into(),
        format!("own_transfer s={STUB_A} funds=- to=20 exp=-"),
        "freeze_meta s=10 funds=-".into(),
        "utm s=10 funds=- id=1 uri=32".into(),
    ];
    ses.run_case(sut, &lines);
    ses.mark("scripted:all");
}

fn main() {
    let mut ses = Session::new("C09");
    let mut sut = S::new();
    if ses.maybe_replay(&mut sut) {
        ses.finish(&mut sut);
    }
    let mut g = G { rng: ses.rng.fork(), h: 100, t: T0 };
    surface_check(&mut ses);
    scripted(&mut ses, &mut sut);
    let kinds = ["base", "nt", "updatable", "onchain"];
    let per_kind = ses.scale(250, 3000);
    for kind in kinds {
        for i in 0..per_kind {
            let n_ops = 30 + g.rng.below(60);
            random_case(&mut ses, &mut sut, &mut g, kind, n_ops, &format!("random i={i}"));
        }
    }
    let depth = if ses.tier() == Tier::Thorough { 3 } else { 2 };
    for kind in kinds {
        exhaustive(&mut ses, &mut sut, kind, depth);
    }
    ses.note(format!(
        "4 collections x (scripted boundary scenarios, {per_kind} random histories of 30-90 messages, every message sequence of length {depth} over a 19-line alphabet); contract panics (Extension todo!()) caught: {}",
        sut.panics
    ));
    ses.note("senders: minter stubs (forwarding sub-messages), creators, holders, approved spenders, operators, pending owner, strangers; clock steps to expiry/24h instants -1/0/+1; zero-amount coins are not generated (cw-multi-test bank drops them)");
    ses.finish(&mut sut);
}
