//! compbase — differential correspondence of the COMPOSITE model `LP.BF` (lean/LaunchpadModel/Model/BaseFull.lean, driver
//! `drv_compbase`) against the REAL base-factory + base-minter + the four sg721 collection contracts under cw-multi-test.
//! Protocol: docs/COMPOSITE_BASE.md §3 and Driver/CompBase.lean. Every answer carries the complete observable state
//! (`F … M … C … B …`), also on `err`. No monitors: all output is primary.
use cosmwasm_std::{Addr, Empty};
use lp_harness::minters::*;
use lp_harness::world::{denom, denom_id};
use lp_harness::*;
use serde_json::{json, Value};
use std::collections::{BTreeMap, BTreeSet};
use std::sync::OnceLock;

/// the creator named in (and normally the sender of) `CreateMinter`
const ADMIN: u64 = 10;
/// somebody else who pays a `CreateMinter` naming ADMIN as creator
const PAYER: u64 = 11;
const ROYAL: u64 = 12;
const STRANGER: u64 = 30;
const GOV: u64 = 90;
const ACCTS: [u64; 12] = [1, 2, 3, 4, 10, 11, 12, 20, 21, 22, 30, 90];
const SEC: u64 = 1_000_000_000;
const ONE: u128 = 1_000_000_000_000_000_000;
/// a string `addr_validate` rejects (upper case, too short)
const BAD_ADDR: &str = "X";
const URI_PRE: &str = "ipfs://bafybeigi3bwpvyvsmnbj46ra4hyffcxdeaj6ntfk5jpic5mx27x6ih2qvq/";

// ------------------------------------------------------------------------------------------------ names (cached)

fn sg1() -> &'static (String, String, String) {
    static C: OnceLock<(String, String, String)> = OnceLock::new();
    C.get_or_init(lp_harness::world::sg1_addrs)
}
fn ad(id: u64) -> String {
    match id {
        1 => sg1().0.clone(),
        2 => sg1().1.clone(),
        3 => sg1().2.clone(),
        4 => "fairburn_pool".to_string(),
        n if n >= 1000 => format!("contract{}", n - 1000),
        n => format!("acct{:05}", n),
    }
}
fn aid(s: &str) -> u64 {
    let (f, l, q) = sg1();
    if s == f {
        return 1;
    }
    if s == l {
        return 2;
    }
    if s == q {
        return 3;
    }
    if s == "fairburn_pool" {
        return 4;
    }
    if let Some(k) = s.strip_prefix("contract") {
        if let Ok(k) = k.parse::<u64>() {
            return 1000 + k;
        }
    }
    if let Some(k) = s.strip_prefix("acct") {
        if let Ok(k) = k.parse::<u64>() {
            return k;
        }
    }
    900_000_000
}
fn ox<T: std::fmt::Display>(x: &Option<T>) -> String {
    match x {
        Some(v) => v.to_string(),
        None => "x".into(),
    }
}
fn parse_ox(s: &str) -> Option<u64> {
    if s == "x" || s == "-" {
        None
    } else {
        s.parse().ok()
    }
}
fn nanos(v: &Value) -> Option<u64> {
    v.as_str().and_then(|s| s.parse().ok())
}
fn coin_of(v: &Value) -> (u64, u128) {
    (denom_id(v["denom"].as_str().unwrap_or("?")), v["amount"].as_str().and_then(|x| x.parse().ok()).unwrap_or(0))
}
fn rc(c: (u64, u128)) -> String {
    format!("{}:{}", c.0, c.1)
}
fn funds_of(line: &str) -> Vec<(u64, u128)> {
    kv_pairs(line, "funds").unwrap_or_default().into_iter().map(|(d, a)| (d as u64, a)).collect()
}
fn coin_kv(line: &str, key: &str) -> Option<(u64, u128)> {
    let v = kv_pairs(line, key)?;
    if v.len() == 1 {
        Some((v[0].0 as u64, v[0].1))
    } else {
        None
    }
}
/// `Decimal` atomics <-> the decimal string the JSON carries
fn share_str(atomics: u128) -> String {
    format!("{}.{:018}", atomics / ONE, atomics % ONE)
}
fn share_atomics(s: &str) -> u128 {
    let (i, f) = s.split_once('.').unwrap_or((s, ""));
    let mut f = f.to_string();
    while f.len() < 18 {
        f.push('0');
    }
    i.parse::<u128>().unwrap_or(0) * ONE + f[..18].parse::<u128>().unwrap_or(0)
}
fn uri_str(id: u64, ok: bool) -> String {
    if ok {
        format!("{URI_PRE}{id}.json")
    } else {
        format!("not a url {id}")
    }
}
fn uri_id(s: &str) -> String {
    s.strip_prefix(URI_PRE).and_then(|r| r.strip_suffix(".json")).map(|x| x.to_string()).or_else(|| s.strip_prefix("not a url ").map(|x| x.to_string())).unwrap_or("?".into())
}

// ------------------------------------------------------------------------------------------------ message surface (run time)

/// variant names of an enum schema (`oneOf[*].required[0]`, bare `enum` strings)
fn schema_variants(root: &Value) -> Vec<String> {
    let mut out = vec![];
    let mut alts: Vec<Value> = vec![];
    for k in ["oneOf", "anyOf"] {
        if let Some(a) = root[k].as_array() {
            alts.extend(a.iter().cloned());
        }
    }
    if alts.is_empty() {
        alts.push(root.clone());
    }
    for alt in alts {
        if let Some(en) = alt["enum"].as_array() {
            out.extend(en.iter().filter_map(|e| e.as_str().map(String::from)));
        } else if let Some(req) = alt["required"].as_array() {
            if let Some(name) = req.first().and_then(|x| x.as_str()) {
                out.push(name.to_string());
            }
        }
    }
    out.sort();
    out.dedup();
    out
}

#[derive(Clone, Default)]
struct Surface {
    /// (entry point, variants found in the crate's schema now)
    found: BTreeMap<&'static str, Vec<String>>,
    /// variants the protocol has no named op for: sent as `raw kind=schema.<entry>.<variant>` (the model refuses them)
    unknown_exec: Vec<(String, String)>,
    /// query variants the observation does not cover: printed behind ` X ` (the model never prints that: disagreement)
    unknown_query: Vec<String>,
}
impl Surface {
    fn load() -> Surface {
        use cosmwasm_schema::schema_for;
        let v = |r: cosmwasm_schema::schemars::schema::RootSchema| schema_variants(&serde_json::to_value(&r).expect("schema"));
        let mut s = Surface::default();
        s.found.insert("minter.execute", v(schema_for!(base_minter::msg::ExecuteMsg)));
        s.found.insert("factory.execute", v(schema_for!(base_factory::msg::ExecuteMsg)));
        s.found.insert("minter.sudo", v(schema_for!(sg4::SudoMsg)));
        s.found.insert("factory.sudo", v(schema_for!(base_factory::msg::BaseSudoMsg)));
        s.found.insert("minter.query", v(schema_for!(sg4::QueryMsg)));
        s.found.insert("factory.query", v(schema_for!(sg2::query::Sg2QueryMsg)));
        let known: BTreeMap<&str, &[&str]> = BTreeMap::from([
            ("minter.execute", &["mint", "update_start_trading_time"][..]),
            ("factory.execute", &["create_minter"][..]),
            ("minter.sudo", &["update_status"][..]),
            ("factory.sudo", &["update_params"][..]),
            ("minter.query", &["config", "status"][..]),
            ("factory.query", &["allowed_collection_code_id", "allowed_collection_code_ids", "params"][..]),
        ]);
        for (ep, vars) in &s.found {
            for n in vars {
                if !known[ep].contains(&n.as_str()) {
                    if ep.ends_with("query") {
                        s.unknown_query.push(format!("{ep}.{n}"));
                    } else {
                        s.unknown_exec.push((ep.to_string(), n.clone()));
                    }
                }
            }
        }
        s
    }
}

// ------------------------------------------------------------------------------------------------ the system under test

#[derive(Clone, Debug)]
struct MinterRec {
    addr: String,
    coll: String,
    /// index into the collection code table
    ck: usize,
}

/// parsed copy of the last observation (used by the generators; never by the comparison)
#[derive(Clone, Debug, Default)]
struct Last {
    now: u64,
    f_code: u64,
    f_allowed: Vec<u64>,
    f_frozen: bool,
    cfee: (u64, u128),
    minp: (u64, u128),
    feebps: u64,
    offset: u64,
    exists: bool,
    ck: usize,
    maddr: u64,
    caddr: u64,
    price: (u64, u128),
    idx: u64,
    toks: Vec<(u64, u64)>,
    trading: Option<u64>,
    creator: u64,
    owner: Option<u64>,
    pending: Option<u64>,
    frozen: bool,
}
impl Last {
    /// what a mint costs right now (generator-side arithmetic)
    fn fee(&self) -> u128 {
        self.price.1 * self.feebps as u128 / 10_000
    }
}

struct S {
    w: World,
    accts: Vec<u64>,
    probe: Vec<u64>,
    mcodes: Vec<u64>,
    ccodes: Vec<u64>,
    factory: String,
    minter: Option<MinterRec>,
    n_contracts: u64,
    last: Last,
    sf: Surface,
    trace: bool,
}

fn instantiated(res: &cw_multi_test::AppResponse) -> Vec<String> {
    res.events
        .iter()
        .filter(|e| e.ty == "instantiate")
        .filter_map(|e| e.attributes.iter().find(|at| at.key == "_contract_address" || at.key == "_contract_addr").map(|at| at.value.clone()))
        .collect()
}

impl S {
    fn new() -> S {
        S {
            w: World::new(GENESIS),
            accts: vec![],
            probe: vec![],
            mcodes: vec![],
            ccodes: vec![],
            factory: String::new(),
            minter: None,
            n_contracts: 0,
            last: Last::default(),
            sf: Surface::load(),
            trace: std::env::var("COMPBASE_TRACE").is_ok(),
        }
    }

    fn wasm_info(&self, a: &str) -> String {
        match self.w.app.wrap().query_wasm_contract_info(a) {
            Ok(i) => format!("wcode={} wcreator={} wadmin={}", i.code_id, aid(&i.creator), i.admin.map(|x| aid(&x).to_string()).unwrap_or("-".into())),
            Err(_) => "wcode=? wcreator=? wadmin=?".into(),
        }
    }

    // ---------------------------------------------------------------- observations
    fn obs(&mut self) -> String {
        let mut l = Last { now: self.w.time(), ..Default::default() };
        let w = &self.w;
        // ---- F
        let p = w.query(&self.factory, &json!({"params":{}})).map(|v| v["params"].clone()).unwrap_or(Value::Null);
        l.f_code = p["code_id"].as_u64().unwrap_or(u64::MAX);
        l.f_allowed = p["allowed_sg721_code_ids"].as_array().map(|a| a.iter().filter_map(|x| x.as_u64()).collect()).unwrap_or_default();
        l.f_frozen = p["frozen"].as_bool().unwrap_or(false);
        l.cfee = coin_of(&p["creation_fee"]);
        l.minp = coin_of(&p["min_mint_price"]);
        l.feebps = p["mint_fee_bps"].as_u64().unwrap_or(u64::MAX);
        l.offset = p["max_trading_offset_secs"].as_u64().unwrap_or(u64::MAX);
        let ext = if p["extension"].is_null() { 0 } else { 1 };
        // the list as the dedicated query reports it (must be the stored one)
        let ids: Vec<u64> = w.query(&self.factory, &json!({"allowed_collection_code_ids":{}})).ok().and_then(|v| v["code_ids"].as_array().map(|a| a.iter().filter_map(|x| x.as_u64()).collect())).unwrap_or_else(|| vec![u64::MAX]);
        let allowed = if ids == l.f_allowed { fmt_list(&ids) } else { format!("MISMATCH[{}|{}]", fmt_list(&ids), fmt_list(&l.f_allowed)) };
        let probe: String = self
            .probe
            .iter()
            .map(|c| match w.query(&self.factory, &json!({"allowed_collection_code_id": c})) {
                Ok(v) => {
                    if v["allowed"].as_bool() == Some(true) {
                        "1"
                    } else {
                        "0"
                    }
                }
                Err(_) => "?",
            })
            .collect();
        let f = format!("F code={} allowed={} frozen={} cfee={} minp={} feebps={} offset={} ext={} probe={}", l.f_code, allowed, l.f_frozen as u8, rc(l.cfee), rc(l.minp), l.feebps, l.offset, ext, probe);
        // ---- M, C
        let mut extra: Vec<u64> = vec![];
        let (m, c) = match &self.minter {
            None => ("M -".to_string(), "C -".to_string()),
            Some(mi) => {
                l.exists = true;
                l.ck = mi.ck;
                l.maddr = aid(&mi.addr);
                let q = w.query(&mi.addr, &json!({"config":{}})).unwrap_or(Value::Null);
                let cfg = &q["config"];
                let fac = cfg["factory"].as_str().map(aid).unwrap_or(u64::MAX);
                let ccode = cfg["collection_code_id"].as_u64().unwrap_or(u64::MAX);
                l.price = coin_of(&cfg["mint_price"]);
                let sg721 = q["collection_address"].as_str().map(aid).unwrap_or(u64::MAX);
                l.caddr = sg721;
                let st = match w.query(&mi.addr, &json!({"status":{}})) {
                    Ok(v) => {
                        let s = &v["status"];
                        format!("{}{}{}", s["is_verified"].as_bool().unwrap_or(false) as u8, s["is_blocked"].as_bool().unwrap_or(false) as u8, s["is_explicit"].as_bool().unwrap_or(false) as u8)
                    }
                    Err(_) => "???".into(),
                };
                {
                    let store = w.app.contract_storage(&Addr::unchecked(&mi.addr));
                    l.idx = base_minter::state::TOKEN_INDEX.may_load(&*store).ok().flatten().unwrap_or(0);
                }
                let m = format!("M addr={} fac={} ccode={} price={} sg721={} st={} idx={} {}", l.maddr, fac, ccode, rc(l.price), sg721, st, l.idx, self.wasm_info(&mi.addr));
                // ---- C
                let coll = &mi.coll;
                let n = w.query(coll, &json!({"num_tokens":{}})).ok().and_then(|v| v["count"].as_u64());
                let mut ids: Vec<String> = vec![];
                let mut after: Option<String> = None;
                loop {
                    let Ok(r) = w.query(coll, &json!({"all_tokens":{"start_after": after, "limit": 100}})) else { break };
                    let page: Vec<String> = r["tokens"].as_array().map(|a| a.iter().filter_map(|x| x.as_str().map(String::from)).collect()).unwrap_or_default();
                    if page.is_empty() {
                        break;
                    }
                    after = page.last().cloned();
                    let short = page.len() < 100;
                    ids.extend(page);
                    if short {
                        break;
                    }
                }
                let mut toks: Vec<(u64, u64, String)> = ids
                    .iter()
                    .map(|t| {
                        let o = w.query(coll, &json!({"owner_of":{"token_id": t}})).ok().and_then(|v| v["owner"].as_str().map(aid)).unwrap_or(u64::MAX);
                        let u = w.query(coll, &json!({"nft_info":{"token_id": t}})).ok().map(|v| v["token_uri"].as_str().map(uri_id).unwrap_or("-".into())).unwrap_or("?".into());
                        (t.parse().unwrap_or(u64::MAX), o, u)
                    })
                    .collect();
                toks.sort();
                let ci = w.query(coll, &json!({"collection_info":{}})).unwrap_or(Value::Null);
                l.trading = nanos(&ci["start_trading_time"]);
                l.creator = ci["creator"].as_str().map(aid).unwrap_or(u64::MAX);
                let roy = if ci["royalty_info"].is_null() { "-".to_string() } else { format!("{}:{}", share_atomics(ci["royalty_info"]["share"].as_str().unwrap_or("0")), aid(ci["royalty_info"]["payment_address"].as_str().unwrap_or(""))) };
                let (frozen, rupd) = {
                    let store = w.app.contract_storage(&Addr::unchecked(coll));
                    let own = cw_ownable::get_ownership(&*store).ok();
                    l.owner = own.as_ref().and_then(|o| o.owner.as_ref().map(|a| aid(a.as_str())));
                    l.pending = own.as_ref().and_then(|o| o.pending_owner.as_ref().map(|a| aid(a.as_str())));
                    let k = sg721_base::Sg721Contract::<Option<Empty>>::default();
                    (k.frozen_collection_info.may_load(&*store).ok().flatten(), k.royalty_updated_at.may_load(&*store).ok().flatten().map(|t| t.nanos()))
                };
                l.frozen = frozen.unwrap_or(false);
                let ts = if toks.is_empty() { "-".to_string() } else { toks.iter().map(|(i, o, u)| format!("{i}:{o}:{u}")).collect::<Vec<_>>().join(",") };
                let c = format!(
                    "C n={} toks={} trading={} creator={} owner={} pending={} frozen={} roy={} rupd={} {}",
                    fmt_opt(&n), ts, fmt_opt(&l.trading), l.creator, fmt_opt(&l.owner), fmt_opt(&l.pending), frozen.map(|b| (b as u8).to_string()).unwrap_or("?".into()), roy, fmt_opt(&rupd), self.wasm_info(coll)
                );
                l.toks = toks.iter().map(|(i, o, _)| (*i, *o)).collect();
                extra = vec![l.maddr, sg721];
                (m, c)
            }
        };
        // ---- B
        let bals = w.all_balances();
        let d0 = denom(0);
        let d1 = denom(1);
        let mut sup = [0u128; 2];
        let mut by: BTreeMap<&str, [u128; 2]> = BTreeMap::new();
        for ((who, dn), amt) in &bals {
            let i = if *dn == d0 {
                0
            } else if *dn == d1 {
                1
            } else {
                continue;
            };
            sup[i] += *amt;
            by.entry(who.as_str()).or_insert([0, 0])[i] += *amt;
        }
        let mut who: Vec<u64> = self.accts.clone();
        who.push(aid(&self.factory));
        who.extend(extra);
        let b: Vec<String> = who
            .iter()
            .map(|a| {
                let x = by.get(ad(*a).as_str()).cloned().unwrap_or([0, 0]);
                format!("{}:{}:{}", a, x[0], x[1])
            })
            .collect();
        self.last = l;
        let x = if self.sf.unknown_query.is_empty() { String::new() } else { format!(" X unobserved-queries={}", self.sf.unknown_query.join(",")) };
        format!("{f} {m} {c} B {} sup={}:{}{x}", b.join(","), sup[0], sup[1])
    }

    fn dbg(&self, line: &str, r: &Result<cw_multi_test::AppResponse, String>) {
        if self.trace {
            if let Err(e) = r {
                eprintln!("TRACE {line} => {}", e.lines().last().unwrap_or("").rsplit("}: ").next().unwrap_or(""));
            }
        }
    }

    fn update_json(line: &str) -> Value {
        let c = |key: &str| -> Value {
            match coin_kv(line, key) {
                Some(x) => jcoin(x),
                None => Value::Null,
            }
        };
        let l = |key: &str| -> Value {
            match kv_list(line, key) {
                Some(x) => json!(x.iter().map(|y| *y as u64).collect::<Vec<u64>>()),
                None => Value::Null,
            }
        };
        json!({
            "code_id": kv_u64(line, "code"), "add_sg721_code_ids": l("addc"), "rm_sg721_code_ids": l("rmc"),
            "frozen": kv_bool(line, "frozen"), "creation_fee": c("cfee"), "min_mint_price": c("minp"),
            "mint_fee_bps": kv_u64(line, "feebps"), "max_trading_offset_secs": kv_u64(line, "offset"),
            "extension": if kv_bool(line, "ext") == Some(true) { json!({}) } else { Value::Null }})
    }

    /// a message kind the family does not have; returns whether the REAL contract accepted it
    fn run_raw(&mut self, line: &str, who: &str) -> bool {
        let kind = kv(line, "kind").unwrap_or("?").to_string();
        let mi = self.minter.clone();
        let minter = mi.as_ref().map(|m| m.addr.clone());
        let fac = self.factory.clone();
        let status = json!({"update_status": {"is_verified": true, "is_blocked": true, "is_explicit": true}});
        let params = json!({"update_params": {"code_id": 1, "add_sg721_code_ids": null, "rm_sg721_code_ids": null, "frozen": true, "creation_fee": null, "min_mint_price": null, "mint_fee_bps": 1, "max_trading_offset_secs": 1, "extension": null}});
        let exec = |s: &mut S, target: Option<String>, msg: Value| -> bool {
            let Some(t) = target else { return false };
            let r = s.w.exec(who, &t, &msg, &[]);
            s.dbg(line, &r);
            r.is_ok()
        };
        let sudo = |s: &mut S, target: Option<String>, msg: Value| -> bool {
            let Some(t) = target else { return false };
            s.w.sudo(&t, &msg).is_ok()
        };
        if let Some(rest) = kind.strip_prefix("schema.") {
            // a variant the crate's schema has and this protocol has no op for
            let (ep, var) = rest.rsplit_once('.').unwrap_or((rest, "?"));
            let msg = json!({ var: {} });
            return match ep {
                "minter.execute" => exec(self, minter, msg),
                "factory.execute" => exec(self, Some(fac), msg),
                "minter.sudo" => sudo(self, minter, msg),
                _ => sudo(self, Some(fac), msg),
            };
        }
        match kind.as_str() {
            // other minters' messages sent to the base minter
            "m.mint_to" => exec(self, minter, json!({"mint_to": {"recipient": ad(20)}})),
            "m.mint_for" => exec(self, minter, json!({"mint_for": {"token_id": 1, "recipient": ad(20)}})),
            "m.purge" => exec(self, minter, json!({"purge": {}})),
            "m.burn_remaining" => exec(self, minter, json!({"burn_remaining": {}})),
            "m.shuffle" => exec(self, minter, json!({"shuffle": {}})),
            "m.update_mint_price" => exec(self, minter, json!({"update_mint_price": {"price": "1"}})),
            "m.update_start_time" => exec(self, minter, json!({"update_start_time": "1"})),
            "m.update_per_address_limit" => exec(self, minter, json!({"update_per_address_limit": {"per_address_limit": 1}})),
            "m.set_whitelist" => exec(self, minter, json!({"set_whitelist": {"whitelist": ad(20)}})),
            // `Mint` without its argument / with a non-string
            "m.mint_empty" => exec(self, minter, json!({"mint": {}})),
            "m.mint_number" => exec(self, minter, json!({"mint": {"token_uri": 7}})),
            // sudo messages through `execute`
            "m.exec_update_status" => exec(self, minter, status),
            "f.exec_update_params" => exec(self, Some(fac), params),
            "f.create_empty" => exec(self, Some(fac), json!({"create_minter": {}})),
            "f.mint" => exec(self, Some(fac), json!({"mint": {"token_uri": uri_str(1, true)}})),
            // the other contract's sudo message
            "m.sudo_update_params" => sudo(self, minter, params),
            "f.sudo_update_status" => sudo(self, Some(fac), status),
            // the collection's `Mint` by somebody who is not the minter contract goes through the interface: not here
            _ => false,
        }
    }

    /// executes one family op; returns (witness suffix, ok)
    fn run_op(&mut self, op: &str, line: &str) -> Option<(String, bool)> {
        let sender = kv_u64(line, "sender").unwrap_or(0);
        let funds = funds_of(line);
        let who = ad(sender);
        let mi = self.minter.clone();
        Some(match op {
            "fund" => {
                let a = kv_u64(line, "a")?;
                let d = kv_u64(line, "d")?;
                let amt = kv_u128(line, "amt")?;
                self.w.fund(&ad(a), d, amt);
                (String::new(), true)
            }
            "create" => {
                let maddr = 1000 + self.n_contracts;
                let caddr = maddr + 1;
                let wit = format!(" maddr={maddr} caddr={caddr}");
                if mi.is_some() {
                    return Some((wit, false)); // one minter per case (hardly ever generated)
                }
                let code = kv_u64(line, "code")?;
                let creator = match kv(line, "creator")? {
                    "x" => BAD_ADDR.to_string(),
                    a => ad(a.parse().ok()?),
                };
                let desc = "d".repeat(kv_u64(line, "desc")? as usize);
                let image = if kv_bool(line, "image")? { "https://example.com/image.png" } else { "not a url" };
                let link = match kv(line, "link")? {
                    "-" => Value::Null,
                    "1" => json!("https://example.com/external.html"),
                    _ => json!("no link at all"),
                };
                let roy = match kv(line, "roy")? {
                    "-" => Value::Null,
                    v => {
                        let (s, p) = v.split_once(':')?;
                        json!({"payment_address": match parse_ox(p) { Some(a) => ad(a), None => BAD_ADDR.to_string() }, "share": share_str(s.parse().ok()?)})
                    }
                };
                let msg = json!({"create_minter": {
                    "init_msg": if kv_bool(line, "init") == Some(true) { json!({}) } else { Value::Null },
                    "collection_params": {"code_id": code, "name": "Collection", "symbol": "COL",
                        "info": {"creator": creator, "description": desc, "image": image, "external_link": link, "explicit_content": false,
                                 "start_trading_time": jopt_time(kv_opt_u64(line, "trading")?), "royalty_info": roy}}}});
                let r = self.w.exec(&who, &self.factory.clone(), &msg, &funds);
                self.dbg(line, &r);
                match r {
                    Ok(res) => {
                        let addrs = instantiated(&res);
                        if addrs.len() != 2 || aid(&addrs[0]) != maddr || aid(&addrs[1]) != caddr {
                            return Some((format!(" maddr={maddr} caddr={caddr} MISPREDICTED={:?}", addrs), true));
                        }
                        self.n_contracts += 2;
                        let ck = self.ccodes.iter().position(|c| *c == code).unwrap_or(99);
                        self.minter = Some(MinterRec { addr: addrs[0].clone(), coll: addrs[1].clone(), ck });
                        (wit, true)
                    }
                    Err(_) => (wit, false),
                }
            }
            "inst_direct" => {
                let msg = json!({"init_msg": null, "collection_params": {"code_id": self.ccodes[0], "name": "Collection", "symbol": "COL",
                    "info": {"creator": who, "description": "d", "image": "https://example.com/image.png", "external_link": null,
                             "explicit_content": false, "start_trading_time": null, "royalty_info": null}}});
                let code = self.mcodes[0];
                let r = self.w.instantiate(code, &who, &msg, &[], None);
                if r.is_ok() {
                    self.n_contracts += 2;
                }
                (String::new(), r.is_ok())
            }
            "raw" => (String::new(), self.run_raw(line, &who)),
            "sudo_params" => {
                let r = self.w.sudo(&self.factory.clone(), &json!({"update_params": S::update_json(line)}));
                self.dbg(line, &r);
                (String::new(), r.is_ok())
            }
            "migrate" => {
                let msg = if kv_bool(line, "none")? { Value::Null } else { S::update_json(line) };
                let code = self.w.codes.base_factory;
                let r = self.w.migrate(&who, &self.factory.clone(), code, &msg);
                self.dbg(line, &r);
                (String::new(), r.is_ok())
            }
            "mint" => {
                let Some(mi) = mi else { return Some((String::new(), false)) };
                let uri = uri_str(kv_u64(line, "uri")?, kv_bool(line, "uriok")?);
                let r = self.w.exec(&who, &mi.addr, &json!({"mint": {"token_uri": uri}}), &funds);
                self.dbg(line, &r);
                (String::new(), r.is_ok())
            }
            "upd_trading" => {
                let Some(mi) = mi else { return Some((String::new(), false)) };
                let r = self.w.exec(&who, &mi.addr, &json!({"update_start_trading_time": jopt_time(kv_opt_u64(line, "t")?)}), &funds);
                self.dbg(line, &r);
                (String::new(), r.is_ok())
            }
            "sudo_status" => {
                let Some(mi) = mi else { return Some((String::new(), false)) };
                let r = self.w.sudo(&mi.addr, &json!({"update_status": {"is_verified": kv_bool(line, "v")?, "is_blocked": kv_bool(line, "b")?, "is_explicit": kv_bool(line, "e")?}}));
                (String::new(), r.is_ok())
            }
            "c_transfer" | "c_burn" | "c_trading" | "c_creator" | "c_freeze" | "c_own" => {
                let Some(mi) = mi else { return Some((String::new(), false)) };
                let msg = match op {
                    "c_transfer" => json!({"transfer_nft": {"recipient": ad(kv_u64(line, "to")?), "token_id": kv_u64(line, "id")?.to_string()}}),
                    "c_burn" => json!({"burn": {"token_id": kv_u64(line, "id")?.to_string()}}),
                    "c_trading" => json!({"update_start_trading_time": jopt_time(kv_opt_u64(line, "t")?)}),
                    "c_creator" => {
                        let info = json!({"creator": ad(kv_u64(line, "new")?)});
                        if mi.ck == 2 {
                            json!({"update_collection_info": {"new_collection_info": info}})
                        } else {
                            json!({"update_collection_info": {"collection_info": info}})
                        }
                    }
                    "c_freeze" => {
                        if mi.ck == 0 || mi.ck == 3 {
                            json!("freeze_collection_info")
                        } else {
                            json!({"freeze_collection_info": {}})
                        }
                    }
                    _ => match kv(line, "act")? {
                        "transfer" => json!({"update_ownership": {"transfer_ownership": {"new_owner": ad(kv_u64(line, "new")?), "expiry": null}}}),
                        "accept" => json!({"update_ownership": "accept_ownership"}),
                        "renounce" => json!({"update_ownership": "renounce_ownership"}),
                        _ => return None,
                    },
                };
                let r = self.w.exec(&who, &mi.coll, &msg, &[]);
                self.dbg(line, &r);
                (String::new(), r.is_ok())
            }
            _ => return None,
        })
    }
}

impl Sut for S {
    fn begin(&mut self, header: &str) -> (String, String) {
        let now = kv_u64(header, "now").expect("now");
        let mut w = World::new(now);
        let l64 = |key: &str| -> Vec<u64> { kv_list(header, key).unwrap_or_default().iter().map(|x| *x as u64).collect() };
        let mcodes = l64("mcodes");
        let ccodes = l64("ccodes");
        let real_m: Vec<u64> = vec![w.codes.minters[10]];
        let real_c = vec![w.codes.sg721_base, w.codes.sg721_updatable, w.codes.sg721_nt, w.codes.sg721_metadata_onchain];
        assert!(mcodes == real_m && ccodes == real_c, "header code tables {:?} {:?} differ from the world's {:?} {:?}", mcodes, ccodes, real_m, real_c);
        // EXACTLY the header's params (the factory's `instantiate` validates nothing)
        let pj = json!({
            "code_id": kv_u64(header, "code").expect("code"), "allowed_sg721_code_ids": l64("allowed"), "frozen": kv_bool(header, "frozen").expect("frozen"),
            "creation_fee": jcoin(coin_kv(header, "cfee").expect("cfee")), "min_mint_price": jcoin(coin_kv(header, "minp").expect("minp")),
            "mint_fee_bps": kv_u64(header, "feebps").expect("feebps"), "max_trading_offset_secs": kv_u64(header, "offset").expect("offset"),
            "extension": if kv_bool(header, "ext").expect("ext") { json!({}) } else { Value::Null }});
        let fadmin = kv_opt_u64(header, "fadmin").expect("fadmin").map(ad);
        let fcode = w.codes.base_factory;
        let factory = w.instantiate(fcode, &ad(GOV), &json!({"params": pj}), &[], fadmin.as_deref()).expect("factory");
        assert_eq!(aid(&factory), kv_u64(header, "fac").expect("fac"), "factory address");
        self.w = w;
        self.accts = l64("accts");
        self.probe = l64("probe");
        self.mcodes = mcodes;
        self.ccodes = ccodes;
        self.factory = factory;
        self.minter = None;
        self.n_contracts = 1;
        (header.to_string(), format!("case {}", self.obs()))
    }

    fn exec(&mut self, line: &str) -> (String, String) {
        let op = line.split_whitespace().next().unwrap_or("").to_string();
        if op == "t" {
            let Some(t) = kv_u64(line, "now") else { return (line.to_string(), "bad-op".into()) };
            if t < self.w.time() {
                return (line.to_string(), format!("err {}", self.obs()));
            }
            self.w.set_time(t);
            return (line.to_string(), format!("ok {}", self.obs()));
        }
        match self.run_op(&op, line) {
            Some((wit, ok)) => (format!("{line}{wit}"), format!("{} {}", if ok { "ok" } else { "err" }, self.obs())),
            None => (line.to_string(), "bad-op".to_string()),
        }
    }
}

// ------------------------------------------------------------------------------------------------ generators
//GEN-BEGIN
struct G {
    rng: Rng,
    /// code id of base-minter
    mc: u64,
    cc: Vec<u64>,
    /// code ids that exist but are not base-minter (a collection, the factory itself, a whitelist, a vending / open-edition minter)
    non_minter: Vec<u64>,
    uri: u64,
}
impl G {
    fn next_uri(&mut self) -> u64 {
        self.uri += 1;
        self.uri
    }
}

#[derive(Clone, Debug)]
struct Hdr {
    now: u64,
    code: u64,
    allowed: Vec<u64>,
    frozen: bool,
    cfee: (u64, u128),
    minp: (u64, u128),
    feebps: u64,
    offset: u64,
    ext: bool,
    fadmin: Option<u64>,
}
impl Hdr {
    fn std(now: u64, code: u64, cc: &[u64]) -> Hdr {
        Hdr { now, code, allowed: cc.to_vec(), frozen: false, cfee: (0, 250_000_000), minp: (0, 50_000_000), feebps: 1000, offset: 604_800, ext: false, fadmin: Some(GOV) }
    }
    fn line(&self, g: &G, tag: &str) -> String {
        format!(
            "case now={} fac=1000 fadmin={} mcodes={} ccodes={} accts={} probe={},1,9999 code={} allowed={} frozen={} cfee={} minp={} feebps={} offset={} ext={} {tag}",
            self.now, fmt_opt(&self.fadmin), g.mc, fmt_list(&g.cc), fmt_list(&ACCTS), fmt_list(&g.cc), self.code, fmt_list(&self.allowed), self.frozen as u8, rc(self.cfee), rc(self.minp), self.feebps, self.offset, self.ext as u8
        )
    }
}

fn rel(a: u64, b: u64) -> &'static str {
    if a < b {
        "lt"
    } else if a == b {
        "eq"
    } else {
        "gt"
    }
}

/// `ses.mark`; with COMPBASE_DUMP set every class is also counted (so that the report's distribution lists them)
fn mk(ses: &mut Session, class: String) {
    static DUMP: OnceLock<bool> = OnceLock::new();
    if *DUMP.get_or_init(|| std::env::var("COMPBASE_DUMP").is_ok()) {
        ses.count(&format!("class:{class}"));
    }
    ses.mark(class);
}

fn fee_class(f: u128) -> &'static str {
    match f {
        0 => "fee0",
        1 => "fee1",
        2 => "fee2",
        3 => "fee3",
        _ => "feeN",
    }
}

fn classify(ses: &mut Session, sut: &S, pre: &Last, line: &str, out: &str) {
    let op = line.split_whitespace().next().unwrap_or("?");
    let oc = out.split_whitespace().next().unwrap_or("?");
    let post = &sut.last;
    let ck = if pre.exists { pre.ck.to_string() } else { "x".into() };
    let sender = kv_u64(line, "sender").unwrap_or(0);
    match op {
        "create" => {
            let k = kv_u64(line, "code").and_then(|c| sut.ccodes.iter().position(|x| *x == c)).map(|x| x.to_string()).unwrap_or("x".into());
            let paid: u128 = funds_of(line).iter().map(|c| c.1).sum();
            let pay = if funds_of(line).len() != 1 { "shape" } else if funds_of(line)[0].0 != pre.cfee.0 { "denom" } else { rel(paid.min(u64::MAX as u128) as u64, pre.cfee.1.min(u64::MAX as u128) as u64) };
            mk(ses, format!("ck{k}/create/{oc}/pay-{pay}/feedenom{}/{}", pre.cfee.0, fee_class(pre.cfee.1)));
            mk(ses, format!("create/{oc}/ck{k}/desc{}/image{}/link{}/roy{}/creator{}/trading{}/payer{}", kv(line, "desc").map(|d| if d == "512" { "max" } else if d == "513" { "max+1" } else { "n" }).unwrap_or("?"),
                kv(line, "image").unwrap_or("?"), kv(line, "link").unwrap_or("?"), match kv(line, "roy") { Some("-") => "none".to_string(), Some(v) => { let (s, p) = v.split_once(':').unwrap_or(("0", "x")); format!("{}{}", rel((s.parse::<u128>().unwrap_or(0) / 1_000_000_000) as u64, (ONE / 1_000_000_000) as u64), if p == "x" { "-badaddr" } else { "" }) } None => "?".into() },
                if kv(line, "creator") == Some("x") { "bad" } else { "ok" }, match kv_opt_u64(line, "trading").unwrap_or(None) { None => "default", Some(t) => rel(t, pre.now) }, if kv(line, "creator").and_then(|c| c.parse::<u64>().ok()) == Some(sender) { "creator" } else { "other" }));
            if oc == "ok" {
                mk(ses, format!("ck{k}/create/ok"));
                if pay == "gt" {
                    mk(ses, format!("create/overpaid/ok/feedenom{}", pre.cfee.0));
                }
            }
            if pre.f_frozen {
                mk(ses, format!("create/{oc}/frozen"));
            }
            if pre.f_code != sut.mcodes[0] {
                mk(ses, format!("create/{oc}/code-not-base-minter"));
            }
        }
        "mint" => {
            let paid: Vec<(u64, u128)> = funds_of(line);
            let fee = pre.fee();
            let pay = if paid.len() != 1 { "shape".to_string() } else if paid[0].0 != 0 { "denom".into() } else { rel(paid[0].1.min(u64::MAX as u128) as u64, fee.min(u64::MAX as u128) as u64).to_string() };
            let who = if !pre.exists { "-" } else if sender == pre.creator { "creator" } else if sender == ADMIN { "old-creator" } else { "stranger" };
            let own = if pre.owner == Some(pre.maddr) { "own" } else { "notown" };
            mk(ses, format!("ck{ck}/mint/{oc}/{who}/pay-{pay}/{}/uri{}/{own}/pricedenom{}", fee_class(fee), kv(line, "uriok").unwrap_or("?"), pre.price.0));
            if oc == "ok" {
                mk(ses, format!("ck{ck}/mint/ok"));
                mk(ses, format!("mint/ok/{}", fee_class(fee)));
                if pre.minp != pre.price {
                    mk(ses, "mint/ok/captured-price-differs-from-factory-min".to_string());
                }
                if post.idx == pre.idx + 1 && pre.idx >= 1 {
                    mk(ses, "mint/ok/second-or-later".to_string());
                }
            } else if pre.exists {
                mk(ses, format!("ck{ck}/mint/err"));
                if who == "creator" && pay == "eq" && kv(line, "uriok") == Some("1") && own == "own" {
                    mk(ses, format!("mint/err/all-gates-pass/ck{ck}/{}", fee_class(fee)));
                }
            }
        }
        "upd_trading" => {
            let t = kv_opt_u64(line, "t").unwrap_or(None);
            let who = if !pre.exists { "-" } else if sender == pre.creator { "creator" } else { "stranger" };
            mk(ses, format!("ck{ck}/upd_trading/{oc}/{who}/t-{}/funds{}", t.map(|t| rel(t, pre.now)).unwrap_or("none"), if funds_of(line).is_empty() { 0 } else { 1 }));
            if pre.exists {
                mk(ses, format!("ck{ck}/upd_trading/{oc}"));
            }
        }
        "sudo_params" | "migrate" => {
            let keys: Vec<&str> = line.split_whitespace().skip(1).filter_map(|w| w.split_once('=').map(|x| x.0)).filter(|k| *k != "sender").collect();
            mk(ses, format!("{op}/{oc}/{}", keys.join("+")));
            mk(ses, format!("{op}/{oc}/minter{}", pre.exists as u8));
            if op == "migrate" {
                mk(ses, format!("migrate/{oc}/none{}/{}", kv(line, "none").unwrap_or("?"), if sender == GOV { "admin" } else { "other" }));
            }
        }
        "c_transfer" | "c_burn" | "c_trading" | "c_creator" | "c_freeze" | "c_own" => {
            mk(ses, format!("ck{ck}/{op}/{oc}/{}", kv(line, "act").unwrap_or("-")));
        }
        "raw" => mk(ses, format!("raw/{oc}/{}/minter{}", kv(line, "kind").unwrap_or("?"), pre.exists as u8)),
        "t" => mk(ses, format!("t/{oc}/{}", if pre.exists { pre.trading.map(|t| rel(kv_u64(line, "now").unwrap_or(0), t)).unwrap_or("x") } else { "nominter" })),
        _ => mk(ses, format!("ck{ck}/{op}/{oc}")),
    }
}

fn step(ses: &mut Session, sut: &mut S, line: &str) -> bool {
    let pre = sut.last.clone();
    let out = ses.step(sut, line);
    if sut.trace {
        eprintln!("TRACE {line} => {}", &out[..out.len().min(3)]);
    }
    classify(ses, sut, &pre, line, &out);
    out.starts_with("ok")
}
fn expect_ok(ses: &mut Session, sut: &mut S, line: &str) {
    if !step(ses, sut, line) {
        eprintln!("TOUR-UNEXPECTED err: {line}");
        ses.count("tour-unexpected-err");
    }
}
fn expect_err(ses: &mut Session, sut: &mut S, line: &str) {
    if step(ses, sut, line) {
        eprintln!("TOUR-UNEXPECTED ok: {line}");
        ses.count("tour-unexpected-ok");
    }
}
fn funds_str(c: Option<(u64, u128)>) -> String {
    match c {
        Some((_, 0)) | None => "-".into(),
        Some((d, a)) => format!("{d}:{a}"),
    }
}
/// single-fault mutation of an attached payment
fn mut_funds(rng: &mut Rng, base: (u64, u128)) -> String {
    let (d, a) = base;
    match rng.below(7) {
        0 => format!("{d}:{}", a + 1),
        1 if a > 0 => format!("{d}:{}", a - 1),
        2 => format!("{}:{}", 1 - d.min(1), a.max(1)),
        3 => format!("{d}:{},{}:5", a.max(1), 1 - d.min(1)),
        4 if a > 0 => "-".into(),
        5 => format!("{d}:0"),
        _ => format!("{d}:{}", a + 1),
    }
}

#[derive(Clone, Debug)]
struct CreateSpec {
    sender: u64,
    funds: String,
    init: bool,
    code: u64,
    creator: Option<u64>,
    trading: Option<u64>,
    desc: u64,
    image: bool,
    link: Option<bool>,
    roy: Option<(u128, Option<u64>)>,
}
impl CreateSpec {
    fn line(&self) -> String {
        format!(
            "create sender={} funds={} init={} code={} creator={} trading={} desc={} image={} link={} roy={}",
            self.sender, self.funds, self.init as u8, self.code, ox(&self.creator), fmt_opt(&self.trading), self.desc, self.image as u8,
            match self.link { None => "-", Some(true) => "1", Some(false) => "0" },
            match &self.roy { None => "-".to_string(), Some((s, p)) => format!("{s}:{}", ox(p)) }
        )
    }
    fn basic(code: u64, cfee: (u64, u128)) -> CreateSpec {
        CreateSpec { sender: ADMIN, funds: funds_str(Some(cfee)), init: false, code, creator: Some(ADMIN), trading: None, desc: 12, image: true, link: Some(true), roy: None }
    }
}
fn valid_create(sut: &S, g: &mut G) -> CreateSpec {
    let l = &sut.last;
    let colls: Vec<u64> = l.f_allowed.iter().cloned().filter(|c| g.cc.contains(c)).collect();
    // a base minter on sg721-metadata-onchain never mints: keep it rarer
    let good: Vec<u64> = colls.iter().cloned().filter(|c| *c != g.cc[3]).collect();
    let code = if colls.is_empty() {
        g.cc[0]
    } else if !good.is_empty() && g.rng.chance(5, 6) {
        *g.rng.pick(&good)
    } else {
        *g.rng.pick(&colls)
    };
    let mut c = CreateSpec::basic(code, l.cfee);
    c.init = g.rng.chance(1, 4);
    c.link = *g.rng.pick(&[None, Some(true), Some(true)]);
    c.desc = *g.rng.pick(&[0u64, 1, 12, 40, 511, 512]);
    if g.rng.chance(1, 3) {
        c.roy = Some((*g.rng.pick(&[0u128, ONE / 20, ONE / 10, ONE / 2, ONE]), Some(ROYAL)));
    }
    if g.rng.chance(1, 3) {
        c.trading = Some(match g.rng.below(5) {
            0 => l.now.saturating_sub(1 + g.rng.below(1000)),
            1 => l.now,
            2 => l.now + 1,
            3 => l.now + l.offset.saturating_mul(SEC).saturating_add(77),
            _ => l.now + g.rng.below(5000),
        });
    }
    if g.rng.chance(1, 5) {
        c.sender = PAYER; // somebody else pays, ADMIN is the creator
    }
    c
}

/// one single-fault (or boundary) mutation of an otherwise valid CreateMinter
fn mutate_create(sut: &S, g: &mut G, c: &mut CreateSpec) -> &'static str {
    let l = sut.last.clone();
    match g.rng.below(24) {
        0 => {
            c.funds = if l.cfee.1 > 1 { format!("{}:{}", l.cfee.0, l.cfee.1 - 1) } else { "-".into() };
            "fee-1"
        }
        1 => {
            c.funds = format!("{}:{}", l.cfee.0, l.cfee.1 + 1 + g.rng.below(1000) as u128);
            "fee-overpaid"
        }
        2 => {
            c.funds = format!("{}:{}", 1 - l.cfee.0.min(1), l.cfee.1.max(1));
            "fee-denom"
        }
        3 => {
            c.funds = format!("{}:{},{}:7", l.cfee.0, l.cfee.1.max(1), 1 - l.cfee.0.min(1));
            "fee-two-coins"
        }
        4 => {
            c.funds = "-".into();
            "fee-none"
        }
        5 => {
            c.funds = format!("{}:0", l.cfee.0);
            "fee-zero-coin"
        }
        6 => {
            c.code = *g.rng.pick(&[9999u64, g.mc, 1]);
            "code-not-allowed"
        }
        7 => {
            c.creator = None;
            "creator-invalid"
        }
        8 => {
            c.desc = 512;
            "desc-max"
        }
        9 => {
            c.desc = 513;
            "desc-max+1"
        }
        10 => {
            c.image = false;
            "image-bad"
        }
        11 => {
            c.link = Some(false);
            "link-bad"
        }
        12 => {
            c.roy = Some((ONE, Some(ROYAL)));
            "roy-100pct"
        }
        13 => {
            c.roy = Some((ONE + 1, Some(ROYAL)));
            "roy-100pct+1"
        }
        14 => {
            c.roy = Some((ONE / 20, None));
            "roy-bad-address"
        }
        15 => {
            c.sender = 31; // never funded
            "sender-poor"
        }
        16 => {
            c.sender = PAYER;
            "payer-is-not-creator"
        }
        17 => {
            c.creator = Some(STRANGER);
            "creator-other"
        }
        18 => {
            c.trading = Some(l.now.saturating_sub(5));
            "trading-past"
        }
        19 => {
            c.trading = Some(l.now + l.offset.saturating_mul(SEC).saturating_add(1));
            "trading-beyond-offset"
        }
        20 => {
            c.init = true;
            "init-some"
        }
        21 => {
            c.link = None;
            c.roy = None;
            c.desc = 0;
            "minimal"
        }
        22 => {
            c.code = g.cc[3];
            "coll-metadata"
        }
        _ => {
            c.code = g.cc[2];
            "coll-nt"
        }
    }
}

const RAW_KINDS: [&str; 17] = [
    "m.mint_to", "m.mint_for", "m.purge", "m.burn_remaining", "m.shuffle", "m.update_mint_price", "m.update_start_time", "m.update_per_address_limit", "m.set_whitelist",
    "m.mint_empty", "m.mint_number", "m.exec_update_status", "f.exec_update_params", "f.create_empty", "f.mint", "m.sudo_update_params", "f.sudo_update_status",
];

fn do_time(ses: &mut Session, sut: &mut S, g: &mut G) {
    let l = sut.last.clone();
    let now = l.now;
    let mut cands: Vec<u64> = vec![];
    if let Some(t) = l.trading {
        cands.extend([t.saturating_sub(1), t, t + 1]);
    }
    cands.retain(|t| *t > now);
    let t = if !cands.is_empty() && g.rng.chance(1, 2) {
        *g.rng.pick(&cands)
    } else if g.rng.chance(1, 10) {
        now.saturating_sub(1 + g.rng.below(5)) // the clock never runs backwards: refused on both sides
    } else if g.rng.chance(1, 8) {
        now // next block, same time
    } else {
        now + 1 + g.rng.below(300)
    };
    step(ses, sut, &format!("t now={t}"));
}

fn do_sudo_params(ses: &mut Session, sut: &mut S, g: &mut G, via_migrate: bool) {
    let l = sut.last.clone();
    let body = match g.rng.below(20) {
        0 => format!("feebps={}", g.rng.pick(&[0u64, 1, 500, 1000, 5000, 9999, 10_000, 10_001, 20_000])),
        1 => format!("cfee={}", g.rng.pick(&["1:1000", "0:250000000", "0:3", "0:2", "0:1", "0:0", "1:0", "1:1"])),
        2 => format!("minp=0:{}", g.rng.pick(&[0u128, 1, 2, 3, 19, 20, 21, 50_000_000, 50_000_001, 100_000_000])),
        3 => "minp=1:50000000".to_string(), // the one refusal of the family's governance
        4 => format!("frozen={}", g.rng.below(2)),
        5 => {
            let c = *g.rng.pick(&[g.cc[0], g.cc[1], g.cc[2], g.cc[3], 9999, g.mc]);
            format!("addc={c},{c},{}", g.rng.pick(&[g.cc[0], 7777]))
        }
        6 => format!("rmc={}", g.rng.pick(&[g.cc[0], g.cc[1], g.cc[3], 7777])),
        7 => format!("addc={} rmc={}", g.cc[2], g.cc[2]),
        8 => format!("offset={}", g.rng.pick(&[0u64, 1, 2, 60, 604_800])),
        9 => format!("code={}", g.rng.pick(&[g.mc, g.mc, 9999, g.non_minter[0], g.non_minter[1], g.non_minter[2], g.non_minter[3], g.non_minter[4]])),
        10 => String::new(),
        11 => format!("feebps={} minp=1:9 frozen=1", l.feebps + 1), // one bad denom: nothing at all is saved
        12 => format!("ext={}", g.rng.below(2)),                    // accepted, ignored
        13 => "addc=-".to_string(),                                 // no additions: the list is de-duplicated all the same
        14 => format!("feebps={} minp=0:{}", g.rng.pick(&[1u64, 2500, 10_000]), g.rng.pick(&[1u128, 4, 40_000_000])),
        _ => format!("code={} frozen=0 cfee={} minp={} feebps={} offset={} addc=- rmc=-", l.f_code, rc(l.cfee), if l.minp.0 == 0 { rc(l.minp) } else { "0:5".into() }, l.feebps, l.offset),
    };
    if via_migrate {
        let s = if g.rng.chance(1, 5) { *g.rng.pick(&[STRANGER, ADMIN]) } else { GOV };
        if g.rng.chance(1, 4) {
            step(ses, sut, &format!("migrate sender={s} none=1"));
        } else {
            step(ses, sut, &format!("migrate sender={s} none=0 {body}"));
        }
    } else {
        step(ses, sut, format!("sudo_params {body}").trim_end());
    }
}

fn do_mint(ses: &mut Session, sut: &mut S, g: &mut G) -> bool {
    let l = sut.last.clone();
    let fee = l.fee();
    let s = if g.rng.chance(1, 8) { *g.rng.pick(&[STRANGER, ADMIN, 20, l.maddr.max(1)]) } else { l.creator };
    let funds = if g.rng.chance(1, 6) { mut_funds(&mut g.rng, (0, fee)) } else { funds_str(Some((0, fee))) };
    let ok = if g.rng.chance(1, 12) { 0 } else { 1 };
    let u = g.next_uri();
    step(ses, sut, &format!("mint sender={s} funds={funds} uri={u} uriok={ok}"))
}

fn do_upd_trading(ses: &mut Session, sut: &mut S, g: &mut G) {
    let l = sut.last.clone();
    let s = if g.rng.chance(1, 7) { *g.rng.pick(&[STRANGER, ADMIN, 21]) } else { l.creator };
    let f = if g.rng.chance(1, 12) { "0:1" } else { "-" };
    let tr = l.trading.unwrap_or(l.now);
    let t = match g.rng.below(10) {
        0 => "-".to_string(),
        1 | 2 => l.now.to_string(),
        3 => l.now.saturating_sub(1).to_string(),
        4 => (l.now + 1).to_string(),
        5 => tr.to_string(),
        6 => (l.now + l.offset.saturating_mul(SEC).saturating_add(1)).to_string(), // no upper bound in this family
        7 => tr.saturating_sub(1).to_string(),
        _ => (l.now + g.rng.below(5000)).to_string(),
    };
    step(ses, sut, &format!("upd_trading sender={s} funds={f} t={t}"));
}

fn do_coll_op(ses: &mut Session, sut: &mut S, g: &mut G) {
    let l = sut.last.clone();
    if !l.exists {
        step(ses, sut, &format!("c_freeze sender={ADMIN}"));
        return;
    }
    match g.rng.below(12) {
        0 | 1 => {
            if let Some((id, o)) = if l.toks.is_empty() { None } else { Some(*g.rng.pick(&l.toks)) } {
                let s = if g.rng.chance(1, 5) { STRANGER } else { o };
                step(ses, sut, &format!("c_transfer sender={s} id={id} to={}", g.rng.pick(&[20u64, 21, 30, 12])));
            } else {
                step(ses, sut, "c_transfer sender=20 id=1 to=21");
            }
        }
        2 => {
            if let Some((id, o)) = if l.toks.is_empty() { None } else { Some(*g.rng.pick(&l.toks)) } {
                let s = if g.rng.chance(1, 3) { STRANGER } else { o };
                step(ses, sut, &format!("c_burn sender={s} id={id}"));
            } else {
                step(ses, sut, &format!("c_burn sender=20 id={}", 1 + g.rng.below(4)));
            }
        }
        3 | 4 => {
            let s = *g.rng.pick(&[l.maddr, l.maddr, l.creator, STRANGER]);
            let t = match g.rng.below(4) {
                0 => "-".to_string(),
                1 => l.now.to_string(),
                2 => (l.now + 1000).to_string(),
                _ => l.now.saturating_sub(5).to_string(),
            };
            step(ses, sut, &format!("c_trading sender={s} t={t}"));
        }
        5 | 6 => {
            let s = *g.rng.pick(&[l.creator, l.creator, ADMIN, STRANGER]);
            step(ses, sut, &format!("c_creator sender={s} new={}", g.rng.pick(&[ADMIN, STRANGER, 21, 20])));
        }
        7 => {
            let s = *g.rng.pick(&[l.creator, l.creator, STRANGER]);
            step(ses, sut, &format!("c_freeze sender={s}"));
        }
        _ => {
            // ownership of the collection: transfer by the minter (the cw_ownable owner), accept by the pending owner
            let own = l.owner.unwrap_or(l.maddr);
            match g.rng.below(6) {
                0 | 1 => {
                    let s = if g.rng.chance(1, 4) { STRANGER } else { own };
                    step(ses, sut, &format!("c_own sender={s} act=transfer new={}", g.rng.pick(&[STRANGER, 21, l.maddr])));
                }
                2 | 3 => {
                    let s = l.pending.unwrap_or(STRANGER);
                    step(ses, sut, &format!("c_own sender={s} act=accept new=0"));
                }
                4 => {
                    step(ses, sut, "c_own sender=22 act=accept new=0");
                }
                _ => {
                    let s = if g.rng.chance(1, 2) { STRANGER } else { own };
                    if g.rng.chance(1, 3) {
                        step(ses, sut, &format!("c_own sender={s} act=renounce new=0"));
                    } else {
                        step(ses, sut, &format!("c_own sender={s} act=transfer new={}", l.maddr));
                    }
                }
            }
        }
    }
}

fn do_raw(ses: &mut Session, sut: &mut S, g: &mut G) {
    let unk = sut.sf.unknown_exec.clone();
    let s = *g.rng.pick(&[ADMIN, STRANGER, GOV]);
    if !unk.is_empty() && g.rng.chance(1, 2) {
        let (ep, v) = g.rng.pick(&unk).clone();
        step(ses, sut, &format!("raw sender={s} kind=schema.{ep}.{v}"));
    } else {
        step(ses, sut, &format!("raw sender={s} kind={}", g.rng.pick(&RAW_KINDS)));
    }
}

/// one random step of the walk
fn rand_op(ses: &mut Session, sut: &mut S, g: &mut G) {
    let l = sut.last.clone();
    let mut r = g.rng.below(100);
    if !l.exists && (10..=59).contains(&r) && g.rng.chance(5, 6) {
        r = 60 + g.rng.below(40);
    }
    match r {
        0..=9 => do_time(ses, sut, g),
        10..=39 => {
            let n = if g.rng.chance(1, 4) { 2 + g.rng.below(2) } else { 1 };
            for _ in 0..n {
                do_mint(ses, sut, g); // same block when repeated
            }
        }
        40..=49 => do_upd_trading(ses, sut, g),
        50..=59 => do_coll_op(ses, sut, g),
        60..=63 => {
            step(ses, sut, &format!("sudo_status v={} b={} e={}", g.rng.below(2), g.rng.below(2), g.rng.below(2)));
        }
        64..=75 => do_sudo_params(ses, sut, g, false),
        76..=81 => do_sudo_params(ses, sut, g, true),
        82..=85 => {
            let a = *g.rng.pick(&[20u64, 21, 30, 10, 11]);
            step(ses, sut, &format!("fund a={a} d={} amt={}", g.rng.below(2), g.rng.pick(&[0u128, 1, 100_000_000, 1_000_000_000])));
        }
        86..=88 => {
            step(ses, sut, &format!("inst_direct sender={}", g.rng.pick(&[ADMIN, STRANGER, GOV])));
        }
        89..=93 => do_raw(ses, sut, g),
        94..=96 => do_time(ses, sut, g),
        _ => {
            // a second CreateMinter is outside the model's scope (one minter per case): refused on both sides without being sent
            let mut c = valid_create(sut, g);
            if !l.exists && g.rng.chance(1, 2) {
                mutate_create(sut, g, &mut c);
            }
            step(ses, sut, &c.line());
        }
    }
}

fn fund_std(ses: &mut Session, sut: &mut S) {
    step(ses, sut, &format!("fund a={ADMIN} d=0 amt=1000000000000"));
    step(ses, sut, &format!("fund a={PAYER} d=0 amt=1000000000000"));
    for b in [20u64, 21, STRANGER] {
        step(ses, sut, &format!("fund a={b} d=0 amt=100000000000"));
    }
}
fn fund_d1(ses: &mut Session, sut: &mut S) {
    for b in [ADMIN, PAYER, 20, STRANGER] {
        step(ses, sut, &format!("fund a={b} d=1 amt=100000000000"));
    }
}

/// deterministic scenario per collection kind (independent of the seed): every message kind of the family once accepted (where the
/// collection contract allows it) and once refused
fn tour(ses: &mut Session, sut: &mut S, g: &mut G, ck: usize) {
    let now = GENESIS + 1_000_000 + 1000 * ck as u64;
    let h = Hdr::std(now, g.mc, &g.cc);
    ses.begin_case(sut, &h.line(g, &format!("tour ck={ck}")));
    fund_std(ses, sut);
    let fee = 5_000_000u128; // 50 000 000 × 10 %
    // nothing exists yet
    expect_err(ses, sut, &format!("mint sender={ADMIN} funds=0:{fee} uri=1 uriok=1"));
    expect_err(ses, sut, &format!("upd_trading sender={ADMIN} funds=- t=-"));
    expect_err(ses, sut, "sudo_status v=1 b=0 e=0");
    expect_err(ses, sut, &format!("inst_direct sender={ADMIN}"));
    for k in RAW_KINDS {
        expect_err(ses, sut, &format!("raw sender={ADMIN} kind={k}"));
    }
    for (ep, v) in sut.sf.unknown_exec.clone() {
        step(ses, sut, &format!("raw sender={GOV} kind=schema.{ep}.{v}"));
    }
    let mut c = CreateSpec::basic(g.cc[ck], h.cfee);
    c.roy = Some((ONE / 20, Some(ROYAL)));
    if ck % 2 == 1 {
        c.sender = PAYER; // the wasm admin of the minter is the payer, not the creator
        c.funds = "0:250000777".into(); // overpaid: the excess stays with the factory
    }
    expect_err(ses, sut, &CreateSpec { funds: "0:249999999".into(), ..c.clone() }.line());
    expect_ok(ses, sut, &c.line());
    expect_err(ses, sut, &c.line()); // one minter per case
    expect_ok(ses, sut, "sudo_status v=1 b=0 e=1");
    for k in RAW_KINDS {
        expect_err(ses, sut, &format!("raw sender={ADMIN} kind={k}"));
    }
    // mint: creator only, exact fee, a URL
    expect_err(ses, sut, &format!("mint sender={STRANGER} funds=0:{fee} uri=1 uriok=1"));
    expect_err(ses, sut, &format!("mint sender={ADMIN} funds=0:{} uri=1 uriok=1", fee - 1));
    expect_err(ses, sut, &format!("mint sender={ADMIN} funds=0:{} uri=1 uriok=1", fee + 1));
    expect_err(ses, sut, &format!("mint sender={ADMIN} funds=- uri=1 uriok=1"));
    expect_err(ses, sut, &format!("mint sender={ADMIN} funds=0:{fee} uri=1 uriok=0"));
    let minted = step(ses, sut, &format!("mint sender={ADMIN} funds=0:{fee} uri=1 uriok=1"));
    step(ses, sut, &format!("mint sender={ADMIN} funds=0:{fee} uri=2 uriok=1")); // same block
    mk(ses, format!("tour/ck{ck}/first-mint-{}", if minted { "ok" } else { "err" }));
    // governance: the price was captured, the fee rate is live
    expect_ok(ses, sut, "sudo_params minp=0:80000000");
    step(ses, sut, &format!("mint sender={ADMIN} funds=0:{fee} uri=3 uriok=1"));
    expect_err(ses, sut, &format!("mint sender={ADMIN} funds=0:8000000 uri=3 uriok=1"));
    expect_ok(ses, sut, "sudo_params feebps=2000");
    expect_err(ses, sut, &format!("mint sender={ADMIN} funds=0:{fee} uri=4 uriok=1"));
    step(ses, sut, &format!("mint sender={ADMIN} funds=0:{} uri=4 uriok=1", 2 * fee));
    expect_err(ses, sut, "sudo_params minp=1:5");
    expect_ok(ses, sut, &format!("migrate sender={GOV} none=1"));
    expect_ok(ses, sut, &format!("migrate sender={GOV} none=0 feebps=1000 addc=7777"));
    expect_err(ses, sut, &format!("migrate sender={STRANGER} none=1"));
    expect_err(ses, sut, &format!("migrate sender={GOV} none=0 minp=1:5"));
    // trading time: creator only, not in the past, no upper bound; sg721-nt has no such message
    let t0 = sut.last.now;
    expect_err(ses, sut, &format!("upd_trading sender={STRANGER} funds=- t={}", t0 + 10));
    expect_err(ses, sut, &format!("upd_trading sender={ADMIN} funds=0:1 t={}", t0 + 10));
    expect_err(ses, sut, &format!("upd_trading sender={ADMIN} funds=- t={}", t0 - 1));
    for t in [format!("{t0}"), format!("{}", t0 + 1), format!("{}", t0 + 605_000 * SEC), "-".to_string()] {
        let ok = step(ses, sut, &format!("upd_trading sender={ADMIN} funds=- t={t}"));
        mk(ses, format!("tour/ck{ck}/upd_trading-{}", if ok { "ok" } else { "err" }));
    }
    expect_ok(ses, sut, &format!("t now={}", t0 + 50));
    // collection interface
    let m = sut.last.maddr;
    if let Some((id, o)) = sut.last.toks.first().cloned() {
        step(ses, sut, &format!("c_transfer sender={o} id={id} to=30")); // not on sg721-nt
        let o2 = sut.last.toks.first().map(|x| x.1).unwrap_or(o);
        expect_err(ses, sut, &format!("c_burn sender=22 id={id}"));
        expect_ok(ses, sut, &format!("c_burn sender={o2} id={id}"));
    }
    step(ses, sut, &format!("c_trading sender={m} t={}", t0 + 99)); // not on sg721-nt
    expect_err(ses, sut, &format!("c_trading sender={ADMIN} t=-"));
    expect_err(ses, sut, &format!("c_creator sender={STRANGER} new=21"));
    expect_ok(ses, sut, &format!("c_creator sender={ADMIN} new=21"));
    // the new creator mints, the old one cannot; the wasm admins do not move
    expect_err(ses, sut, &format!("mint sender={ADMIN} funds=0:{fee} uri=5 uriok=1"));
    step(ses, sut, &format!("mint sender=21 funds=0:{fee} uri=5 uriok=1"));
    step(ses, sut, &format!("upd_trading sender=21 funds=- t={}", t0 + 500));
    expect_ok(ses, sut, "c_freeze sender=21");
    expect_err(ses, sut, "c_creator sender=21 new=10");
    // ownership hand-over (sg721-base / -metadata-onchain only): the minter can no longer mint
    let can_own = ck == 0 || ck == 3;
    let r = step(ses, sut, &format!("c_own sender={m} act=transfer new=30"));
    mk(ses, format!("tour/ck{ck}/own-transfer-{}", if r { "ok" } else { "err" }));
    if can_own {
        step(ses, sut, &format!("mint sender=21 funds=0:{fee} uri=6 uriok=1")); // pending only
        expect_ok(ses, sut, "c_own sender=30 act=accept new=0");
        expect_err(ses, sut, &format!("mint sender=21 funds=0:{fee} uri=7 uriok=1"));
        expect_err(ses, sut, &format!("upd_trading sender=21 funds=- t={}", t0 + 600));
        expect_ok(ses, sut, &format!("c_own sender=30 act=transfer new={m}"));
        expect_ok(ses, sut, &format!("c_own sender={m} act=accept new=0"));
        step(ses, sut, &format!("mint sender=21 funds=0:{fee} uri=7 uriok=1"));
        if ck == 3 {
            expect_ok(ses, sut, &format!("c_own sender={m} act=renounce new=0"));
            expect_err(ses, sut, &format!("upd_trading sender=21 funds=- t={}", t0 + 700));
        }
    }
    ses.end_case();
}

/// deterministic single-topic scenarios
fn special_case(ses: &mut Session, sut: &mut S, g: &mut G, k: usize) {
    let now = GENESIS + 4_000_000 + 100 * k as u64;
    let mut h = Hdr::std(now, g.mc, &g.cc);
    let mint = |who: u64, amt: u128, u: u64| format!("mint sender={who} funds={} uri={u} uriok=1", funds_str(Some((0, amt))));
    match k {
        0 => {
            // the fee boundary: 0 (nothing can be paid), 1 (the burned half is zero: the bank refuses), 2, 3
            h.minp = (0, 20);
            h.feebps = 400; // 20 × 4 % = 0
            ses.begin_case(sut, &h.line(g, "special k=fee-boundary"));
            fund_std(ses, sut);
            expect_ok(ses, sut, &CreateSpec::basic(g.cc[0], h.cfee).line());
            expect_err(ses, sut, &mint(ADMIN, 0, 1));
            expect_err(ses, sut, &format!("mint sender={ADMIN} funds=0:0 uri=1 uriok=1"));
            expect_err(ses, sut, &mint(ADMIN, 1, 1));
            expect_ok(ses, sut, "sudo_params feebps=500"); // fee 1
            expect_err(ses, sut, &mint(ADMIN, 1, 1));
            expect_ok(ses, sut, "sudo_params feebps=1000"); // fee 2
            expect_ok(ses, sut, &mint(ADMIN, 2, 1));
            expect_ok(ses, sut, "sudo_params feebps=1500"); // fee 3: burn 1, pool 2
            expect_ok(ses, sut, &mint(ADMIN, 3, 2));
            expect_ok(ses, sut, "sudo_params feebps=10000"); // the whole price
            expect_ok(ses, sut, &mint(ADMIN, 20, 3));
            expect_ok(ses, sut, "sudo_params feebps=20000"); // twice the price
            expect_ok(ses, sut, &mint(ADMIN, 40, 4));
        }
        1 => {
            // the captured price keeps the denom of the factory minimum, the payment is native all the same
            h.minp = (1, 7_000);
            h.feebps = 5000;
            ses.begin_case(sut, &h.line(g, "special k=price-denom1"));
            fund_std(ses, sut);
            fund_d1(ses, sut);
            expect_ok(ses, sut, &CreateSpec::basic(g.cc[1], h.cfee).line());
            expect_err(ses, sut, &format!("mint sender={ADMIN} funds=1:3500 uri=1 uriok=1"));
            expect_ok(ses, sut, &mint(ADMIN, 3500, 1));
            expect_err(ses, sut, "sudo_params minp=1:9");
            expect_ok(ses, sut, "sudo_params minp=0:9");
            expect_ok(ses, sut, &mint(ADMIN, 3500, 2));
        }
        2 => {
            // creation fee in another denom: all of the PAYMENT goes to the launchpad DAO
            h.cfee = (1, 1000);
            ses.begin_case(sut, &h.line(g, "special k=cfee-denom1"));
            fund_std(ses, sut);
            fund_d1(ses, sut);
            let c = CreateSpec::basic(g.cc[0], h.cfee);
            expect_err(ses, sut, &CreateSpec { funds: "0:1000".into(), ..c.clone() }.line());
            expect_err(ses, sut, &CreateSpec { funds: "1:999".into(), ..c.clone() }.line());
            expect_ok(ses, sut, &CreateSpec { funds: "1:1234".into(), ..c.clone() }.line());
            expect_ok(ses, sut, &mint(ADMIN, 5_000_000, 1));
        }
        3 | 4 | 5 => {
            // native creation fee 0 / 1 / 2
            h.cfee = (0, (k - 3) as u128);
            ses.begin_case(sut, &h.line(g, &format!("special k=cfee-{}", k - 3)));
            fund_std(ses, sut);
            let c = CreateSpec::basic(g.cc[0], h.cfee);
            step(ses, sut, &CreateSpec { funds: "-".into(), ..c.clone() }.line());
            step(ses, sut, &CreateSpec { funds: "0:0".into(), ..c.clone() }.line());
            step(ses, sut, &CreateSpec { funds: "0:1".into(), ..c.clone() }.line());
            let ok = step(ses, sut, &CreateSpec { funds: "0:2".into(), ..c.clone() }.line());
            mk(ses, format!("special/cfee-{}/paid2/{}", k - 3, if ok { "ok" } else { "err" }));
            step(ses, sut, &CreateSpec { funds: "0:5".into(), ..c.clone() }.line());
        }
        6 => {
            // frozen factory, allow-list edits, code id
            h.frozen = true;
            h.allowed = vec![g.cc[1], g.cc[1], 9999];
            ses.begin_case(sut, &h.line(g, "special k=factory-rules"));
            fund_std(ses, sut);
            let c = CreateSpec::basic(g.cc[1], h.cfee);
            expect_err(ses, sut, &c.line());
            expect_ok(ses, sut, "sudo_params frozen=0 rmc=9999");
            expect_err(ses, sut, &CreateSpec { code: g.cc[0], ..c.clone() }.line());
            expect_err(ses, sut, &CreateSpec { code: 9999, ..c.clone() }.line());
            expect_ok(ses, sut, &format!("sudo_params addc=9999,{} code={}", g.mc, g.non_minter[0]));
            expect_err(ses, sut, &c.line()); // the factory would instantiate a collection contract as the minter
            expect_err(ses, sut, &CreateSpec { code: 9999, ..c.clone() }.line());
            expect_ok(ses, sut, &format!("sudo_params code={}", g.non_minter[3]));
            expect_err(ses, sut, &c.line()); // a vending minter does not parse the base create message
            expect_ok(ses, sut, "sudo_params code=9999");
            expect_err(ses, sut, &c.line());
            expect_ok(ses, sut, &format!("sudo_params code={}", g.mc));
            expect_err(ses, sut, &CreateSpec { code: g.mc, ..c.clone() }.line()); // allow-listed, but it is a minter, not a collection
            expect_ok(ses, sut, &c.line());
            expect_ok(ses, sut, "sudo_params frozen=1");
            expect_ok(ses, sut, &mint(ADMIN, 5_000_000, 1)); // freezing the factory does not stop mints
        }
        7 => {
            // the collection's own instantiate checks, one fault at a time, then all at their bounds
            ses.begin_case(sut, &h.line(g, "special k=collection-checks"));
            fund_std(ses, sut);
            let c = CreateSpec::basic(g.cc[0], h.cfee);
            expect_err(ses, sut, &CreateSpec { desc: 513, ..c.clone() }.line());
            expect_err(ses, sut, &CreateSpec { image: false, ..c.clone() }.line());
            expect_err(ses, sut, &CreateSpec { link: Some(false), ..c.clone() }.line());
            expect_err(ses, sut, &CreateSpec { roy: Some((ONE + 1, Some(ROYAL))), ..c.clone() }.line());
            expect_err(ses, sut, &CreateSpec { roy: Some((ONE / 10, None)), ..c.clone() }.line());
            expect_err(ses, sut, &CreateSpec { creator: None, ..c.clone() }.line());
            expect_ok(ses, sut, &CreateSpec { desc: 512, link: None, roy: Some((ONE, Some(ROYAL))), trading: Some(now - 77), init: true, ..c.clone() }.line());
            expect_ok(ses, sut, &mint(ADMIN, 5_000_000, 1));
        }
        8 => {
            // no wasm admin on the factory: nobody can migrate it
            h.fadmin = None;
            h.ext = true;
            ses.begin_case(sut, &h.line(g, "special k=no-admin"));
            fund_std(ses, sut);
            expect_err(ses, sut, &format!("migrate sender={GOV} none=1"));
            expect_err(ses, sut, &format!("migrate sender={GOV} none=0 feebps=1"));
            expect_ok(ses, sut, "sudo_params feebps=1 ext=1");
        }
        _ => {
            // the payer is not the creator: the creator mints, the payer holds the minter's wasm admin
            ses.begin_case(sut, &h.line(g, "special k=payer"));
            fund_std(ses, sut);
            let c = CreateSpec { sender: PAYER, creator: Some(STRANGER), ..CreateSpec::basic(g.cc[2], h.cfee) };
            expect_ok(ses, sut, &c.line());
            expect_err(ses, sut, &mint(PAYER, 5_000_000, 1));
            expect_ok(ses, sut, &mint(STRANGER, 5_000_000, 1));
            expect_ok(ses, sut, &mint(STRANGER, 5_000_000, 2));
            expect_err(ses, sut, &format!("upd_trading sender={STRANGER} funds=- t=-")); // sg721-nt
            expect_err(ses, sut, "c_transfer sender=30 id=1 to=20"); // non-transferable
            expect_ok(ses, sut, "c_burn sender=30 id=1");
            expect_ok(ses, sut, &mint(STRANGER, 5_000_000, 3)); // ids are never reused
        }
    }
    ses.end_case();
}

/// exact boundary instants of the one clock rule (`now > t` refuses): t−1 / t / t+1 ns, approached by the clock and by the argument
fn rules_case(ses: &mut Session, sut: &mut S, g: &mut G, idx: u64) {
    let ck = [0usize, 1, 3, 0][(idx % 4) as usize];
    let now = GENESIS + 2_000_000 + g.rng.below(50_000);
    let mut h = Hdr::std(now, g.mc, &g.cc);
    h.offset = *g.rng.pick(&[0u64, 1, 3, 60]);
    h.feebps = *g.rng.pick(&[1000u64, 10_000, 2500]);
    ses.begin_case(sut, &h.line(g, &format!("rules idx={idx}")));
    fund_std(ses, sut);
    let mut c = CreateSpec::basic(g.cc[ck], h.cfee);
    let target = now + 100 + g.rng.below(200);
    c.trading = if g.rng.chance(1, 2) { Some(target) } else { None };
    step(ses, sut, &c.line());
    let a = ADMIN;
    for d in [0u64, 1, 2] {
        let t = target - 1 + d;
        step(ses, sut, &format!("upd_trading sender={a} funds=- t={t}"));
    }
    for d in [0u64, 1, 2] {
        let t = target - 1 + d;
        step(ses, sut, &format!("t now={t}"));
        step(ses, sut, &format!("upd_trading sender={a} funds=- t={}", target - 1));
        step(ses, sut, &format!("upd_trading sender={a} funds=- t={target}"));
        step(ses, sut, &format!("upd_trading sender={a} funds=- t={}", target + 1));
        do_mint(ses, sut, g);
        if g.rng.chance(1, 2) {
            step(ses, sut, &format!("upd_trading sender={a} funds=- t=-"));
        }
    }
    for _ in 0..5 {
        rand_op(ses, sut, g);
    }
    ses.end_case();
}

fn random_case(ses: &mut Session, sut: &mut S, g: &mut G, idx: u64) {
    let early = g.rng.chance(1, 60);
    let now = if early { 5 + g.rng.below(1000) } else { GENESIS + 1_000_000 + g.rng.below(100_000) };
    let mut h = Hdr::std(now, g.mc, &g.cc);
    match g.rng.below(20) {
        0 => h.code = 9999,
        1 | 2 => h.code = *g.rng.pick(&g.non_minter),
        _ => {}
    }
    if g.rng.chance(1, 4) {
        h.minp = *g.rng.pick(&[(0u64, 0u128), (1, 1000), (0, 1), (0, 2), (0, 3), (0, 19), (0, 20), (0, 40), (0, 60_000_500), (1, 77)]);
    }
    if g.rng.chance(1, 6) {
        h.cfee = *g.rng.pick(&[(1u64, 1000u128), (0, 2), (0, 1), (0, 0), (0, 3), (1, 0), (1, 1), (0, 5_000_000_000)]);
    }
    if g.rng.chance(1, 3) {
        h.feebps = *g.rng.pick(&[0u64, 1, 500, 2500, 5000, 9999, 10_000, 10_001, 20_000]);
    }
    h.offset = *g.rng.pick(&[0u64, 1, 60, 604_800, 604_800]);
    h.ext = g.rng.chance(1, 3);
    if g.rng.chance(1, 10) {
        h.fadmin = *g.rng.pick(&[None, Some(ADMIN)]);
    }
    if g.rng.chance(1, 15) {
        h.frozen = true;
    }
    if g.rng.chance(1, 10) {
        h.allowed = match g.rng.below(4) {
            0 => vec![],
            1 => vec![g.cc[0], g.cc[0], g.mc],
            2 => vec![g.cc[1], 9999, g.cc[1], g.cc[2]],
            _ => vec![g.cc[3]],
        };
    }
    ses.begin_case(sut, &h.line(g, &format!("random idx={idx}")));
    fund_std(ses, sut);
    if h.cfee.0 == 1 || g.rng.chance(1, 4) {
        fund_d1(ses, sut);
    }
    // ops without a minter
    if g.rng.chance(1, 4) {
        for _ in 0..(1 + g.rng.below(3)) {
            rand_op(ses, sut, g);
        }
    }
    // creation attempts: faults first, then repairs of the factory, then a plainly valid one
    for attempt in 0..5 {
        if sut.last.exists {
            break;
        }
        let mut c = valid_create(sut, g);
        if attempt < 2 && g.rng.chance(2, 5) {
            let what = mutate_create(sut, g, &mut c);
            ses.count(&format!("create-mutation:{what}"));
        }
        if step(ses, sut, &c.line()) {
            break;
        }
        // repair what the factory refuses
        let l = sut.last.clone();
        if l.f_code != g.mc {
            step(ses, sut, &format!("sudo_params code={}", g.mc));
        }
        if l.f_frozen {
            step(ses, sut, "sudo_params frozen=0");
        }
        if !l.f_allowed.iter().any(|c| g.cc.contains(c)) {
            step(ses, sut, &format!("sudo_params addc={}", fmt_list(&g.cc)));
        }
        if l.cfee.0 == 0 && l.cfee.1 < 2 || l.cfee.1 == 0 {
            step(ses, sut, "sudo_params cfee=0:250000000");
        }
    }
    // a late switch of the factory's code id must not change what the existing minter is
    if sut.last.exists && g.rng.chance(1, 6) {
        step(ses, sut, &format!("sudo_params code={}", g.rng.pick(&g.non_minter)));
    }
    let steps = 12 + g.rng.below(20);
    for _ in 0..steps {
        rand_op(ses, sut, g);
    }
    ses.end_case();
}

fn main() {
    let mut ses = Session::new("compbase");
    let mut sut = S::new();
    if ses.maybe_replay(&mut sut) {
        ses.finish(&mut sut);
    }
    let w = World::new(GENESIS);
    let mut g = G {
        rng: ses.rng.fork(),
        mc: w.codes.minters[10],
        cc: vec![w.codes.sg721_base, w.codes.sg721_updatable, w.codes.sg721_nt, w.codes.sg721_metadata_onchain],
        non_minter: vec![w.codes.sg721_base, w.codes.base_factory, w.codes.wl[0], w.codes.minters[0], w.codes.minters[6]],
        uri: 100,
    };
    drop(w);
    ses.note(format!("message surface from the crates' schemas: {:?}; unknown exec/sudo variants {:?}; unobserved query variants {:?}", sut.sf.found, sut.sf.unknown_exec, sut.sf.unknown_query));
    // every variant the schemas list was sent / asked (known ones by name, unknown ones as `raw` / ` X `)
    let sent: BTreeSet<String> = sut.sf.found.iter().flat_map(|(ep, vs)| vs.iter().map(move |v| format!("surface/{ep}/{v}"))).collect();
    for c in sent {
        ses.mark(c);
    }
    // coverage floor
    for ck in 0..4 {
        ses.require(format!("ck{ck}/create/ok"));
        ses.require(format!("ck{ck}/sudo_status/ok"));
        if ck != 3 {
            ses.require(format!("ck{ck}/c_burn/ok"));
        }
        ses.require(format!("ck{ck}/c_creator/ok"));
        ses.require(format!("ck{ck}/c_freeze/ok"));
        if ck != 3 {
            ses.require(format!("ck{ck}/mint/ok"));
        } else {
            ses.require("mint/err/all-gates-pass/ck3/");
        }
        if ck != 2 {
            ses.require(format!("ck{ck}/upd_trading/ok"));
            if ck != 3 {
                ses.require(format!("ck{ck}/c_transfer/ok"));
            }
            ses.require(format!("ck{ck}/c_trading/ok"));
        } else {
            ses.require("ck2/upd_trading/err");
            ses.require("ck2/c_transfer/err");
            ses.require("ck2/c_trading/err");
        }
    }
    for ck in [0, 3] {
        ses.require(format!("ck{ck}/c_own/ok/transfer"));
        ses.require(format!("ck{ck}/c_own/ok/accept"));
    }
    ses.require("ck3/c_own/ok/renounce");
    ses.require("ck1/c_own/err/");
    ses.require("ck2/c_own/err/");
    ses.require("ckx/inst_direct/err");
    for k in RAW_KINDS {
        ses.require(format!("raw/err/{k}/minter0"));
        ses.require(format!("raw/err/{k}/minter1"));
    }
    for c in ["sudo_params/ok/", "sudo_params/err/", "migrate/ok/none1/admin", "migrate/ok/none0/admin", "migrate/err/none1/other", "migrate/err/none0/admin", "migrate/err/none1/admin",
        "mint/ok/fee2", "mint/ok/fee3", "mint/ok/feeN", "mint/err/all-gates-pass/ck0/fee1", "mint/ok/captured-price-differs-from-factory-min", "mint/ok/second-or-later",
        "create/overpaid/ok/feedenom0", "create/overpaid/ok/feedenom1", "create/err/frozen", "create/err/code-not-base-minter", "special/cfee-0/paid2/err", "special/cfee-1/paid2/err", "special/cfee-2/paid2/ok",
        "*/upd_trading/ok/creator/t-eq/*", "*/upd_trading/ok/creator/t-gt/*", "*/upd_trading/err/creator/t-lt/funds0*", "*/upd_trading/ok/creator/t-none/*", "*/upd_trading/err/stranger/*", "*/upd_trading/err/creator/t-gt/funds1*",
        "*/mint/err/stranger/pay-eq/*", "*/mint/err/creator/pay-lt/*", "*/mint/err/creator/pay-gt/*", "*/mint/err/creator/pay-denom/*", "*/mint/err/creator/pay-eq/feeN/uri0/*", "*/mint/err/old-creator/*", "*/notown/*",
        "*/desc-?max/*", "t/err/", "t/ok/eq", "t/ok/lt", "t/ok/gt", "surface/minter.execute/mint", "surface/minter.execute/update_start_trading_time", "surface/factory.execute/create_minter",
        "surface/minter.sudo/update_status", "surface/factory.sudo/update_params", "surface/minter.query/config", "surface/minter.query/status", "surface/factory.query/params",
        "surface/factory.query/allowed_collection_code_id", "surface/factory.query/allowed_collection_code_ids"] {
        if c == "*/desc-?max/*" {
            ses.require("*/descmax/*");
            ses.require("*/descmax+1/*");
        } else {
            ses.require(c);
        }
    }

    for ck in 0..4 {
        tour(&mut ses, &mut sut, &mut g, ck);
    }
    for k in 0..10 {
        special_case(&mut ses, &mut sut, &mut g, k);
    }
    let n = ses.scale(800, 8000);
    for idx in 0..n {
        random_case(&mut ses, &mut sut, &mut g, idx);
        if idx % 10 == 7 {
            rules_case(&mut ses, &mut sut, &mut g, idx / 10);
        }
    }
    ses.finish(&mut sut);
}
//GEN-END
