//! C20 — migrations never downgrade, never cross contract types, and preserve state.
//!
//! Every `migrate` function of /repo (22: 4 factories, 10 minters, splits, 2 Merkle whitelists, sg721-updatable, plus —
//! outside the property, for completeness — sg721-metadata-onchain, sg721-nt and the `migrate` method of sg721-base) is
//! executed against the Lean model `LP.Mig` (`Model/Migrate.lean`):
//!
//! * `mode=direct` (route i): the contract is built inside a cw-multi-test `App` through its real `instantiate`
//!   (minters through their factories), optional real activity is run (`acts=`), its raw storage is copied into a
//!   plain key/value store and the real `migrate` is called directly (mock api/querier, `mock_env` with the block time
//!   of the op). A refused / panicking call rolls the store back, as the chain does.
//! * `mode=app` (route ii): the contract stays in the `App`; the cw2 record is rewritten with `contract_storage_mut`,
//!   the block time is set, `App::migrate_contract` is called by the contract's admin; *all* smart queries are run
//!   before and after.
//! * `mode=bare`: an otherwise empty store holding only what the ops put there.
//!
//! Lines: `mig t=<ns> name=<str|*|-> ver=<str|~> msg=<0|1> [update fields]`, `put k=<item> v=<…>`, `act n=<k>`.
//! Observation of a successful `mig`: the eight mechanism items decoded from raw storage + the list of raw storage
//! keys whose bytes changed (frame condition: compared with the model's `changedKeys`).
use cosmwasm_std::testing::{mock_env, MockApi, MockQuerier};
use cosmwasm_std::{from_json, to_json_binary, Addr, DepsMut, Empty, Order, QuerierWrapper, Record, Storage, Timestamp};
use lp_harness::minters::*;
use lp_harness::world::*;
use lp_harness::*;
use serde_json::{json, Value};
use std::collections::{BTreeMap, BTreeSet};

const H12: u64 = 12 * 3600 * 1_000_000_000;
const H24: u64 = 24 * 3600 * 1_000_000_000;
const DAY: u64 = H24;

// ------------------------------------------------------------------------------------------------ store

/// plain key/value store; `.1` logs every key the contract WROTE (set or removed) since it was last cleared — a write of
/// identical bytes is invisible to a byte diff, the log makes it visible (see the overwrite probe in `mig`)
#[derive(Clone, Default)]
struct MemStore(BTreeMap<Vec<u8>, Vec<u8>>, BTreeSet<Vec<u8>>);
impl Storage for MemStore {
    fn get(&self, key: &[u8]) -> Option<Vec<u8>> {
        self.0.get(key).cloned()
    }
    fn range<'a>(&'a self, start: Option<&[u8]>, end: Option<&[u8]>, order: Order) -> Box<dyn Iterator<Item = Record> + 'a> {
        use std::ops::Bound;
        if let (Some(s), Some(e)) = (start, end) {
            if s > e {
                return Box::new(std::iter::empty());
            }
        }
        let lo = start.map_or(Bound::Unbounded, |s| Bound::Included(s.to_vec()));
        let hi = end.map_or(Bound::Unbounded, |e| Bound::Excluded(e.to_vec()));
        let it = self.0.range((lo, hi)).map(|(k, v)| (k.clone(), v.clone()));
        match order {
            Order::Ascending => Box::new(it),
            Order::Descending => Box::new(it.rev()),
        }
    }
    fn set(&mut self, key: &[u8], value: &[u8]) {
        self.1.insert(key.to_vec());
        self.0.insert(key.to_vec(), value.to_vec());
    }
    fn remove(&mut self, key: &[u8]) {
        self.1.insert(key.to_vec());
        self.0.remove(key);
    }
}

// ------------------------------------------------------------------------------------------------ contracts

#[derive(Clone, Copy, PartialEq, Eq, Debug)]
enum Class {
    Factory(FactoryKind),
    Plain,
    Vending,
    Updatable,
    MetaOnchain,
    Nt,
    Base721,
}
impl Class {
    fn in_scope(self) -> bool {
        !matches!(self, Class::MetaOnchain | Class::Nt | Class::Base721)
    }
}

#[derive(Clone, Copy, PartialEq, Eq, Debug)]
enum Target {
    Factory(FactoryKind),
    Minter(MinterKind),
    Splits,
    Wl(WlKind),
    Coll(CollKind),
}

const CONTRACTS: [(&str, Class, Target); 21] = [
    ("base-factory", Class::Factory(FactoryKind::Base), Target::Factory(FactoryKind::Base)),
    ("vending-factory", Class::Factory(FactoryKind::Vending), Target::Factory(FactoryKind::Vending)),
    ("open-edition-factory", Class::Factory(FactoryKind::OpenEdition), Target::Factory(FactoryKind::OpenEdition)),
    ("token-merge-factory", Class::Factory(FactoryKind::TokenMerge), Target::Factory(FactoryKind::TokenMerge)),
    ("vending-minter", Class::Vending, Target::Minter(MinterKind::Vending)),
    ("vending-minter-featured", Class::Vending, Target::Minter(MinterKind::VendingFeatured)),
    ("vending-minter-wl-flex", Class::Vending, Target::Minter(MinterKind::VendingFlex)),
    ("vending-minter-wl-flex-featured", Class::Vending, Target::Minter(MinterKind::VendingFlexFeatured)),
    ("vending-minter-merkle-wl", Class::Vending, Target::Minter(MinterKind::VendingMerkle)),
    ("vending-minter-merkle-wl-featured", Class::Vending, Target::Minter(MinterKind::VendingMerkleFeatured)),
    ("open-edition-minter", Class::Plain, Target::Minter(MinterKind::OpenEdition)),
    ("open-edition-minter-wl-flex", Class::Plain, Target::Minter(MinterKind::OpenEditionFlex)),
    ("open-edition-minter-merkle-wl", Class::Plain, Target::Minter(MinterKind::OpenEditionMerkle)),
    ("token-merge-minter", Class::Plain, Target::Minter(MinterKind::TokenMerge)),
    ("sg-splits", Class::Plain, Target::Splits),
    ("whitelist-merkletree", Class::Plain, Target::Wl(WlKind::Merkle)),
    ("tiered-whitelist-merkletree", Class::Plain, Target::Wl(WlKind::TieredMerkle)),
    ("sg721-updatable", Class::Updatable, Target::Coll(CollKind::Updatable)),
    ("sg721-metadata-onchain", Class::MetaOnchain, Target::Coll(CollKind::MetadataOnchain)),
    ("sg721-nt", Class::Nt, Target::Coll(CollKind::Nt)),
    ("sg721-base", Class::Base721, Target::Coll(CollKind::Base)),
];

fn contract(key: &str) -> (Class, Target) {
    let c = CONTRACTS.iter().find(|c| c.0 == key).unwrap_or_else(|| panic!("unknown contract {key}"));
    (c.1, c.2)
}

/// Snapshot of what sg721-updatable declares (used as a fall-back and as a cross-check that is only *noted*): the names in
/// `COMPATIBLE_CONTRACT_NAMES_FOR_MIGRATION`, the inline sg721-base names, `EARLIEST_COMPATIBLE_VERSION`.
const UPD_ACCEPTED: [&str; 4] = ["sg721-base", "crates.io:sg721-base", "sg721-updatable", "crates.io:sg721-updatable"];
const UPD_BASE: [&str; 2] = ["sg721-base", "crates.io:sg721-base"];
const UPD_EARLIEST: &str = "0.16.0";

/// What the code of sg721-updatable DECLARES compatible. The three constants are private, so they are read from the
/// contract's source (as `world::addr_id` does for sg1): "an identity the new code accepts" / "declares compatible" in the
/// property are these declarations, not the behaviour of `_migrate` (which is what the monitors judge against them).
/// A legitimate re-declaration therefore moves monitors and model together; the snapshot is only a noted cross-check.
#[derive(Clone, Debug)]
struct UpdDecl {
    accepted: Vec<String>,
    base: Vec<String>,
    earliest: semver::Version,
    from_source: bool,
}
fn quoted(s: &str) -> Vec<String> {
    let mut out = vec![];
    let mut it = s.split('"');
    it.next();
    while let Some(q) = it.next() {
        out.push(q.to_string());
        if it.next().is_none() {
            break;
        }
    }
    out
}
fn upd_decl() -> UpdDecl {
    let snapshot = UpdDecl {
        accepted: UPD_ACCEPTED.iter().map(|s| s.to_string()).collect(),
        base: UPD_BASE.iter().map(|s| s.to_string()).collect(),
        earliest: semver::Version::parse(UPD_EARLIEST).unwrap(),
        from_source: false,
    };
    let repo = std::env::var("VERIF_REPO").unwrap_or_else(|_| "/repo".into());
    let Ok(src) = std::fs::read_to_string(format!("{repo}/contracts/collections/sg721-updatable/src/contract.rs")) else { return snapshot };
    let parse = || -> Option<UpdDecl> {
        let i = src.find("const EARLIEST_COMPATIBLE_VERSION")?;
        let stmt = &src[i..i + src[i..].find(';')?];
        let earliest = semver::Version::parse(quoted(&stmt[stmt.find('=')?..]).first()?).ok()?;
        let j = src.find("const COMPATIBLE_CONTRACT_NAMES_FOR_MIGRATION")?;
        let stmt = &src[j..j + src[j..].find("];")?];
        let accepted = quoted(&stmt[stmt.find('=')?..]);
        // `if ["sg721-base", "crates.io:sg721-base"].contains(&prev_contract_name.as_str())` inside `_migrate`
        let m = src.find("fn _migrate")?;
        let body = &src[m..];
        let k = body.find("].contains(&prev_contract_name")?;
        let open = body[..k].rfind('[')?;
        let base = quoted(&body[open..k]);
        if accepted.is_empty() {
            return None;
        }
        Some(UpdDecl { accepted, base, earliest, from_source: true })
    };
    parse().unwrap_or(snapshot)
}

/// raw storage keys of the mechanism items, taken from the crates' own typed constants (a renamed key moves with the code)
macro_rules! item_key {
    ($e:expr) => {
        Some($e.as_slice().to_vec())
    };
}
fn typed_key(contract: &str, item: &str) -> Option<Vec<u8>> {
    let coll = sg721_base::Sg721Contract::<cw721_base::Extension>::default();
    match (item, contract) {
        ("cw2", _) => item_key!(cw2::CONTRACT),
        ("params", "base-factory") => item_key!(base_factory::state::SUDO_PARAMS),
        ("params", "vending-factory") => item_key!(vending_factory::state::SUDO_PARAMS),
        ("params", "open-edition-factory") => item_key!(open_edition_factory::state::SUDO_PARAMS),
        ("params", "token-merge-factory") => item_key!(token_merge_factory::state::SUDO_PARAMS),
        ("ld", "vending-minter") => item_key!(vending_minter::state::LAST_DISCOUNT_TIME),
        ("ld", "vending-minter-featured") => item_key!(vending_minter_featured::state::LAST_DISCOUNT_TIME),
        ("ld", "vending-minter-wl-flex") => item_key!(vending_minter_wl_flex::state::LAST_DISCOUNT_TIME),
        ("ld", "vending-minter-wl-flex-featured") => item_key!(vending_minter_wl_flex_featured::state::LAST_DISCOUNT_TIME),
        ("ld", "vending-minter-merkle-wl") => item_key!(vending_minter_merkle_wl::state::LAST_DISCOUNT_TIME),
        ("ld", "vending-minter-merkle-wl-featured") => item_key!(vending_minter_merkle_wl_featured::state::LAST_DISCOUNT_TIME),
        ("status", "vending-minter") => item_key!(vending_minter::state::STATUS),
        ("status", "vending-minter-featured") => item_key!(vending_minter_featured::state::STATUS),
        ("status", "vending-minter-wl-flex") => item_key!(vending_minter_wl_flex::state::STATUS),
        ("status", "vending-minter-wl-flex-featured") => item_key!(vending_minter_wl_flex_featured::state::STATUS),
        ("status", "vending-minter-merkle-wl") => item_key!(vending_minter_merkle_wl::state::STATUS),
        ("status", "vending-minter-merkle-wl-featured") => item_key!(vending_minter_merkle_wl_featured::state::STATUS),
        ("status", "open-edition-minter") => item_key!(open_edition_minter::state::STATUS),
        ("status", "open-edition-minter-wl-flex") => item_key!(open_edition_minter_wl_flex::state::STATUS),
        ("status", "open-edition-minter-merkle-wl") => item_key!(open_edition_minter_merkle_wl::state::STATUS),
        ("status", "token-merge-minter") => item_key!(token_merge_minter::state::STATUS),
        ("admin_list", "whitelist-merkletree") => item_key!(whitelist_mtree::state::ADMIN_LIST),
        ("admin_list", "tiered-whitelist-merkletree") => item_key!(tiered_whitelist_merkletree::state::ADMIN_LIST),
        ("fz", c) if c.starts_with("sg721") => item_key!(sg721_updatable::state::FROZEN_TOKEN_METADATA),
        ("eu", c) if c.starts_with("sg721") => item_key!(sg721_updatable::state::ENABLE_UPDATABLE),
        ("ru", c) if c.starts_with("sg721") => item_key!(coll.royalty_updated_at),
        ("fci", c) if c.starts_with("sg721") => item_key!(coll.frozen_collection_info),
        // no typed constant is exported for these (cw721-base 0.16 `minter`, cw-ownable `ownership`, cw-controllers admin)
        ("lm", _) => Some(b"minter".to_vec()),
        ("own", _) => Some(b"ownership".to_vec()),
        ("admin", "sg-splits") => Some(b"admin".to_vec()),
        _ => None,
    }
}
/// (model's canonical key name, item) of the eight mechanism items
const MECH: [(&str, &str); 8] = [
    ("contract_info", "cw2"),
    ("last_discount_time", "ld"),
    ("frozen_token_metadata", "fz"),
    ("enable_updatable", "eu"),
    ("royalty_updated_at", "ru"),
    ("minter", "lm"),
    ("ownership", "own"),
    ("sudo-params", "params"),
];

/// Whether the literal code-id clause (`…/migrate/params/allowed_sg721_code_ids-compacted`) is judged in every case. `false`:
/// only in cases whose header says `strict_ids=1` (the corpus replay), so the generated run stays green while the deviation is
/// not listed in known_findings.json. Set to `true` once it is listed (it then prints one KNOWN-FINDING line per run).
const STRICT_IDS_DEFAULT: bool = false;

const GOV: u64 = 90;
const CREATOR: u64 = 10;
const BUYER: u64 = 20;
const WLADMIN: u64 = 30;

struct Built {
    w: World,
    addr: String,
    admin: String,
    code_id: u64,
    minter: Option<String>,
    minter_kind: Option<MinterKind>,
    start: u64,
}

fn rand_factory_params(w: &World, kind: MinterKind, rng: &mut Rng) -> FactoryParams {
    let mut p = w.default_params(kind);
    if rng.chance(1, 2) {
        p.mint_fee_bps = rng.range(0, 10_000);
        p.max_trading_offset_secs = rng.range(0, 30 * 86_400);
        p.max_token_limit = rng.range(1, 20_000) as u32;
        p.max_per_address_limit = rng.range(1, 100) as u32;
        p.airdrop_mint_fee_bps = rng.range(0, 10_000);
        p.airdrop_mint_price = (0, rng.sized_u128(40));
        p.shuffle_fee = (0, rng.sized_u128(40));
        p.creation_fee = (rng.below(2), 1 + rng.sized_u128(40));
        p.min_mint_price = (0, rng.sized_u128(40));
        p.dev_fee_address = rng.range(50, 70);
    }
    if rng.chance(1, 4) {
        // adjacent repeats survive `instantiate` (only `update_params` dedups)
        p.allowed_sg721_code_ids = vec![5, 5, 7, 7, 7, 9, 5];
    }
    p
}

/// scenario options of a case header: `from=base` (sg721-updatable only: a REAL sg721-base instance is migrated to the
/// sg721-updatable code — the one legitimate cross-code migration), `ids=a,b,c` (factories: `allowed_sg721_code_ids` exactly as given)
#[derive(Clone, Default)]
struct Opts {
    from_base: bool,
    ids: Option<Vec<u64>>,
}
impl Opts {
    fn of(header: &str) -> Opts {
        Opts { from_base: kv(header, "from") == Some("base"), ids: kv_list(header, "ids").map(|v| v.into_iter().map(|x| x as u64).collect()) }
    }
}

fn build(key: &str, rng: &mut Rng, opts: &Opts) -> Built {
    let (_class, target) = contract(key);
    let mut w = World::new(GENESIS + 1000);
    match target {
        Target::Factory(fk) => {
            let mk = match fk {
                FactoryKind::Base => MinterKind::Base,
                FactoryKind::Vending => MinterKind::Vending,
                FactoryKind::OpenEdition => MinterKind::OpenEdition,
                FactoryKind::TokenMerge => MinterKind::TokenMerge,
            };
            let mut p = rand_factory_params(&w, mk, rng);
            if let Some(ids) = &opts.ids {
                p.allowed_sg721_code_ids = ids.clone();
            }
            let code = w.factory_code(fk);
            let addr = w.instantiate(code, &addr(GOV), &json!({"params": p.to_json(fk)}), &[], Some(&addr(GOV))).expect("factory");
            Built { w, addr, admin: addr_of(GOV), code_id: code, minter: None, minter_kind: None, start: 0 }
        }
        Target::Minter(kind) => {
            let (m, _c, start) = make_minter(&mut w, kind, CollKind::Base, rng);
            let code = w.codes.minters[kind.idx()];
            Built { w, addr: m.clone(), admin: addr_of(CREATOR), code_id: code, minter: Some(m), minter_kind: Some(kind), start }
        }
        Target::Coll(ck) => {
            // from=base: the instance is a real sg721-base collection, the code migrated to is sg721-updatable's
            let inst = if opts.from_base && ck == CollKind::Updatable { CollKind::Base } else { ck };
            let (m, c, start) = make_minter(&mut w, MinterKind::Vending, inst, rng);
            let code = w.coll_code(ck);
            Built { w, addr: c, admin: addr_of(CREATOR), code_id: code, minter: Some(m), minter_kind: Some(MinterKind::Vending), start }
        }
        Target::Splits => {
            // now and then more members than one page of `list_members` returns (default 10; sg-splits refuses groups above MAX_GROUP_SIZE)
            let n = if rng.chance(1, 5) { 21 } else { rng.range(2, 5) };
            let members: Vec<Value> = (0..n).map(|i| json!({"addr": addr(40 + i), "weight": 1 + rng.below(5)})).collect();
            let g = w.instantiate(w.codes.cw4_group, &addr(WLADMIN), &json!({"admin": addr(WLADMIN), "members": members}), &[], None).expect("group");
            let code = w.codes.splits;
            let a = w
                .instantiate(code, &addr(WLADMIN), &json!({"admin": addr(WLADMIN), "group": {"cw4_address": g}}), &[], Some(&addr(WLADMIN)))
                .expect("splits");
            Built { w, addr: a, admin: addr_of(WLADMIN), code_id: code, minter: None, minter_kind: None, start: 0 }
        }
        Target::Wl(k) => {
            let now = w.time();
            let nst = if k == WlKind::TieredMerkle { rng.range(1, 3) } else { 1 };
            let mut stages = vec![];
            let mut t = now + DAY;
            for _ in 0..nst {
                let len = rng.range(1, 5) * 3_600_000_000_000;
                stages.push(WlStage {
                    start: t,
                    end: t + len,
                    mint_price: (0, 1_000_000 * rng.range(1, 200) as u128),
                    per_address_limit: rng.range(1, 5) as u32,
                    mint_count_limit: None,
                    members: vec![],
                    merkle_root: if k == WlKind::TieredMerkle { format!("{:032x}", rng.next_u128()) } else { format!("{:064x}", rng.next_u128()) },
                });
                t += len + rng.range(0, 2) * 3_600_000_000_000;
            }
            let a = WlArgs { admin: WLADMIN, member_limit: 1000, admins_mutable: true, whale_cap: None, stages };
            let fee = World::wl_fee(k, a.member_limit);
            w.fund(&addr(WLADMIN), 0, fee);
            let code = w.wl_code(k);
            let addr_ = w.instantiate(code, &addr(WLADMIN), &wl_instantiate_json(k, &a), &[(0, fee)], Some(&addr(WLADMIN))).expect("whitelist");
            Built { w, addr: addr_, admin: addr_of(WLADMIN), code_id: code, minter: None, minter_kind: None, start: now + DAY }
        }
    }
}

fn addr_of(id: u64) -> String {
    addr(id)
}

/// minter of `kind` created through its factory, with a collection of kind `ck`; returns (minter, collection, start time)
fn make_minter(w: &mut World, kind: MinterKind, ck: CollKind, rng: &mut Rng) -> (String, String, u64) {
    let p = w.default_params(kind);
    let f = w.new_factory(kind.factory(), &p).expect("factory");
    let mut a = w.default_create(kind, &p);
    a.sg721_code_id = w.coll_code(ck);
    a.num_tokens = Some(rng.range(3, 12) as u32);
    a.per_address_limit = 3;
    if rng.chance(1, 2) {
        a.royalty = Some((CREATOR, "0.05".into()));
    }
    w.fund(&addr(a.creator), 0, 100_000_000_000);
    if kind == MinterKind::TokenMerge {
        let pb = w.default_params(MinterKind::Base);
        let fb = w.new_factory(FactoryKind::Base, &pb).expect("base factory");
        let ab = w.default_create(MinterKind::Base, &pb);
        let (_mb, cb) = w.create_minter(&fb, MinterKind::Base, &ab).expect("base minter");
        a.mint_tokens = vec![(cb, 1)];
    }
    let (m, c) = w.create_minter(&f, kind, &a).unwrap_or_else(|e| panic!("create {:?}: {e}", kind));
    (m, c, a.start_time)
}

/// scripted real activity number `n` on the built contract (best effort; returns whether it succeeded)
fn act(b: &mut Built, key: &str, n: u64) -> bool {
    let (class, target) = contract(key);
    match target {
        Target::Factory(fk) => {
            let ext = match fk {
                FactoryKind::Base => Value::Null,
                FactoryKind::Vending => json!({"max_token_limit": 100 + n, "max_per_address_limit": null, "airdrop_mint_price": null,
                    "airdrop_mint_fee_bps": 100 * (n % 50), "shuffle_fee": {"denom": "ustars", "amount": (1000 + n).to_string()}}),
                FactoryKind::OpenEdition => json!({"max_token_limit": 100 + n, "max_per_address_limit": 5 + n % 20, "min_mint_price": null,
                    "airdrop_mint_fee_bps": null, "airdrop_mint_price": null, "dev_fee_address": addr(50 + n % 10)}),
                FactoryKind::TokenMerge => json!({"max_token_limit": 100 + n, "max_per_address_limit": null, "airdrop_mint_price": null,
                    "airdrop_mint_fee_bps": 7 * (n % 100), "shuffle_fee": null}),
            };
            let mut m = json!({"code_id": 1 + n % 9, "add_sg721_code_ids": [1 + n % 11, 1 + n % 11], "rm_sg721_code_ids": [1 + n % 3],
                "frozen": n % 3 == 0, "creation_fee": null, "max_trading_offset_secs": 1000 * n, "extension": ext});
            if fk != FactoryKind::TokenMerge {
                m["min_mint_price"] = json!({"denom": "ustars", "amount": (1_000_000 + n).to_string()});
                m["mint_fee_bps"] = json!(10 * (n % 1000));
            }
            b.w.sudo(&b.addr, &json!({"update_params": m})).is_ok()
        }
        Target::Minter(_) | Target::Coll(_) => {
            let Some(minter) = b.minter.clone() else { return false };
            let kind = b.minter_kind.unwrap();
            let on_coll = matches!(target, Target::Coll(_));
            // 7..9 (collections) and 4..5 (minters) are the STATE-MOVING acts: they leave flags away from the values a
            // careless migrate would "initialise" them to (freezes, verified/blocked/explicit status, edited token URI)
            let sel = n % if on_coll { 10 } else { 6 };
            let now = b.w.time();
            let price = |w: &World| -> u128 {
                w.query(&minter, &json!({"mint_price": {}}))
                    .ok()
                    .and_then(|v| v["current_price"]["amount"].as_str().and_then(|s| s.parse().ok()))
                    .unwrap_or(100_000_000)
            };
            let mint_msg = if kind.is_merkle() { json!({"mint": {"stage": null, "proof_hashes": null, "allocation": null}}) } else { json!({"mint": {}}) };
            if !on_coll && sel >= 4 {
                let (a, bl, c) = if sel == 4 { (true, true, true) } else { (true, false, n % 2 == 0) };
                return b.w.sudo(&minter, &json!({"update_status": {"is_verified": a, "is_blocked": bl, "is_explicit": c}})).is_ok();
            }
            match sel {
                7 => {
                    let coll = b.addr.clone();
                    b.w.exec(&addr(CREATOR), &coll, &json!({"freeze_token_metadata": {}}), &[]).is_ok()
                }
                8 => {
                    let coll = b.addr.clone();
                    b.w.exec(&addr(CREATOR), &coll, &json!({"freeze_collection_info": {}}), &[]).is_ok()
                }
                9 => {
                    let coll = b.addr.clone();
                    let ids = b.w.query(&coll, &json!({"all_tokens": {"start_after": null, "limit": 30}})).ok();
                    let Some(id) = ids.and_then(|v| v["tokens"].as_array().and_then(|a| a.first().and_then(|x| x.as_str().map(String::from)))) else { return false };
                    b.w.exec(&addr(CREATOR), &coll, &json!({"update_token_metadata": {"token_id": id, "token_uri": format!("ipfs://moved/{n}")}}), &[]).is_ok()
                }
                0 | 4 => {
                    if kind == MinterKind::TokenMerge {
                        return b.w.exec(&addr(CREATOR), &minter, &json!({"update_per_address_limit": {"per_address_limit": 1 + n % 3}}), &[]).is_ok();
                    }
                    b.w.set_time(now.max(b.start + 1) + n);
                    let p = price(&b.w);
                    let who = addr(BUYER + n % 3);
                    b.w.fund(&who, 0, p);
                    b.w.exec(&who, &minter, &mint_msg, &[(0, p)]).is_ok()
                }
                1 => b.w.exec(&addr(CREATOR), &minter, &json!({"update_per_address_limit": {"per_address_limit": 1 + n % 3}}), &[]).is_ok(),
                2 => {
                    if class == Class::Vending || on_coll {
                        b.w.set_time(now.max(b.start + 1) + n);
                        b.w.exec(&addr(CREATOR), &minter, &json!({"update_discount_price": {"price": (60_000_000 + n).to_string().parse::<u128>().unwrap()}}), &[]).is_ok()
                    } else {
                        b.w.exec(&addr(CREATOR), &minter, &json!({"mint_to": {"recipient": addr(21)}}), &[(0, 0)]).is_ok()
                    }
                }
                3 => {
                    b.w.set_time(now.max(b.start + 1) + n);
                    let ap = b.w.query(&minter, &json!({"mint_price": {}})).ok().and_then(|v| v["airdrop_price"]["amount"].as_str().and_then(|s| s.parse::<u128>().ok())).unwrap_or(0);
                    b.w.fund(&addr(CREATOR), 0, ap);
                    let funds: Vec<(u64, u128)> = if ap > 0 { vec![(0, ap)] } else { vec![] };
                    b.w.exec(&addr(CREATOR), &minter, &json!({"mint_to": {"recipient": addr(21)}}), &funds).is_ok()
                }
                5 => {
                    if class == Class::Updatable {
                        b.w.fund(&addr(CREATOR), 0, 1_500_000_000);
                        b.w.exec(&addr(CREATOR), &b.addr.clone(), &json!({"enable_updatable": {}}), &[(0, 1_500_000_000)]).is_ok()
                    } else {
                        false
                    }
                }
                _ => {
                    // royalty change: moves `royalty_updated_at`
                    b.w.set_time(now + 2 * DAY);
                    let coll = b.addr.clone();
                    b.w.exec(&addr(CREATOR), &coll, &json!({"update_collection_info": {"collection_info": {"description": null, "image": null,
                        "external_link": null, "explicit_content": null, "royalty_info": {"payment_address": addr(CREATOR), "share": "0.04"}, "creator": null}}}), &[]).is_ok()
                }
            }
        }
        Target::Splits => {
            if n % 3 == 2 {
                // state-moving: the admin is renounced (irreversible)
                let a = b.addr.clone();
                b.w.exec(&addr(WLADMIN), &a, &json!({"update_admin": {"admin": null}}), &[]).is_ok()
            } else if n % 3 == 0 {
                let a = b.addr.clone();
                b.w.fund(&a, 0, 1_000_000 + n as u128);
                b.w.exec(&addr(WLADMIN), &a, &json!({"distribute": {"denom_list": null}}), &[]).is_ok()
            } else {
                let a = b.addr.clone();
                b.w.exec(&addr(WLADMIN), &a, &json!({"update_admin": {"admin": addr(WLADMIN)}}), &[]).is_ok()
            }
        }
        Target::Wl(_) => {
            let a = b.addr.clone();
            match n % 4 {
                // state-moving: the admin list becomes immutable (irreversible)
                1 => b.w.exec(&addr(WLADMIN), &a, &json!({"freeze": {}}), &[]).is_ok(),
                2 => {
                    let t = b.start + 40 * 3_600_000_000_000 + n;
                    b.w.exec(&addr(WLADMIN), &a, &json!({"update_end_time": t.to_string()}), &[]).is_ok()
                }
                _ => b.w.exec(&addr(WLADMIN), &a, &json!({"update_admins": {"admins": [addr(WLADMIN), addr(31 + n % 5)]}}), &[]).is_ok(),
            }
        }
    }
}

// ------------------------------------------------------------------------------------------------ observation

/// raw storage keys of this contract's mechanism items (typed constants where the crates export them)
#[derive(Clone, Default)]
struct Keys(BTreeMap<&'static str, Vec<u8>>);
impl Keys {
    fn of(contract: &str) -> Keys {
        let mut m = BTreeMap::new();
        for (canon, item) in MECH {
            m.insert(item, typed_key(contract, item).unwrap_or_else(|| canon.as_bytes().to_vec()));
        }
        for item in ["status", "admin_list", "fci", "admin"] {
            if let Some(k) = typed_key(contract, item) {
                m.insert(item, k);
            }
        }
        Keys(m)
    }
    fn k(&self, item: &str) -> &[u8] {
        self.0.get(item).map(|v| v.as_slice()).unwrap_or(b"\xff<none>")
    }
    /// the model's name for a raw key (mechanism items) or a printable rendering of the raw key
    fn canon(&self, raw: &[u8]) -> String {
        for (canon, item) in MECH {
            if self.k(item) == raw {
                return canon.to_string();
            }
        }
        key_name(raw)
    }
}

fn jget(st: &dyn Storage, key: &[u8]) -> Option<Value> {
    st.get(key).and_then(|b| serde_json::from_slice(&b).ok())
}
fn dget(d: &Dump, key: &[u8]) -> Option<Value> {
    d.get(key).and_then(|b| serde_json::from_slice(b).ok())
}
fn tok(s: &str) -> String {
    if s.is_empty() {
        "~".into()
    } else {
        s.to_string()
    }
}
fn untok(s: &str) -> String {
    if s == "~" {
        String::new()
    } else {
        s.to_string()
    }
}
fn jcoin_render(v: &Value) -> String {
    if v.is_null() {
        return "0:0".into();
    }
    format!("{}:{}", denom_id(v["denom"].as_str().unwrap_or("?")), v["amount"].as_str().unwrap_or("0"))
}
/// the 13 governance parameters in the model's order (index = `FParams` field, same table as `suppliedIdx` in Driver/C20.lean)
fn param_fields(v: &Value) -> Vec<String> {
    // vending / open-edition / base keep governance extras under "extension"; token-merge is flat
    let ext = if v.get("extension").map_or(false, |e| e.is_object()) { &v["extension"] } else { v };
    let u = |x: &Value| x.as_u64().unwrap_or(0).to_string();
    let ids: Vec<String> = v["allowed_sg721_code_ids"].as_array().map(|a| a.iter().map(|x| x.as_u64().unwrap_or(0).to_string()).collect()).unwrap_or_default();
    let dev = ext.get("dev_fee_address").and_then(|d| d.as_str()).map(addr_id).unwrap_or(0);
    vec![
        u(&v["code_id"]),
        if ids.is_empty() { "-".to_string() } else { ids.join(",") },
        if v["frozen"].as_bool().unwrap_or(false) { "1".into() } else { "0".into() },
        jcoin_render(&v["creation_fee"]),
        jcoin_render(v.get("min_mint_price").unwrap_or(&Value::Null)),
        u(v.get("mint_fee_bps").unwrap_or(&Value::Null)),
        u(&v["max_trading_offset_secs"]),
        u(ext.get("max_token_limit").unwrap_or(&Value::Null)),
        u(ext.get("max_per_address_limit").unwrap_or(&Value::Null)),
        jcoin_render(ext.get("airdrop_mint_price").unwrap_or(&Value::Null)),
        u(ext.get("airdrop_mint_fee_bps").unwrap_or(&Value::Null)),
        jcoin_render(ext.get("shuffle_fee").unwrap_or(&Value::Null)),
        dev.to_string(),
    ]
}
fn render_params(v: &Value, mask: &[usize]) -> String {
    param_fields(v).into_iter().enumerate().map(|(i, f)| if mask.contains(&i) { "*".to_string() } else { f }).collect::<Vec<_>>().join(";")
}
/// indices (into `param_fields`) of the parameters a `mig` line's update message supplies
const SUPPLY_KEYS: [(&str, usize); 14] = [
    ("code_id", 0), ("add", 1), ("rm", 1), ("frozen", 2), ("cf", 3), ("mmp", 4), ("bps", 5), ("off", 6), ("mtl", 7), ("mpa", 8), ("ap", 9), ("abps", 10), ("sf", 11), ("dev", 12),
];
fn supplied_idx(line: &str) -> Vec<usize> {
    if kv(line, "msg") != Some("1") {
        return vec![];
    }
    let mut out = vec![];
    for (k, i) in SUPPLY_KEYS {
        if opt_tok(line, k).is_some() && !out.contains(&i) {
            out.push(i);
        }
    }
    out
}

/// the eight mechanism items, decoded from raw storage; `mask` = parameters printed as `*` (supplied by the message)
fn state_fields(st: &dyn Storage, keys: &Keys, mask: &[usize]) -> String {
    let cw2 = match cw2::CONTRACT.may_load(st) {
        Ok(Some(v)) => format!("cw2n={} cw2v={}", tok(&v.contract), tok(&v.version)),
        Ok(None) => "cw2n=- cw2v=~".into(),
        Err(_) => "cw2n=? cw2v=?".into(),
    };
    let ts = |k: &str| -> String { jget(st, keys.k(k)).and_then(|v| v.as_str().map(|s| s.to_string())).unwrap_or_else(|| "-".into()) };
    let fl = |k: &str| -> String {
        match jget(st, keys.k(k)) {
            Some(Value::Bool(true)) => "1".into(),
            Some(Value::Bool(false)) => "0".into(),
            _ => "-".into(),
        }
    };
    let lm = jget(st, keys.k("lm")).and_then(|v| v.as_str().map(|s| addr_id(s).to_string())).unwrap_or_else(|| "-".into());
    let own = match jget(st, keys.k("own")) {
        Some(v) => format!(
            "{}:{}",
            v["owner"].as_str().map(|s| addr_id(s).to_string()).unwrap_or_else(|| "-".into()),
            if v["pending_owner"].is_null() { 0 } else { 1 }
        ),
        None => "-".into(),
    };
    let params = jget(st, keys.k("params")).map(|v| render_params(&v, mask)).unwrap_or_else(|| "-".into());
    format!("{cw2} ld={} fz={} eu={} ru={} lm={lm} own={own} params={params}", ts("ld"), fl("fz"), fl("eu"), ts("ru"))
}

fn key_name(k: &[u8]) -> String {
    if !k.is_empty() && k.iter().all(|b| b.is_ascii_graphic() && *b != b',' && *b != b'=' && *b != b'#') {
        String::from_utf8_lossy(k).to_string()
    } else {
        format!("0x{}", hex::encode(k))
    }
}
type Dump = BTreeMap<Vec<u8>, Vec<u8>>;
fn changed_raw(a: &Dump, b: &Dump) -> Vec<Vec<u8>> {
    let mut ks: BTreeSet<Vec<u8>> = BTreeSet::new();
    for (k, v) in a {
        if b.get(k) != Some(v) {
            ks.insert(k.clone());
        }
    }
    for k in b.keys() {
        if !a.contains_key(k) {
            ks.insert(k.clone());
        }
    }
    ks.into_iter().collect()
}

/// a neighbouring value of a stored JSON item: every bool flipped, every number (also decimal strings) + 1
fn perturb(v: &Value) -> Value {
    match v {
        Value::Bool(b) => Value::Bool(!b),
        Value::Number(n) => n.as_u64().map(|x| json!(x.wrapping_add(1))).unwrap_or_else(|| v.clone()),
        Value::String(s) if !s.is_empty() && s.len() < 30 && s.bytes().all(|c| c.is_ascii_digit()) => {
            s.parse::<u128>().map(|x| Value::String((x + 1).to_string())).unwrap_or_else(|_| v.clone())
        }
        Value::Array(a) => Value::Array(a.iter().map(perturb).collect()),
        Value::Object(m) => Value::Object(m.iter().map(|(k, x)| (k.clone(), perturb(x))).collect()),
        _ => v.clone(),
    }
}

// ------------------------------------------------------------------------------------------------ the real migrate

fn direct_migrate(key: &str, st: &mut MemStore, t: u64, self_addr: &str, msg: &Value) -> Result<(), String> {
    let api = MockApi::default();
    let querier = MockQuerier::default();
    let mut env = mock_env();
    env.block.time = Timestamp::from_nanos(t);
    env.contract.address = Addr::unchecked(self_addr);
    let bin = to_json_binary(msg).map_err(|e| e.to_string())?;
    macro_rules! deps {
        () => {
            DepsMut { storage: st, api: &api, querier: QuerierWrapper::new(&querier) }
        };
    }
    macro_rules! empty {
        ($f:path) => {{
            let m: Empty = from_json(&bin).map_err(|e| e.to_string())?;
            $f(deps!(), env, m).map(|_| ()).map_err(|e| e.to_string())
        }};
    }
    macro_rules! fac {
        ($f:path, $t:ty) => {{
            let m: Option<$t> = from_json(&bin).map_err(|e| e.to_string())?;
            $f(deps!(), env, m).map(|_| ()).map_err(|e| e.to_string())
        }};
    }
    match key {
        "base-factory" => fac!(base_factory::contract::migrate, base_factory::msg::BaseUpdateParamsMsg),
        "vending-factory" => fac!(vending_factory::contract::migrate, vending_factory::msg::VendingUpdateParamsMsg),
        "open-edition-factory" => fac!(open_edition_factory::contract::migrate, open_edition_factory::msg::OpenEditionUpdateParamsMsg),
        "token-merge-factory" => fac!(token_merge_factory::contract::migrate, token_merge_factory::msg::TokenMergeUpdateParamsMsg),
        "vending-minter" => empty!(vending_minter::contract::migrate),
        "vending-minter-featured" => empty!(vending_minter_featured::contract::migrate),
        "vending-minter-wl-flex" => empty!(vending_minter_wl_flex::contract::migrate),
        "vending-minter-wl-flex-featured" => empty!(vending_minter_wl_flex_featured::contract::migrate),
        "vending-minter-merkle-wl" => empty!(vending_minter_merkle_wl::contract::migrate),
        "vending-minter-merkle-wl-featured" => empty!(vending_minter_merkle_wl_featured::contract::migrate),
        "open-edition-minter" => empty!(open_edition_minter::contract::migrate),
        "open-edition-minter-wl-flex" => empty!(open_edition_minter_wl_flex::contract::migrate),
        "open-edition-minter-merkle-wl" => empty!(open_edition_minter_merkle_wl::contract::migrate),
        "token-merge-minter" => empty!(token_merge_minter::contract::migrate),
        "sg-splits" => empty!(sg_splits::contract::migrate),
        "whitelist-merkletree" => empty!(whitelist_mtree::contract::migrate),
        "tiered-whitelist-merkletree" => empty!(tiered_whitelist_merkletree::contract::migrate),
        "sg721-updatable" => empty!(sg721_updatable::entry::migrate),
        "sg721-metadata-onchain" => empty!(sg721_metadata_onchain::entry::migrate),
        "sg721-nt" => empty!(sg721_nt::entry::migrate),
        "sg721-base" => {
            let m: Empty = from_json(&bin).map_err(|e| e.to_string())?;
            sg721_base::Sg721Contract::<cw721_base::Extension>::migrate(deps!(), env, m).map(|_| ()).map_err(|e| e.to_string())
        }
        k => panic!("no migrate for {k}"),
    }
}

// ------------------------------------------------------------------------------------------------ messages

fn opt_tok<'a>(line: &'a str, key: &str) -> Option<&'a str> {
    match kv(line, key) {
        None | Some("x") => None,
        Some(v) => Some(v),
    }
}
fn jcoin_tok(v: &str) -> Value {
    let (d, a) = v.split_once(':').unwrap_or(("0", "0"));
    json!({"denom": denom(d.parse().unwrap_or(0)), "amount": a})
}
fn jlist_tok(v: &str) -> Value {
    if v == "-" {
        json!([])
    } else {
        Value::Array(v.split(',').map(|x| json!(x.parse::<u64>().unwrap_or(0))).collect())
    }
}
fn jnum(v: &str) -> Value {
    json!(v.parse::<u64>().unwrap_or(0))
}

/// the JSON migrate message of a line (`null` when no update message is supplied / `{}` for non-factories)
fn migrate_msg(class: Class, line: &str) -> Value {
    let Class::Factory(fk) = class else { return json!({}) };
    if kv(line, "msg") != Some("1") {
        return Value::Null;
    }
    let o = |key: &str, f: fn(&str) -> Value| -> Value { opt_tok(line, key).map(f).unwrap_or(Value::Null) };
    let frozen = opt_tok(line, "frozen").map(|v| json!(v != "0")).unwrap_or(Value::Null);
    let mut m = json!({"code_id": o("code_id", jnum), "add_sg721_code_ids": o("add", jlist_tok), "rm_sg721_code_ids": o("rm", jlist_tok),
        "frozen": frozen, "creation_fee": o("cf", jcoin_tok), "max_trading_offset_secs": o("off", jnum)});
    if fk != FactoryKind::TokenMerge {
        m["min_mint_price"] = o("mmp", jcoin_tok);
        m["mint_fee_bps"] = o("bps", jnum);
    }
    m["extension"] = match fk {
        FactoryKind::Base => Value::Null,
        FactoryKind::Vending | FactoryKind::TokenMerge => json!({"max_token_limit": o("mtl", jnum), "max_per_address_limit": o("mpa", jnum),
            "airdrop_mint_price": o("ap", jcoin_tok), "airdrop_mint_fee_bps": o("abps", jnum), "shuffle_fee": o("sf", jcoin_tok)}),
        FactoryKind::OpenEdition => json!({"max_token_limit": o("mtl", jnum), "max_per_address_limit": o("mpa", jnum),
            "min_mint_price": o("emmp", jcoin_tok), "airdrop_mint_fee_bps": o("abps", jnum), "airdrop_mint_price": o("ap", jcoin_tok),
            "dev_fee_address": opt_tok(line, "dev").map(|v| json!(addr(v.parse().unwrap_or(0)))).unwrap_or(Value::Null)}),
    };
    m
}

/// smart queries run before/after an in-App migration
fn queries(target: Target) -> Vec<Value> {
    let buyer = addr(BUYER);
    match target {
        Target::Factory(_) => vec![json!({"params": {}}), json!({"allowed_collection_code_ids": {}}), json!({"allowed_collection_code_id": 5})],
        Target::Minter(k) => {
            let mut v = vec![json!({"config": {}}), json!({"mintable_num_tokens": {}}), json!({"start_time": {}}), json!({"status": {}}),
                json!({"mint_count": {"address": buyer}}), json!({"mint_count": {"address": addr(CREATOR)}})];
            if k != MinterKind::TokenMerge {
                v.push(json!({"mint_price": {}}));
            }
            if k.is_open_edition() {
                v.push(json!({"end_time": {}}));
                v.push(json!({"total_mint_count": {}}));
            }
            if k == MinterKind::TokenMerge {
                v.push(json!({"mint_tokens": {}}));
                v.push(json!({"deposited_tokens": {"address": buyer}}));
            }
            v
        }
        Target::Splits => vec![json!({"admin": {}}), json!({"group": {}}), json!({"list_members": {"start_after": null, "limit": null}}),
            json!({"list_members": {"start_after": null, "limit": 30}}), json!({"list_members": {"start_after": addr(49), "limit": 30}}), json!({"member": {"address": addr(40)}}), json!({"member": {"address": addr(60)}})],
        Target::Wl(k) => {
            let mut v = vec![json!({"has_started": {}}), json!({"has_ended": {}}), json!({"is_active": {}}), json!({"config": {}}), json!({"admin_list": {}})];
            if k == WlKind::Merkle {
                v.push(json!({"merkle_root": {}}));
                v.push(json!({"merkle_tree_u_r_i": {}}));
            } else {
                v.push(json!({"merkle_roots": {}}));
                v.push(json!({"merkle_tree_u_r_is": {}}));
                v.push(json!({"stages": {}}));
                v.push(json!({"active_stage": {}}));
                v.push(json!({"active_stage_id": {}}));
                v.push(json!({"stage": {"stage_id": 0}}));
            }
            v
        }
        Target::Coll(_) => {
            let mut v = vec![json!({"num_tokens": {}}), json!({"contract_info": {}}), json!({"collection_info": {}}), json!({"minter": {}}),
                json!({"all_tokens": {"start_after": null, "limit": 30}}), json!({"tokens": {"owner": buyer, "start_after": null, "limit": 30}}),
                json!({"enable_updatable": {}}), json!({"enable_updatable_fee": {}}), json!({"freeze_token_metadata": {}}), json!({"ownership": {}})];
            for t in 1..=4 {
                v.push(json!({"owner_of": {"token_id": t.to_string(), "include_expired": null}}));
                v.push(json!({"nft_info": {"token_id": t.to_string()}}));
            }
            v
        }
    }
}

/// Parameterless smart queries enumerated AT RUN TIME from the crate's own `QueryMsg` schema, so that a query added to a
/// contract later is compared before/after a migration without touching this file (`queries` above supplies the ones that
/// need arguments).
fn schema_queries(key: &str) -> Vec<Value> {
    query_schema(key).1
}
/// (every query variant name the contract's `QueryMsg` knows, the parameterless ones as ready-made messages)
fn query_schema(key: &str) -> (Vec<String>, Vec<Value>) {
    macro_rules! noarg {
        ($t:ty) => {{
            let sch = serde_json::to_value(cosmwasm_schema::schema_for!($t)).unwrap_or(Value::Null);
            let mut all = vec![];
            let mut out = vec![];
            for v in sch["oneOf"].as_array().cloned().unwrap_or_default() {
                if let Some(names) = v["enum"].as_array() {
                    for n in names.iter().filter_map(|n| n.as_str()) {
                        all.push(n.to_string());
                        out.push(Value::String(n.to_string()));
                    }
                }
                let Some(name) = v["required"].as_array().and_then(|r| r.first()).and_then(|n| n.as_str()) else { continue };
                all.push(name.to_string());
                let body = &v["properties"][name];
                let needs_args = body["required"].as_array().map_or(false, |r| !r.is_empty());
                if body["type"] == json!("object") && !needs_args {
                    out.push(json!({ name: {} }));
                }
            }
            (all, out)
        }};
    }
    match key {
        "base-factory" | "vending-factory" | "open-edition-factory" => noarg!(sg2::query::Sg2QueryMsg),
        "token-merge-factory" => noarg!(token_merge_factory::msg::QueryMsg),
        "vending-minter" => noarg!(vending_minter::msg::QueryMsg),
        "vending-minter-featured" => noarg!(vending_minter_featured::msg::QueryMsg),
        "vending-minter-wl-flex" => noarg!(vending_minter_wl_flex::msg::QueryMsg),
        "vending-minter-wl-flex-featured" => noarg!(vending_minter_wl_flex_featured::msg::QueryMsg),
        "vending-minter-merkle-wl" => noarg!(vending_minter_merkle_wl::msg::QueryMsg),
        "vending-minter-merkle-wl-featured" => noarg!(vending_minter_merkle_wl_featured::msg::QueryMsg),
        "open-edition-minter" => noarg!(open_edition_minter::msg::QueryMsg),
        "open-edition-minter-wl-flex" => noarg!(open_edition_minter_wl_flex::msg::QueryMsg),
        "open-edition-minter-merkle-wl" => noarg!(open_edition_minter_merkle_wl::msg::QueryMsg),
        "token-merge-minter" => noarg!(token_merge_minter::msg::QueryMsg),
        "sg-splits" => noarg!(sg_splits::msg::QueryMsg),
        "whitelist-merkletree" => noarg!(whitelist_mtree::msg::QueryMsg),
        "tiered-whitelist-merkletree" => noarg!(tiered_whitelist_merkletree::msg::QueryMsg),
        "sg721-updatable" => noarg!(sg721_updatable::msg::QueryMsg),
        "sg721-metadata-onchain" | "sg721-nt" | "sg721-base" => noarg!(sg721_base::msg::QueryMsg),
        _ => (vec![], vec![]),
    }
}

// ------------------------------------------------------------------------------------------------ Sut

#[derive(Clone, Copy, PartialEq, Eq, Debug)]
enum Mode {
    Direct,
    App,
    Bare,
}

struct S {
    key: String,
    class: Class,
    target: Target,
    mode: Mode,
    b: Option<Built>,
    store: MemStore,
    self_addr: String,
    /// what the real `instantiate` of the CODE MIGRATED TO recorded: the code's own identity, independent of the Lean constants
    name0: String,
    ver0: String,
    keys: Keys,
    /// what sg721-updatable declares compatible (read from its source)
    decl: UpdDecl,
    /// (contract key, name, version) recorded by the real `instantiate` of each of the 21 contracts
    identities: Vec<(String, String, String)>,
    /// `strict_ids=1` in the case header: judge the code-id list by the LITERAL clause (see `ids-compacted` below)
    strict_ids: bool,
    from_base: bool,
    finding: Option<(String, String)>,
    /// classification of the last `mig` (for the coverage classes)
    pub last_class: String,
    pub act_ok: bool,
    pub q_compared: u64,
    pub q_failed_before: u64,
    /// coverage classes observed by the monitors (drained into `ses.mark` by `step`)
    pub marks: Vec<String>,
    pub notes: BTreeSet<String>,
    pub probes: u64,
}

impl S {
    fn new() -> S {
        let mut identities = vec![];
        for (key, _, _) in CONTRACTS {
            let mut r = Rng::new(1);
            let b = build(key, &mut r, &Opts::default());
            let st = b.w.app.contract_storage(&Addr::unchecked(&b.addr));
            let info = cw2::CONTRACT.load(&*st).expect("instantiate records cw2");
            identities.push((key.to_string(), info.contract, info.version));
        }
        S {
            key: String::new(),
            class: Class::Plain,
            target: Target::Splits,
            mode: Mode::Bare,
            b: None,
            store: MemStore::default(),
            self_addr: "contract0".into(),
            name0: String::new(),
            ver0: String::new(),
            keys: Keys::default(),
            decl: upd_decl(),
            identities,
            strict_ids: false,
            from_base: false,
            finding: None,
            last_class: String::new(),
            act_ok: false,
            q_compared: 0,
            q_failed_before: 0,
            marks: vec![],
            notes: BTreeSet::new(),
            probes: 0,
        }
    }
    fn identity(&self, key: &str) -> (String, String) {
        let i = self.identities.iter().find(|i| i.0 == key).expect("identity");
        (i.1.clone(), i.2.clone())
    }
    fn dump(&self) -> Dump {
        match self.mode {
            Mode::App => self.b.as_ref().unwrap().w.dump(&self.self_addr).into_iter().collect(),
            _ => self.store.0.clone(),
        }
    }
    fn with_store<R>(&mut self, f: impl FnOnce(&mut dyn Storage) -> R) -> R {
        match self.mode {
            Mode::App => {
                let b = self.b.as_mut().unwrap();
                let mut st = b.w.app.contract_storage_mut(&Addr::unchecked(&self.self_addr));
                f(&mut *st)
            }
            _ => f(&mut self.store),
        }
    }
    fn fields_masked(&mut self, mask: &[usize]) -> String {
        let keys = self.keys.clone();
        self.with_store(|st| state_fields(st, &keys, mask))
    }
    fn fields(&mut self) -> String {
        self.fields_masked(&[])
    }
    fn run_queries(&self) -> Vec<(Value, Option<Value>)> {
        let Some(b) = self.b.as_ref() else { return vec![] };
        let mut qs = queries(self.target);
        let mut extra = schema_queries(&self.key);
        if self.from_base {
            extra.extend(schema_queries("sg721-base")); // what the instance could answer BEFORE the cross-code migration
        }
        for q in extra {
            if !qs.contains(&q) {
                qs.push(q);
            }
        }
        qs.into_iter().map(|q| { let r = b.w.query(&self.self_addr, &q).ok(); (q, r) }).collect()
    }
    /// the stored identities the code DECLARES it accepts
    fn accepted(&self) -> Vec<String> {
        if self.class == Class::Updatable {
            self.decl.accepted.clone()
        } else {
            vec![self.name0.clone()]
        }
    }
}

fn plain_semver(s: &str) -> Option<semver::Version> {
    let v = semver::Version::parse(s).ok()?;
    if v.pre.is_empty() && v.build.is_empty() {
        Some(v)
    } else {
        None
    }
}

impl Sut for S {
    fn begin(&mut self, header: &str) -> (String, String) {
        let key = kv(header, "c").expect("c=").to_string();
        let (class, target) = contract(&key);
        let mode = match kv(header, "mode") {
            Some("app") => Mode::App,
            Some("bare") => Mode::Bare,
            _ => Mode::Direct,
        };
        let seed = kv_u64(header, "seed").unwrap_or(0);
        let mut rng = Rng::new(seed ^ 0xC20);
        let opts = Opts::of(header);
        let mut b = build(&key, &mut rng, &opts);
        for n in kv_list(header, "acts").unwrap_or_default() {
            act(&mut b, &key, n as u64);
        }
        let dump: Dump = b.w.dump(&b.addr).into_iter().collect();
        self.from_base = opts.from_base && class == Class::Updatable;
        // the identity of the code migrated TO: what its own `instantiate` records (for from=base that is sg721-updatable's,
        // not what the sg721-base instance recorded)
        let (n0, v0) = self.identity(&key);
        self.name0 = n0;
        self.ver0 = v0;
        self.strict_ids = match kv(header, "strict_ids") {
            Some("1") => true,
            Some("0") => false,
            _ => STRICT_IDS_DEFAULT,
        };
        self.self_addr = b.addr.clone();
        self.keys = Keys::of(&key);
        self.key = key;
        self.class = class;
        self.target = target;
        self.mode = mode;
        self.finding = None;
        self.store = match mode {
            Mode::Direct => MemStore(dump, BTreeSet::new()),
            _ => MemStore::default(),
        };
        self.b = if mode == Mode::App { Some(b) } else { None };
        let f = self.fields();
        let list = |v: &Vec<String>| if v.is_empty() { "-".to_string() } else { v.iter().map(|s| tok(s)).collect::<Vec<_>>().join(",") };
        let wit = if class == Class::Updatable { format!(" acc={} bn={}", list(&self.decl.accepted), list(&self.decl.base)) } else { String::new() };
        (format!("{header}{wit} {f}"), "case".into())
    }

    fn exec(&mut self, line: &str) -> (String, String) {
        let op = line.split_whitespace().next().unwrap_or("");
        self.finding = None;
        match op {
            "put" => {
                let k = kv(line, "k").unwrap_or("");
                let v = kv(line, "v").unwrap_or("-");
                let val: Option<Vec<u8>> = match k {
                    "ld" | "ru" => if v == "-" { None } else { Some(format!("\"{v}\"").into_bytes()) },
                    "fz" | "eu" => if v == "-" { None } else { Some(if v == "1" { b"true".to_vec() } else { b"false".to_vec() }) },
                    "lm" => if v == "-" { None } else { Some(format!("\"{}\"", addr(v.parse().unwrap_or(0))).into_bytes()) },
                    "own" => if v == "-" { None } else { Some(serde_json::to_vec(&json!({"owner": addr(v.parse().unwrap_or(0)), "pending_owner": null, "pending_expiry": null})).unwrap()) },
                    "params" => None,
                    _ => return (line.to_string(), "bad-op".into()),
                };
                let key = self.keys.k(k).to_vec();
                self.with_store(|st| match val {
                    Some(bytes) => st.set(&key, &bytes),
                    None => st.remove(&key),
                });
                let f = self.fields();
                (format!("{line} {f}"), "ok".into())
            }
            "act" => {
                let n = kv_u64(line, "n").unwrap_or(0);
                let key = self.key.clone();
                self.act_ok = match self.b.as_mut() {
                    Some(b) => act(b, &key, n),
                    None => false,
                };
                let f = self.fields();
                (format!("{line} {f}"), "ok".into())
            }
            // the model adopts the implementation's mechanism items (after a message-carrying factory migration: the values of
            // the SUPPLIED parameters are outside C20's projection, see `mig`)
            "sync" => {
                let f = self.fields();
                (format!("{line} {f}"), "ok".into())
            }
            "mig" => self.mig(line),
            _ => (line.to_string(), "bad-op".into()),
        }
    }

    fn monitor(&mut self) -> Option<(String, String)> {
        self.finding.take()
    }
}

impl S {
    fn mig(&mut self, line: &str) -> (String, String) {
        let t = kv_u64(line, "t").unwrap_or(0);
        // optional rewrite of the cw2 record (environment action)
        match kv(line, "name") {
            None | Some("*") => {}
            Some("-") => self.with_store(|st| cw2::CONTRACT.remove(st)),
            Some(n) => {
                let name = untok(n);
                let ver = untok(kv(line, "ver").unwrap_or("~"));
                self.with_store(|st| cw2::set_contract_version(st, name, ver).unwrap());
            }
        }
        let msg = migrate_msg(self.class, line);
        let has_msg = !msg.is_null() && matches!(self.class, Class::Factory(_));
        let mask = supplied_idx(line);
        let keys = self.keys.clone();
        let before = self.dump();
        let pre = before.get(keys.k("cw2")).and_then(|v| serde_json::from_slice::<cw2::ContractVersion>(v).ok());
        let pre_name = pre.as_ref().map(|v| v.contract.clone());
        let pre_ver = pre.as_ref().map(|v| v.version.clone());

        let mut written: BTreeSet<Vec<u8>> = BTreeSet::new();
        let (ok, q_before, q_after): (bool, Vec<(Value, Option<Value>)>, Vec<(Value, Option<Value>)>) = match self.mode {
            Mode::App => {
                self.b.as_mut().unwrap().w.set_time(t);
                let qb = self.run_queries();
                let b = self.b.as_mut().unwrap();
                let r = b.w.migrate(&b.admin.clone(), &self.self_addr, b.code_id, &msg);
                let qa = self.run_queries();
                (r.is_ok(), qb, qa)
            }
            _ => {
                let snapshot = self.store.clone();
                let key = self.key.clone();
                let sa = self.self_addr.clone();
                self.store.1.clear();
                let st = &mut self.store;
                let r = catch(|| direct_migrate(&key, st, t, &sa, &msg));
                let ok = matches!(r, Ok(Ok(())));
                if !ok {
                    self.store = snapshot; // a failed or aborted execution is rolled back by the chain
                } else {
                    written = std::mem::take(&mut self.store.1);
                }
                (ok, vec![], vec![])
            }
        };
        let after = self.dump();
        let ch_raw = changed_raw(&before, &after);
        let mut ch: Vec<String> = ch_raw.iter().map(|k| keys.canon(k)).collect();
        ch.sort();
        let out = if ok {
            // PROJECTION: primary = mechanism items with the SUPPLIED parameters masked + changed keys; behind ` ## `: all parameters
            let f = self.fields_masked(&mask);
            let full = after.get(keys.k("params")).and_then(|b| serde_json::from_slice::<Value>(b).ok()).map(|v| render_params(&v, &[])).unwrap_or_else(|| "-".into());
            // on a message-carrying factory migration whether `sudo-params` changed AT ALL depends on the supplied values: behind ` ## ` too
            let chp: Vec<String> = ch.iter().filter(|k| !(has_msg && k.as_str() == "sudo-params")).cloned().collect();
            format!("ok {f} ch={} ## params={full} pch={}", if chp.is_empty() { "-".to_string() } else { chp.join(",") }, if ch.iter().any(|k| k == "sudo-params") { 1 } else { 0 })
        } else {
            "err".to_string()
        };

        // ---------------------------------------------------------------- property monitors (independent of the Lean model)
        let c = self.key.clone();
        let code = plain_semver(&self.ver0).expect("code version");
        let stored = pre_ver.as_deref().and_then(plain_semver);
        let accepted = self.accepted();
        let name_ok = pre_name.as_ref().map_or(false, |n| accepted.contains(n));
        let v = |a: u64, b: u64, cc: u64| semver::Version::new(a, b, cc);
        let mut bad: Option<(String, String)> = None;
        let outcome = if ok { "ok" } else { "err" };
        let mut flag = |p: &str, w: String| {
            if bad.is_none() {
                bad = Some((format!("{c}/migrate/{p}"), format!("{w}; op `{line}` stored=({:?},{:?}) code=({},{}) => {outcome}", pre_name, pre_ver, self.name0, self.ver0)));
            }
        };
        // coverage class
        let vclass = match &stored {
            None => "unparsable",
            Some(s) if *s > code => "newer",
            Some(s) if *s == code => "equal",
            Some(s) if *s < self.decl.earliest => "lt-earliest",
            Some(s) if *s < v(3, 0, 0) => "lt-3.0.0",
            Some(s) if *s < v(3, 1, 0) => "lt-3.1.0",
            Some(s) if *s < v(3, 9, 0) => "lt-3.9.0",
            Some(_) => "older",
        };
        let nclass = match &pre_name {
            None => "no-record",
            Some(n) if *n == self.name0 => "own",
            Some(n) if accepted.contains(n) => "compatible",
            Some(n) if n.starts_with("crates.io:") || n.starts_with("sg721") => "sibling",
            Some(_) => "garbage",
        };
        let tclass = if t < H12 { "t<12h" } else if t < H24 { "t<24h" } else { "t-real" };
        self.last_class = format!("{}/{:?}/{nclass}/{vclass}/{}{}/{}", self.key, self.mode, if has_msg { "msg/" } else { "" }, tclass, outcome);
        let mut marks: Vec<String> = vec![];
        let mut notes: Vec<String> = vec![];
        let mut probes = 0u64;
        let from_base = pre_name.as_deref().map_or(false, |n| self.decl.base.iter().any(|b| b == n));

        if self.class.in_scope() {
            if ok {
                if pre.is_none() {
                    flag("no-record-accepted", "migration accepted without a cw2 record".into());
                } else if !name_ok {
                    flag("foreign-name-accepted", "stored contract identity is not one the code accepts, yet the migration succeeded".into());
                } else if stored.is_none() {
                    if pre_ver.as_deref().map_or(true, |s| semver::Version::parse(s).is_err()) {
                        flag("unparsable-version-accepted", "stored version is not a semantic version, yet the migration succeeded".into());
                    }
                } else if stored.as_ref().unwrap() > &code {
                    flag("downgrade-accepted", "stored version is newer than the code's version, yet the migration succeeded".into());
                }
                // "never cross contract types": a DECLARED-compatible name that is the recorded identity of another kind of
                // contract of this workspace (anything but the sg721-base / sg721-updatable family and the code's own name)
                if let Some(n) = &pre_name {
                    let family = UPD_ACCEPTED.contains(&n.as_str()) || *n == self.name0;
                    if name_ok && !family && self.identities.iter().any(|i| i.1 == *n && i.0 != self.key) {
                        flag("cross-type-accepted", format!("the code declares the identity `{n}` of another contract type compatible and migrated it"));
                    }
                }
                // recorded version afterwards
                let post = after.get(keys.k("cw2")).and_then(|v| serde_json::from_slice::<cw2::ContractVersion>(v).ok());
                if matches!(self.class, Class::Factory(_)) {
                    if after.get(keys.k("cw2")) != before.get(keys.k("cw2")) {
                        flag("factory-touched-cw2", "a factory migration changed the recorded identity/version".into());
                    }
                } else {
                    let good = post.as_ref().map_or(false, |p| p.contract == self.name0 && p.version == self.ver0);
                    if !good {
                        flag("version-after", format!("after a successful migration the record is {:?}, not the code's", post));
                    }
                }
                // frame: which raw keys may differ
                if let Some(s) = &stored {
                    let mut allowed: Vec<&str> = vec![];
                    match self.class {
                        Class::Factory(_) => {
                            if has_msg {
                                allowed.push("sudo-params")
                            }
                        }
                        Class::Plain => allowed.push("contract_info"),
                        Class::Vending => {
                            allowed.push("contract_info");
                            if *s < v(3, 9, 0) {
                                allowed.push("last_discount_time");
                            }
                        }
                        Class::Updatable => {
                            allowed.push("contract_info");
                            if from_base {
                                allowed.push("frozen_token_metadata");
                                allowed.push("enable_updatable");
                            }
                            if *s < v(3, 1, 0) {
                                allowed.push("royalty_updated_at");
                            }
                            if *s < v(3, 0, 0) {
                                allowed.push("minter");
                                allowed.push("ownership");
                            }
                        }
                        _ => {}
                    }
                    for k in &ch {
                        if !allowed.contains(&k.as_str()) {
                            flag(&format!("frame/{k}"), format!("storage key `{k}` changed; only {:?} may change here", allowed));
                        }
                    }
                    // OVERWRITE PROBE (direct mode): a key the migrate WROTE without changing its bytes, outside the allowed set.
                    // Harmless if it wrote back what it read; a violation if it wrote a constant ("reset to the instantiate
                    // default" is invisible to a byte diff while the state holds the default). Decide by running the same
                    // migration on the neighbouring state in which only that item differs.
                    for k in &written {
                        let name = keys.canon(k);
                        if allowed.contains(&name.as_str()) || ch.contains(&name) {
                            continue;
                        }
                        let Some(cur) = dget(&before, k) else { continue };
                        let alt = perturb(&cur);
                        if alt == cur {
                            continue;
                        }
                        probes += 1;
                        let mut st2 = MemStore(before.clone(), BTreeSet::new());
                        st2.0.insert(k.clone(), serde_json::to_vec(&alt).unwrap());
                        let (key2, sa2, msg2) = (self.key.clone(), self.self_addr.clone(), msg.clone());
                        let r = catch(|| direct_migrate(&key2, &mut st2, t, &sa2, &msg2));
                        if matches!(r, Ok(Ok(()))) {
                            let now = dget(&st2.0, k);
                            if now.as_ref() != Some(&alt) {
                                flag(&format!("frame/{name}"), format!("the migration overwrites `{name}` with a value that does not depend on the stored one: with `{name}` = {alt} before (everything else as in this case) it is {:?} afterwards; only {:?} may change here", now, allowed));
                            }
                        }
                    }
                    // the documented one-time initialisations have the documented values
                    let get = |item: &str| dget(&after, keys.k(item));
                    if self.class == Class::Vending && ch.iter().any(|k| k == "last_discount_time") && get("ld") != Some(json!((t - H12).to_string())) {
                        flag("discount-anchor", "last_discount_time is not (block time - 12 h)".into());
                    }
                    if self.class == Class::Updatable {
                        if ch.iter().any(|k| k == "royalty_updated_at") && get("ru") != Some(json!((t - H24).to_string())) {
                            flag("royalty-timestamp", "royalty_updated_at is not (block time - 24 h)".into());
                        }
                        if from_base && (get("fz") != Some(json!(false)) || get("eu") != Some(json!(false))) {
                            flag("updatable-flags", "flags not initialised to false when coming from sg721-base".into());
                        }
                        if *s < v(3, 0, 0) {
                            let lm = dget(&before, keys.k("lm"));
                            let ow = get("own").map(|o| o["owner"].clone());
                            if lm.is_none() || ow != lm {
                                flag("minter-preserved", format!("legacy minter {:?} did not become the owner {:?}", lm, ow));
                            }
                        }
                    }
                    // never decreases
                    if !matches!(self.class, Class::Factory(_)) {
                        if let Some(pv) = post.as_ref().and_then(|p| plain_semver(&p.version)) {
                            if pv < *s {
                                flag("version-decreased", format!("recorded version went from {s} to {pv}"));
                            }
                        }
                    }
                    // ---- coverage: the state was AWAY from the values a careless migrate would reset it to
                    let how = if *s == code { "same" } else { "upgrade" };
                    let side = if from_base { "base-name" } else { "own-name" };
                    let truthy = |item: &str| dget(&before, keys.k(item)) == Some(json!(true));
                    if self.class == Class::Updatable {
                        if truthy("fz") {
                            marks.push(format!("nondefault:frozen_token_metadata/{how}/{side}/{:?}", self.mode));
                        }
                        if truthy("eu") {
                            marks.push(format!("nondefault:enable_updatable/{how}/{side}/{:?}", self.mode));
                        }
                        if truthy("fci") {
                            marks.push(format!("nondefault:frozen_collection_info/{how}/{:?}", self.mode));
                        }
                        if *s >= v(3, 1, 0) && dget(&before, keys.k("ru")).is_some() {
                            marks.push(format!("nondefault:royalty_updated_at-kept/{how}"));
                        }
                    }
                    if let Some(stt) = dget(&before, keys.k("status")) {
                        if stt.as_object().map_or(false, |o| o.values().any(|x| x == &json!(true))) {
                            marks.push(format!("nondefault:status/{how}/{:?}", self.mode));
                        }
                    }
                    if self.class == Class::Vending && *s >= v(3, 9, 0) && dget(&before, keys.k("ld")).is_some() {
                        marks.push(format!("nondefault:last_discount_time-kept/{how}"));
                    }
                    if matches!(self.class, Class::Factory(_)) && dget(&before, keys.k("params")).map_or(false, |p| p["frozen"] == json!(true)) {
                        marks.push(format!("nondefault:factory-frozen/{}/{:?}", if has_msg { "msg" } else { "nomsg" }, self.mode));
                    }
                    if dget(&before, keys.k("admin_list")).map_or(false, |a| a["mutable"] == json!(false)) {
                        marks.push(format!("nondefault:wl-admins-frozen/{how}/{:?}", self.mode));
                    }
                    if self.key == "sg-splits" && dget(&before, keys.k("admin")) == Some(Value::Null) {
                        marks.push(format!("nondefault:splits-admin-renounced/{how}/{:?}", self.mode));
                    }
                    if self.from_base {
                        marks.push(format!("xcode:base->updatable/{:?}/{vclass}/ok", self.mode));
                    }
                }
                // every value that could be queried before is unchanged
                let ids_supplied = mask.contains(&1);
                for ((q, rb), (_, ra)) in q_before.iter().zip(q_after.iter()) {
                    let Some(rb) = rb else {
                        self.q_failed_before += 1;
                        continue;
                    };
                    self.q_compared += 1;
                    let qn = q.as_object().and_then(|o| o.keys().next().cloned()).unwrap_or_default();
                    if has_msg && qn == "params" {
                        continue; // judged parameter by parameter from the stored record below (supplied ones are exempt)
                    }
                    if has_msg && qn.starts_with("allowed_collection_code_id") {
                        if ids_supplied {
                            continue; // code ids explicitly supplied with the migration
                        }
                        if qn == "allowed_collection_code_ids" && ra.as_ref() != Some(rb) {
                            continue; // the list itself is judged below (`params/…allowed_sg721_code_ids`, exact-compaction rule)
                        }
                    }
                    if self.class == Class::Updatable && from_base && (qn == "enable_updatable" || qn == "freeze_token_metadata") {
                        continue; // documented one-time initialisation
                    }
                    if ra.is_none() && self.from_base && !query_schema(&self.key).0.contains(&qn) {
                        // cross-code: the code migrated to has no such query at all (its QueryMsg schema lacks the variant). An
                        // interface difference between two contracts, not a changed value: observed and noted, not judged.
                        marks.push(format!("xcode:query-not-in-target/{qn}"));
                        notes.push(format!("sg721-base -> sg721-updatable: the query `{qn}` exists in sg721-base but not in sg721-updatable; after the migration it can no longer be asked (answer before: {rb})"));
                        continue;
                    }
                    if ra.as_ref() != Some(rb) {
                        flag(&format!("query/{qn}"), format!("query {q} answered {rb} before and {:?} after", ra));
                    }
                }
                if has_msg {
                    // a parameter for which nothing was supplied keeps its value — judged on the STORED record, in every mode
                    let pb = dget(&before, keys.k("params"));
                    let pa = dget(&after, keys.k("params"));
                    if let (Some(pb), Some(pa)) = (pb, pa) {
                        let fb = flatten(&pb);
                        let fa = flatten(&pa);
                        let supplied = supplied_fields(&msg);
                        for (k, vb) in &fb {
                            let va = fa.get(k);
                            if va == Some(vb) || supplied.iter().any(|s| k.ends_with(s.as_str())) {
                                continue;
                            }
                            if k.ends_with("allowed_sg721_code_ids") {
                                // Code ids are compared as LISTS. The one deviation of the unchanged code: `update_params` runs
                                // `Vec::dedup` on every message, so a stored list with adjacent repeats is compacted although no ids
                                // were supplied. Exactly that (after == dedup(before)) is tolerated in generated runs and reported
                                // under its own key when the case header asks for the literal clause (`strict_ids=1`).
                                let list = |x: &Value| -> Vec<u64> { x.as_array().map(|a| a.iter().filter_map(|y| y.as_u64()).collect()).unwrap_or_default() };
                                let mut compact = list(vb);
                                compact.dedup();
                                if va.map(list) == Some(compact) {
                                    marks.push(format!("observed:ids-compacted/{}/{:?}", self.key, self.mode));
                                    notes.push(format!("{}: a migration whose message supplied no code ids compacted the stored allowed_sg721_code_ids {vb} to {} (Vec::dedup in update_params; C20_factory_unsupplied_ids_counterexample)", self.key, va.unwrap()));
                                    if self.strict_ids {
                                        flag("params/allowed_sg721_code_ids-compacted", format!("no code ids were supplied with the migration, yet the stored allowed_sg721_code_ids went from {vb} to {}", va.unwrap()));
                                    }
                                    continue;
                                }
                            }
                            flag(&format!("params/{}", k.trim_start_matches('.')), format!("parameter `{k}` was not supplied but changed from {vb} to {:?}", va));
                        }
                    }
                }
            } else {
                // refused: nothing may have changed
                if before != after {
                    flag("refused-changed-state", format!("a refused migration changed storage keys {:?}", ch));
                }
                // compatible ⇒ must be accepted
                if let (true, Some(s)) = (name_ok, &stored) {
                    let pn = pre_name.clone().unwrap_or_default();
                    let compatible = match self.class {
                        Class::Factory(_) => *s <= code && (!has_msg || (before.contains_key(keys.k("params")) && coins_native(self.class, &msg))),
                        Class::Plain => *s <= code,
                        Class::Vending => *s <= code && (*s == code || *s >= v(3, 9, 0) || t >= H12),
                        Class::Updatable => {
                            // `decl.earliest` / `accepted` are what the code DECLARES (read from its source); 3.0.0 / 3.1.0 / 24 h belong
                            // to the documented one-time upgrades (no legacy minter item, or a block time before 1970-01-02: aborts)
                            *s <= code
                                && *s >= self.decl.earliest
                                && !(*s == code && pn == self.name0)
                                && (*s >= v(3, 1, 0) || t >= H24)
                                && (*s >= v(3, 0, 0) || before.contains_key(keys.k("lm")))
                        }
                        _ => false,
                    };
                    if compatible {
                        flag("compatible-refused", "accepted identity, stored version not newer and declared compatible, yet the migration was refused".into());
                    }
                }
                if self.from_base {
                    marks.push(format!("xcode:base->updatable/{:?}/{vclass}/err", self.mode));
                }
            }
        }
        self.finding = bad;
        self.marks.extend(marks);
        self.notes.extend(notes);
        self.probes += probes;
        // witness for the model: the parameters as the implementation left them (it adopts the SUPPLIED ones only)
        let model_line = if ok && has_msg {
            match dget(&after, keys.k("params")) {
                Some(p) => format!("{line} rp={}", render_params(&p, &[])),
                None => line.to_string(),
            }
        } else {
            line.to_string()
        };
        (model_line, out)
    }
}

fn flatten(v: &Value) -> BTreeMap<String, Value> {
    let mut out = BTreeMap::new();
    fn go(p: &str, v: &Value, out: &mut BTreeMap<String, Value>) {
        match v {
            Value::Object(m) if !(m.contains_key("denom") && m.contains_key("amount")) => {
                for (k, x) in m {
                    go(&format!("{p}.{k}"), x, out);
                }
            }
            _ => {
                out.insert(p.to_string(), v.clone());
            }
        }
    }
    go("", v, &mut out);
    out
}
/// parameter names (suffixes of the flattened params) an update message supplies
fn supplied_fields(msg: &Value) -> Vec<String> {
    let mut out = vec![];
    let mut add = |k: &str, v: &Value| {
        if v.is_null() {
            return;
        }
        match k {
            "add_sg721_code_ids" | "rm_sg721_code_ids" => out.push("allowed_sg721_code_ids".to_string()),
            "extension" => {}
            _ => out.push(k.to_string()),
        }
    };
    if let Some(m) = msg.as_object() {
        for (k, v) in m {
            add(k, v);
        }
        if let Some(e) = m.get("extension").and_then(|e| e.as_object()) {
            for (k, v) in e {
                if k == "min_mint_price" {
                    continue; // the open-edition extension's min_mint_price is a dead field (F-C18c): it supplies nothing
                }
                add(k, v);
            }
        }
    }
    out
}
/// all coins the factory insists on being native are native
fn coins_native(class: Class, msg: &Value) -> bool {
    let Class::Factory(fk) = class else { return true };
    let nat = |v: &Value| v.is_null() || v["denom"].as_str() == Some("ustars");
    let e = &msg["extension"];
    match fk {
        FactoryKind::Base | FactoryKind::OpenEdition => nat(&msg["min_mint_price"]),
        FactoryKind::Vending => nat(&msg["min_mint_price"]) && nat(&e["airdrop_mint_price"]) && nat(&e["shuffle_fee"]),
        FactoryKind::TokenMerge => nat(&e["airdrop_mint_price"]) && nat(&e["shuffle_fee"]),
    }
}

// ------------------------------------------------------------------------------------------------ generators

const GRID: [u64; 10] = [0, 1, 2, 3, 9, 10, 15, 16, 17, 99];

fn grid_versions() -> Vec<String> {
    let mut v = vec![];
    for a in GRID {
        for b in GRID {
            for c in GRID {
                v.push(format!("{a}.{b}.{c}"));
            }
        }
    }
    // neighbours of every threshold the code mentions (3.9.0, 3.0.0, 3.1.0, 0.16.0, the crate version) and big components
    for s in [
        "3.8.0", "3.8.9", "3.8.99", "3.8.100", "3.9.1", "2.99.99", "2.9.9", "3.0.1", "3.0.8", "3.1.1", "0.15.99", "0.16.1", "0.8.0", "0.160.0",
        "3.16.1", "3.15.99", "3.160.0", "3.16.00000", "30.0.0", "4.0.0", "3.100.0", "3.9.18446744073709551615", "18446744073709551615.0.0",
        "3.16.18446744073709551615", "0.0.18446744073709551615", "8.8.8", "3.8.16",
    ] {
        v.push(s.to_string());
    }
    v
}
fn reduced_versions() -> Vec<String> {
    let mut v = vec![];
    for a in [0u64, 3, 16, 99] {
        for b in [0u64, 9, 16, 99] {
            for c in [0u64, 1, 99] {
                v.push(format!("{a}.{b}.{c}"));
            }
        }
    }
    for s in ["3.8.99", "3.9.0", "3.16.0", "3.16.1", "3.15.99", "2.99.99", "0.15.99", "0.16.0", "3.0.99", "3.1.0"] {
        v.push(s.to_string());
    }
    v
}
const GARBAGE_VERSIONS: [&str; 34] = [
    "~", "3", "3.9", "3.9.0.1", "03.9.0", "3.09.0", "3.9.00", "3.9.x", "v3.9.0", "3.9.0x", "3,9,0", "3..0", ".9.0", "3.9.", "-1.0.0", "+3.9.0",
    "3.9.0.", "18446744073709551616.0.0", "0.0.18446744073709551616", "3.18446744073709551616.0", "3.16.0a", "00.0.0", "0.0.00", "0.00.0",
    "3.9.0-", "3.9.0+", "abc", "3.1_6.0", "3.16.0.0", "3:16:0", "*", "3.*.0", "0x3.0.0", "99999999999999999999999999.1.1",
];
const GARBAGE_NAMES: [&str; 8] =
    ["~", "x", "crates.io:sg-minterx", "CRATES.IO:SG-MINTER", "crates.io:sg-minte", "sg-minter", "crates.io:sg721-base2", "crates.io:vending-factory-v2"];

fn rand_time(rng: &mut Rng) -> u64 {
    match rng.below(12) {
        0 => *rng.pick(&[0u64, H12 - 1, H12, H12 + 1, H24 - 1, H24, H24 + 1]),
        1 => rng.range(0, 2 * H24),
        _ => GENESIS + rng.range(0, 1000 * DAY),
    }
}

fn rand_msg(rng: &mut Rng, class: Class) -> String {
    let Class::Factory(fk) = class else { return "msg=0".into() };
    let mut s = String::from("msg=1");
    let coin = |rng: &mut Rng| format!("{}:{}", if rng.chance(1, 6) { rng.range(1, 3) } else { 0 }, rng.sized_u128(60));
    let mut f = |rng: &mut Rng, k: &str, v: String| {
        if rng.chance(1, 3) {
            s.push_str(&format!(" {k}={v}"));
        }
    };
    let n = rng.range(0, 20);
    f(rng, "code_id", n.to_string());
    let l = |rng: &mut Rng| -> String {
        let k = rng.below(4);
        if k == 0 {
            "-".into()
        } else {
            (0..k).map(|_| rng.range(1, 9).to_string()).collect::<Vec<_>>().join(",")
        }
    };
    let a = l(rng);
    f(rng, "add", a);
    let r = l(rng);
    f(rng, "rm", r);
    let b = rng.below(2);
    f(rng, "frozen", b.to_string());
    let c = coin(rng);
    f(rng, "cf", c);
    let n = rng.range(0, 1_000_000);
    f(rng, "off", n.to_string());
    if fk != FactoryKind::TokenMerge {
        let c = coin(rng);
        f(rng, "mmp", c);
        let n = rng.range(0, 10_000);
        f(rng, "bps", n.to_string());
    }
    if fk != FactoryKind::Base {
        let n = rng.range(0, 100_000);
        f(rng, "mtl", n.to_string());
        let n = rng.range(0, 1000);
        f(rng, "mpa", n.to_string());
        let c = coin(rng);
        f(rng, "ap", c);
        let n = rng.range(0, 10_000);
        f(rng, "abps", n.to_string());
    }
    if matches!(fk, FactoryKind::Vending | FactoryKind::TokenMerge) {
        let c = coin(rng);
        f(rng, "sf", c);
    }
    if fk == FactoryKind::OpenEdition {
        let n = rng.range(50, 80);
        f(rng, "dev", n.to_string());
        let c = coin(rng);
        f(rng, "emmp", c);
    }
    s
}

/// `ses.step` + drain the coverage classes / notes the monitors observed
fn step(ses: &mut Session, sut: &mut S, line: &str) -> String {
    let r = ses.step(sut, line);
    for m in std::mem::take(&mut sut.marks) {
        ses.mark(m);
    }
    r
}
/// a `mig` step (an accepted message-carrying factory migration hands the model the witness `rp=`, see the projection note in `mig`)
fn mig_step(ses: &mut Session, sut: &mut S, line: &str) -> String {
    step(ses, sut, line)
}
/// a version strictly below `v` (and at or above every threshold the migrations mention, when `v` is)
fn older_than(v: &str) -> String {
    let p = plain_semver(v).expect("code version");
    if p.patch > 0 {
        format!("{}.{}.{}", p.major, p.minor, p.patch - 1)
    } else if p.minor > 0 {
        format!("{}.{}.99", p.major, p.minor - 1)
    } else {
        format!("{}.99.99", p.major.saturating_sub(1))
    }
}

fn main() {
    let mut ses = Session::new("C20");
    let mut sut = S::new();
    if ses.maybe_replay(&mut sut) {
        for n in std::mem::take(&mut sut.notes) {
            ses.note(n);
        }
        ses.finish(&mut sut);
    }
    let thorough = ses.tier() != Tier::Quick;
    // development aid: C20_SECTIONS=grid,app runs only those sections (and does not enforce the coverage floor)
    let only: Option<Vec<String>> = std::env::var("C20_SECTIONS").ok().map(|v| v.split(',').map(|x| x.to_string()).collect());
    let sec = |name: &str| only.as_ref().map_or(true, |o| o.iter().any(|x| x == name));

    // ---- coverage floor: without these the run would be vacuous in exactly the respects the round-3 review found blind
    for r in [
        // a successful version-raising migration of each class, from a state AWAY from the values a reset would write
        "nondefault:frozen_token_metadata/upgrade/own-name/Direct",
        "nondefault:frozen_token_metadata/upgrade/own-name/App",
        "nondefault:frozen_token_metadata/upgrade/base-name",
        "nondefault:enable_updatable/upgrade/own-name/App",
        "nondefault:frozen_collection_info/upgrade/Direct",
        "nondefault:frozen_collection_info/upgrade/App",
        "nondefault:status/upgrade/Direct",
        "nondefault:status/upgrade/App",
        "nondefault:last_discount_time-kept/upgrade",
        "nondefault:royalty_updated_at-kept/upgrade",
        "nondefault:factory-frozen/nomsg",
        "nondefault:factory-frozen/msg",
        "nondefault:wl-admins-frozen/upgrade",
        "nondefault:splits-admin-renounced/upgrade",
        // the one legitimate cross-code migration: a real sg721-base instance to the sg721-updatable code
        "xcode:base->updatable/App/equal/ok",
        "xcode:base->updatable/Direct/equal/ok",
        "xcode:base->updatable/App/lt-3.0.0/ok",
        // the dedup deviation is exercised (and agrees with the model) on every factory
        "corpus:ids-compacted:base-factory:ok",
        "corpus:ids-compacted:vending-factory:ok",
        "corpus:ids-compacted:open-edition-factory:ok",
        "corpus:ids-compacted:token-merge-factory:ok",
        "observed:ids-compacted/",
        // accept at the boundary and refuse one step beyond it, per class
        "sg721-updatable/Direct/own/equal/t-real/err",
        "sg721-updatable/Direct/compatible/equal/t-real/ok",
        "sg721-updatable/Direct/compatible/lt-earliest/t-real/err",
        "sg721-updatable/Direct/compatible/lt-3.0.0/t-real/ok",
    ] {
        if only.is_none() {
            ses.require(r);
        }
    }
    for key in ["base-factory", "vending-factory", "open-edition-factory", "token-merge-factory", "vending-minter", "vending-minter-wl-flex", "vending-minter-merkle-wl",
                "open-edition-minter", "token-merge-minter", "sg-splits", "whitelist-merkletree", "tiered-whitelist-merkletree", "sg721-updatable"] {
        if only.is_some() {
            break;
        }
        for c in ["own/newer/t-real/err", "own/older/t-real/ok", "sibling/older/t-real/err", "own/unparsable/"] {
            ses.require(format!("{key}/Direct/{c}"));
        }
        if key != "sg721-updatable" {
            ses.require(format!("{key}/Direct/own/equal/t-real/ok"));
        }
    }

    // the identities the real contracts record at instantiate (for the sibling-name dimension)
    let mut names: Vec<String> = vec![];
    for (key, n, ver) in sut.identities.clone() {
        ses.note(format!("{key}: instantiate records ({n}, {ver})"));
        if !names.contains(&n) {
            names.push(n);
        }
    }
    for n in ["sg721-base", "sg721-updatable", "crates.io:sg-base-minter", "crates.io:sg-whitelist", "crates.io:sg-eth-airdrop"] {
        if !names.contains(&n.to_string()) {
            names.push(n.to_string());
        }
    }
    ses.note("version strings with pre-release / build metadata are not generated (outside the model; the repo never stores them)");
    let decl = sut.decl.clone();
    ses.note(format!(
        "sg721-updatable declares (read from {}): compatible names {:?}, flag-initialising names {:?}, earliest {}{}",
        if decl.from_source { "its source" } else { "the SNAPSHOT in c20.rs — source not parsable" },
        decl.accepted, decl.base, decl.earliest,
        if decl.accepted.iter().map(|s| s.as_str()).collect::<Vec<_>>() != UPD_ACCEPTED.to_vec() || decl.base.iter().map(|s| s.as_str()).collect::<Vec<_>>() != UPD_BASE.to_vec() || decl.earliest.to_string() != UPD_EARLIEST
            { " — DIFFERS from the snapshot (a re-declaration of compatibility; monitors and model follow it)" } else { "" }
    ));
    {
        let (mut total, mut extra, mut ex): (usize, usize, Vec<String>) = (0, 0, vec![]);
        for (key, _, target) in CONTRACTS.iter() {
            let hand = queries(*target);
            for q in schema_queries(key) {
                total += 1;
                if !hand.contains(&q) {
                    extra += 1;
                    if ex.len() < 6 {
                        ex.push(format!("{key}:{q}"));
                    }
                }
            }
        }
        ses.note(format!("run-time query surface: {total} parameterless query variants enumerated from the 21 contracts' QueryMsg schemas, {extra} of them not in the hand-written lists (e.g. {})", ex.join(" ")));
    }
    ses.note("the code version is fixed at the workspace version in every executed case: monotonicity over VARYING code versions (C20_monotone) is proved, not exercised");
    let upd_accepted: Vec<String> = decl.accepted.clone();
    let upd_base: Vec<String> = decl.base.clone();

    let grid = grid_versions();
    let reduced = reduced_versions();
    let t_real = GENESIS + 500 * DAY;

    // ---------------------------------------------------------------------------- 0. corpus: the dedup deviation, all factories
    // (generated run: tolerated + marked; `strict_ids=1` — corpus/C20/ids-compacted-without-ids.json — raises the monitor key)
    for (key, class, _) in CONTRACTS.iter() {
        if !sec("corpus") {
            break;
        }
        if !matches!(class, Class::Factory(_)) {
            continue;
        }
        for mode in ["app", "direct"] {
            ses.begin_case(&mut sut, &format!("case corpus-ids c={key} mode={mode} seed=1 acts=- ids=5,5,7,7,7,9,5"));
            // a message in which every field is absent: nothing is supplied
            let r = mig_step(&mut ses, &mut sut, &format!("mig t={t_real} name=* ver=~ msg=1"));
            ses.mark(format!("corpus:ids-compacted:{key}:{}", r.split_whitespace().next().unwrap_or("?")));
            // at most once: the second message-less update leaves the list alone (C20_factory_ids_compaction_once)
            mig_step(&mut ses, &mut sut, &format!("mig t={} name=* ver=~ msg=1 frozen=1", t_real + 1));
            // and without a message nothing at all changes, adjacent repeats or not
            ses.end_case();
            ses.begin_case(&mut sut, &format!("case corpus-ids-nomsg c={key} mode={mode} seed=1 acts=- ids=5,5,7,7,7,9,5"));
            step(&mut ses, &mut sut, &format!("mig t={t_real} name=* ver=~ msg=0"));
            let l = format!("mig t={t_real} name={} ver={} msg=0", tok(&sut.name0), older_than(&sut.ver0));
            step(&mut ses, &mut sut, &l);
            ses.end_case();
        }
    }

    // ---------------------------------------------------------------------------- 0b. moved states (every seed): each class is
    // migrated — version-raising, then again — from a state in which the flags a careless migrate would "initialise" are NOT at
    // their instantiate values
    for (key, class, target) in CONTRACTS.iter() {
        if !sec("moved") {
            break;
        }
        let acts: &str = match target {
            Target::Factory(_) => "3,6",              // sudo update_params: 3 and 6 set frozen=true
            Target::Minter(_) => "0,2,4",             // mint, discount / mint_to, sudo update_status(true,true,true)
            Target::Coll(_) => "0,6,9,7,8",           // mint, royalty change, edit a token URI, freeze token metadata, freeze collection info
            Target::Splits => "0,2",                  // distribute, renounce the admin
            Target::Wl(_) => "0,1",                   // update admins, freeze the admin list
        };
        for mode in ["direct", "app"] {
            if *class == Class::Base721 && mode == "app" {
                continue;
            }
            let seed = ses.rng.below(100_000);
            ses.begin_case(&mut sut, &format!("case moved c={key} mode={mode} seed={seed} acts={acts}"));
            let own = sut.name0.clone();
            let old = older_than(&sut.ver0);
            let msg = if matches!(class, Class::Factory(_)) { "msg=1 off=777" } else { "msg=0" };
            mig_step(&mut ses, &mut sut, &format!("mig t={t_real} name={} ver={old} msg=0", tok(&own)));
            ses.mark(format!("moved/{}", sut.last_class));
            ses.mark(sut.last_class.clone());
            mig_step(&mut ses, &mut sut, &format!("mig t={} name=* ver=~ {msg}", t_real + 1));
            ses.mark(format!("moved/again/{}", sut.last_class));
            // the accept/refuse boundary of this class, at a realistic block time, from the moved state (every seed)
            let v0 = sut.ver0.clone();
            let newer = { let p = plain_semver(&v0).unwrap(); format!("{}.{}.{}", p.major, p.minor, p.patch + 1) };
            let sibling = names.iter().find(|n| !sut.accepted().contains(n) && n.starts_with("crates.io:")).cloned().unwrap_or_else(|| "crates.io:other".into());
            for (n, ver) in [(&own, &v0), (&own, &newer), (&sibling, &old), (&own, &"3.9".to_string()), (&own, &old)] {
                mig_step(&mut ses, &mut sut, &format!("mig t={} name={} ver={ver} msg=0", t_real + 5, tok(n)));
                ses.mark(sut.last_class.clone());
            }
            if *class == Class::Updatable {
                // the same frozen collection, recorded under an sg721-base name: the documented initialisation resets the flags
                let bn = upd_base.first().cloned().unwrap_or_else(|| "sg721-base".into());
                step(&mut ses, &mut sut, "put k=fz v=1");
                step(&mut ses, &mut sut, "put k=eu v=1");
                mig_step(&mut ses, &mut sut, &format!("mig t={} name={} ver={old} msg=0", t_real + 2, tok(&bn)));
                ses.mark(format!("moved/base/{}", sut.last_class));
                // and under its own name again, flags set by hand this time
                step(&mut ses, &mut sut, "put k=fz v=1");
                step(&mut ses, &mut sut, "put k=eu v=0");
                mig_step(&mut ses, &mut sut, &format!("mig t={} name={} ver={old} msg=0", t_real + 3, tok(&own)));
                ses.mark(format!("moved/own2/{}", sut.last_class));
                // declared-compatible foreign name: at the code's version (accepted), below the declared earliest (refused),
                // below 3.0.0 with the legacy minter item it then has (accepted)
                let below = older_than(&decl.earliest.to_string());
                step(&mut ses, &mut sut, "put k=lm v=1001");
                for ver in [v0.clone(), below, "2.99.99".to_string()] {
                    mig_step(&mut ses, &mut sut, &format!("mig t={} name={} ver={ver} msg=0", t_real + 6, tok(&bn)));
                    ses.mark(sut.last_class.clone());
                }
            }
            ses.end_case();
        }
    }

    // ---------------------------------------------------------------------------- 0c. cross-code: a REAL sg721-base instance
    // migrated to the sg721-updatable code (queries before are answered by sg721-base, after by sg721-updatable)
    let n_x = ses.scale(12, 90);
    for i in 0..n_x {
        if !sec("xcode") {
            break;
        }
        for mode in ["app", "direct"] {
            let acts = match i % 3 {
                0 => "-".to_string(),
                1 => "0,6".to_string(),
                _ => format!("0,{},8", ses.rng.below(7)),
            };
            let seed = ses.rng.below(100_000);
            ses.begin_case(&mut sut, &format!("case xcode c=sg721-updatable mode={mode} from=base seed={seed} acts={acts}"));
            let t = t_real + i;
            match i % 3 {
                0 | 1 => {
                    // the record as sg721-base wrote it (its own name, the workspace version): accepted — same version, other name
                    mig_step(&mut ses, &mut sut, &format!("mig t={t} name=* ver=~ msg=0"));
                    ses.mark(format!("xcode/{}", sut.last_class));
                    // now it IS an sg721-updatable at the code's version: refused
                    mig_step(&mut ses, &mut sut, &format!("mig t={} name=* ver=~ msg=0", t + 1));
                    ses.mark(format!("xcode/again/{}", sut.last_class));
                }
                _ => {
                    // an old sg721-base (pre-3.0.0 layout: cw721 0.16 `minter` item, no cw-ownable record, no royalty timestamp)
                    let minter = sut.b.as_ref().and_then(|b| b.minter.clone()).map(|m| addr_id(&m)).unwrap_or(1001);
                    step(&mut ses, &mut sut, &format!("put k=lm v={minter}"));
                    step(&mut ses, &mut sut, "put k=own v=-");
                    step(&mut ses, &mut sut, "put k=ru v=-");
                    let bn = ses.rng.pick(&upd_base).clone();
                    let ver = ses.rng.pick(&["2.99.99", "0.16.0", "2.4.0", "1.0.0"]).to_string();
                    mig_step(&mut ses, &mut sut, &format!("mig t={t} name={} ver={ver} msg=0", tok(&bn)));
                    ses.mark(format!("xcode/{}", sut.last_class));
                }
            }
            ses.end_case();
        }
    }

    // ---------------------------------------------------------------------------- 1. the version grid × names, route (i)
    let reps = if thorough { 2 } else { 1 }; // thorough: two independent state variants per (contract, name)
    for rep in 0..reps {
        if !sec("grid") {
            break;
        }
    for (ci, (key, class, _)) in CONTRACTS.iter().enumerate() {
        let ci = ci + 7 * rep;
        let own: Vec<String> = if *class == Class::Updatable { upd_accepted.clone() } else { vec![sut.identity(key).0] };
        let mut name_list: Vec<(String, bool)> = own.iter().map(|n| (n.clone(), true)).collect();
        let mut others: Vec<String> = names.iter().filter(|n| !own.contains(n)).cloned().collect();
        let garbage: Vec<String> = GARBAGE_NAMES.iter().map(|s| s.to_string()).collect();
        if thorough {
            for n in others.iter().chain(garbage.iter()) {
                name_list.push((n.clone(), true));
            }
        } else {
            ses.rng.shuffle(&mut others);
            for (i, n) in others.iter().enumerate() {
                name_list.push((n.clone(), i < 2));
            }
            let g = ses.rng.below(garbage.len() as u64) as usize;
            for (i, n) in garbage.iter().enumerate() {
                name_list.push((n.clone(), i == g));
            }
        }
        for (ni, (name, full)) in name_list.iter().enumerate() {
            let acts = match ses.rng.below(3) {
                0 => "-".to_string(),
                1 => format!("{}", ses.rng.below(12)),
                _ => format!("{},{}", ses.rng.below(12), ses.rng.below(12)),
            };
            let header = format!("case grid c={key} mode=direct seed={} acts={acts}", ses.rng.below(1000));
            ses.begin_case(&mut sut, &header);
            // older collections / minters: the items later versions added are absent
            if *class == Class::Vending && ses.rng.chance(2, 3) {
                step(&mut ses, &mut sut, "put k=ld v=-");
            }
            if matches!(class, Class::Updatable | Class::MetaOnchain | Class::Nt | Class::Base721) && ses.rng.chance(2, 3) {
                { let l = format!("put k=lm v={}", 1000 + ses.rng.range(1, 9)); step(&mut ses, &mut sut, &l); }
                if ses.rng.chance(3, 4) {
                    step(&mut ses, &mut sut, "put k=own v=-");
                }
            }
            let vs = if *full { &grid } else { &reduced };
            for (vi, ver) in vs.iter().enumerate() {
                let t = if (vi + ni + ci) % 11 == 0 { rand_time(&mut ses.rng) } else { t_real + vi as u64 };
                let msg = if (vi + ni) % 5 == 0 { rand_msg(&mut ses.rng, *class) } else { "msg=0".into() };
                if *class == Class::Updatable && vi % 97 == 0 {
                    if upd_base.contains(name) && vi % 2 == 0 {
                        // a base-named record normally has no updatable flags yet
                        step(&mut ses, &mut sut, "put k=fz v=-");
                        step(&mut ses, &mut sut, "put k=eu v=-");
                    } else {
                        // flags AWAY from what the initialisation writes: kept under an updatable name, reset under a base name
                        { let l = format!("put k=fz v={}", ses.rng.below(2)); step(&mut ses, &mut sut, &l); }
                        { let l = format!("put k=eu v={}", ses.rng.below(2)); step(&mut ses, &mut sut, &l); }
                    }
                }
                if matches!(class, Class::Updatable | Class::MetaOnchain | Class::Nt | Class::Base721) && vi % 13 == 5 {
                    // restore the legacy `minter` item the previous successful pre-3.0.0 migration consumed
                    { let l = format!("put k=lm v={}", 1000 + ses.rng.range(1, 9)); step(&mut ses, &mut sut, &l); }
                }
                mig_step(&mut ses, &mut sut, &format!("mig t={t} name={} ver={ver} {msg}", tok(name)));
                let cl = sut.last_class.clone();
                ses.mark(cl);
                if (vi + ci) % 17 == 3 {
                    // history: the same code migrates again without anybody touching the record
                    mig_step(&mut ses, &mut sut, &format!("mig t={} name=* ver=~ msg=0", t + 1));
                    ses.mark(format!("again/{}", sut.last_class));
                }
            }
            ses.end_case();
        }
    }
    }

    // ---------------------------------------------------------------------------- 2. malformed versions, missing record, bare stores
    for (key, class, _) in CONTRACTS.iter() {
        if !sec("garbage") {
            break;
        }
        for mode in ["direct", "bare"] {
            let header = format!("case garbage c={key} mode={mode} seed={} acts=-", ses.rng.below(1000));
            ses.begin_case(&mut sut, &header);
            let own = if *class == Class::Updatable && ses.rng.chance(1, 2) { ses.rng.pick(&upd_accepted).to_string() } else { sut.name0.clone() };
            step(&mut ses, &mut sut, &format!("mig t={t_real} name=- ver=~ msg=0"));
            ses.mark(sut.last_class.clone());
            for g in GARBAGE_VERSIONS {
                let msg = if ses.rng.chance(1, 6) { rand_msg(&mut ses.rng, *class) } else { "msg=0".into() };
                { let l = format!("mig t={} name={} ver={g} {msg}", rand_time(&mut ses.rng), tok(&own)); mig_step(&mut ses, &mut sut, &l); }
                ses.mark(sut.last_class.clone());
            }
            // bare store: factories have no params to update, old collections no legacy minter
            for ver in ["0.15.99", "0.16.0", "2.99.99", "3.0.0", "3.0.99", "3.1.0", "3.8.99", "3.9.0", "3.15.99", "3.16.0", "3.16.1"] {
                let msg = if ses.rng.chance(1, 2) { rand_msg(&mut ses.rng, *class) } else { "msg=0".into() };
                { let l = format!("mig t={} name={} ver={ver} {msg}", rand_time(&mut ses.rng), tok(&own)); mig_step(&mut ses, &mut sut, &l); }
                ses.mark(sut.last_class.clone());
                if ses.rng.chance(1, 3) {
                    { let l = format!("put k=lm v={}", 1000 + ses.rng.range(1, 9)); step(&mut ses, &mut sut, &l); }
                }
            }
            ses.end_case();
        }
    }

    // ---------------------------------------------------------------------------- 3. reachable states inside the App, route (ii) + histories
    let n_app = ses.scale(80, 500);
    for (key, class, _) in CONTRACTS.iter() {
        if !sec("app") {
            break;
        }
        if *class == Class::Base721 {
            continue; // a method, not an entry point: nothing to call through the App
        }
        for _ in 0..n_app {
            let nacts = ses.rng.below(4);
            let acts: Vec<String> = (0..nacts).map(|_| ses.rng.below(12).to_string()).collect();
            let header = format!("case app c={key} mode=app seed={} acts={}", ses.rng.below(100_000), if acts.is_empty() { "-".into() } else { acts.join(",") });
            ses.begin_case(&mut sut, &header);
            let accepted = sut.accepted();
            let nops = ses.rng.range(3, 9);
            // ghost: the highest version an accepted non-factory migration recorded in this case (own bookkeeping, for histories)
            for _ in 0..nops {
                let r = ses.rng.below(10);
                if r < 2 {
                    { let l = format!("act n={}", ses.rng.below(40)); step(&mut ses, &mut sut, &l); }
                    ses.count(if sut.act_ok { "act:succeeded" } else { "act:failed" });
                    continue;
                }
                // mostly-valid stored record: accepted name, a version at or below the code's; then single faults
                let mut name = ses.rng.pick(&accepted).clone();
                let mut ver = match ses.rng.below(8) {
                    0 => sut.ver0.clone(),
                    1 => ses.rng.pick(&["3.8.99", "3.9.0", "3.0.0", "2.99.99", "3.1.0", "3.0.99", "0.16.0", "0.15.99", "3.15.99", "3.16.1"]).to_string(),
                    _ => format!("{}.{}.{}", ses.rng.pick(&[0u64, 1, 2, 3, 3, 3]), ses.rng.pick(&GRID), ses.rng.pick(&GRID)),
                };
                match ses.rng.below(10) {
                    0 => name = ses.rng.pick(&names).clone(),
                    1 => name = ses.rng.pick(&GARBAGE_NAMES).to_string(),
                    2 => ver = ses.rng.pick(&GARBAGE_VERSIONS).to_string(),
                    3 => ver = format!("{}.{}.{}", ses.rng.pick(&[3u64, 4, 99]), ses.rng.pick(&[16u64, 17, 99, 160]), ses.rng.pick(&GRID)),
                    _ => {}
                }
                let keep = ses.rng.chance(1, 6); // history: migrate again without touching the record
                let pv = plain_semver(&ver);
                if !keep {
                    let old = |a, b, c| pv.as_ref().map_or(false, |p| *p < semver::Version::new(a, b, c));
                    if *class == Class::Vending && old(3, 9, 0) && ses.rng.chance(3, 4) {
                        step(&mut ses, &mut sut, "put k=ld v=-");
                    }
                    if matches!(class, Class::Updatable | Class::MetaOnchain | Class::Nt) {
                        if upd_base.contains(&name) && ses.rng.chance(3, 4) {
                            step(&mut ses, &mut sut, "put k=fz v=-");
                            step(&mut ses, &mut sut, "put k=eu v=-");
                        }
                        if old(3, 0, 0) && ses.rng.chance(5, 6) {
                            // a pre-3.0.0 collection keeps its minter in the cw721 0.16 `minter` item and has no cw-ownable record
                            let minter = sut.b.as_ref().and_then(|b| b.minter.clone()).map(|m| addr_id(&m)).unwrap_or(1001);
                            step(&mut ses, &mut sut, &format!("put k=lm v={minter}"));
                            step(&mut ses, &mut sut, "put k=own v=-");
                        }
                        if old(3, 1, 0) && ses.rng.chance(1, 2) {
                            step(&mut ses, &mut sut, "put k=ru v=-");
                        }
                    }
                }
                let t = rand_time(&mut ses.rng);
                let msg = if ses.rng.chance(1, 2) { rand_msg(&mut ses.rng, *class) } else { "msg=0".into() };
                let line = if keep { format!("mig t={t} name=* ver=~ {msg}") } else { format!("mig t={t} name={} ver={} {msg}", tok(&name), ver) };
                mig_step(&mut ses, &mut sut, &line);
                ses.mark(sut.last_class.clone());
            }
            ses.end_case();
        }
    }

    // ---------------------------------------------------------------------------- 4. exact boundary instants × threshold versions
    for (key, class, _) in CONTRACTS.iter() {
        if !sec("boundary") {
            break;
        }
        if !matches!(class, Class::Vending | Class::Updatable | Class::Base721 | Class::MetaOnchain) {
            continue;
        }
        let header = format!("case boundary c={key} mode=direct seed={} acts=-", ses.rng.below(1000));
        ses.begin_case(&mut sut, &header);
        let own = sut.name0.clone();
        for ver in ["3.8.99", "3.9.0", "3.0.99", "3.1.0", "2.99.99", "3.0.0", "0.16.0", "0.15.99"] {
            for t in [0u64, 1, H12 - 1, H12, H12 + 1, H24 - 1, H24, H24 + 1, u64::MAX] {
                if *class != Class::Vending {
                    let l = format!("put k=lm v={}", 1000 + ses.rng.range(1, 9));
                    step(&mut ses, &mut sut, &l);
                }
                if *class == Class::Vending && ses.rng.chance(1, 2) {
                    step(&mut ses, &mut sut, "put k=ld v=-");
                }
                if *class == Class::Updatable && ses.rng.chance(1, 3) {
                    { let l = format!("put k=fz v={}", ses.rng.below(2)); step(&mut ses, &mut sut, &l); }
                    { let l = format!("put k=eu v={}", ses.rng.below(2)); step(&mut ses, &mut sut, &l); }
                }
                let name = if *class == Class::Updatable { ses.rng.pick(&upd_accepted).to_string() } else { own.clone() };
                step(&mut ses, &mut sut, &format!("mig t={t} name={name} ver={ver} msg=0"));
                ses.mark(format!("boundary/{}", sut.last_class));
            }
        }
        ses.end_case();
    }

    ses.note(format!("in-App migrations: {} smart-query answers compared before/after, {} queries skipped because they already failed before", sut.q_compared, sut.q_failed_before));
    ses.note(format!("overwrite probes (a key written with identical bytes outside the allowed set, re-run on the neighbouring state): {}", sut.probes));
    for n in std::mem::take(&mut sut.notes).into_iter().take(12) {
        ses.note(n);
    }
    if std::env::var("C20_DEBUG").is_ok() {
        for c in &ses.classes {
            eprintln!("CLASS {c}");
        }
    }
    ses.finish(&mut sut);
}
