//! C18 — governance updates take effect exactly as submitted.
//! Real factories (4) and minters (11) inside one cw-multi-test `App` vs `LP.Gov` (Lean). See docs/C18.md.
//!
//! Round 3 conventions:
//! * the monitors judge the contracts against a GHOST kept by the harness from what it SENT (the params it instantiated the
//!   factory with, the fields of every accepted update, the arguments of every creation, the flags of every UpdateStatus) —
//!   never against an answer of the code under test that the same bug would corrupt;
//! * the harness never panics on unexpected contract behaviour: saturating / checked arithmetic on everything observed, no
//!   `unwrap` on observations, and every generator part runs under `catch` (a harness panic is an unmet coverage floor, the
//!   findings collected so far are still reported);
//! * output lines are `primary ## outside-projection`: the split between fee recipients (C06/C02), the running supply (C01)
//!   and refusals the model does not have (hardening outside the property) are behind ` ## `;
//! * `upd` lines carry the implementation's verdict (`acc=`) to the model as a CHECKED witness (`LP.Gov.updW`);
//! * the message surface (factory `SudoMsg` / `ExecuteMsg` variants, fields of the update messages, keys of the `Params`
//!   answers, `sg4::SudoMsg`) is enumerated at RUN TIME; unknown items are noted, marked and exercised under the monitors.
use lp_harness::minters::*;
use lp_harness::world::{addr, addr_id, denom_id, ID_FAIRBURN_POOL, ID_LAUNCHPAD_DAO, ID_LIQUIDITY_DAO};
use lp_harness::*;
use serde_json::{json, Map, Value};
use std::collections::{BTreeMap, BTreeSet};

const ADMIN: u64 = 10;
const GOV: u64 = 90;
const DEV_IDS: std::ops::RangeInclusive<u64> = 60..=69;
const DAY: u64 = 86_400_000_000_000;
const SEC: u64 = 1_000_000_000;
const T0: u64 = GENESIS + 1_000_000_000_000;

// ------------------------------------------------------------------------------------------------ update lines

/// one `upd` line, parsed (a `None` = field omitted)
#[derive(Clone, Debug, Default)]
struct Upd {
    code: Option<u64>,
    add: Option<Vec<u64>>,
    rm: Option<Vec<u64>>,
    frozen: Option<bool>,
    cfee: Option<(u64, u128)>,
    minp: Option<(u64, u128)>,
    bps: Option<u64>,
    off: Option<u64>,
    mtl: Option<u64>,
    mpal: Option<u64>,
    adp: Option<(u64, u128)>,
    adbps: Option<u64>,
    shuf: Option<(u64, u128)>,
    xminp: Option<(u64, u128)>,
    dev: Option<u64>,
    ext: Option<bool>,
    nulls: bool,
    /// send the message through the factory's `migrate` entry point instead of `sudo`
    via_mig: bool,
    /// a field of the update message this file has no name for (found in the schema at run time): `top.<name>` / `ext.<name>`
    xf: Option<String>,
}

fn kv_coin(line: &str, key: &str) -> Option<(u64, u128)> {
    let v = kv(line, key)?;
    let (d, a) = v.split_once(':')?;
    Some((d.parse().ok()?, a.parse().ok()?))
}
fn kv_ids(line: &str, key: &str) -> Option<Vec<u64>> {
    kv_list(line, key).map(|v| v.into_iter().map(|x| x as u64).collect())
}
fn fmt_coin(c: (u64, u128)) -> String {
    format!("{}:{}", c.0, c.1)
}

impl Upd {
    fn parse(line: &str) -> Upd {
        Upd {
            code: kv_u64(line, "code"),
            add: kv_ids(line, "add"),
            rm: kv_ids(line, "rm"),
            frozen: kv_bool(line, "frozen"),
            cfee: kv_coin(line, "cfee"),
            minp: kv_coin(line, "minp"),
            bps: kv_u64(line, "bps"),
            off: kv_u64(line, "off"),
            mtl: kv_u64(line, "mtl"),
            mpal: kv_u64(line, "mpal"),
            adp: kv_coin(line, "adp"),
            adbps: kv_u64(line, "adbps"),
            shuf: kv_coin(line, "shuf"),
            xminp: kv_coin(line, "xminp"),
            dev: kv_u64(line, "dev"),
            ext: kv_bool(line, "ext"),
            nulls: kv_bool(line, "nulls").unwrap_or(false),
            via_mig: kv(line, "via") == Some("m"),
            xf: kv(line, "xf").map(|s| s.to_string()),
        }
    }
    fn line(&self) -> String {
        let mut s = String::from("upd");
        let mut put = |k: &str, v: Option<String>| {
            if let Some(v) = v {
                s.push_str(&format!(" {k}={v}"));
            }
        };
        put("code", self.code.map(|x| x.to_string()));
        put("add", self.add.as_ref().map(|x| fmt_list(x)));
        put("rm", self.rm.as_ref().map(|x| fmt_list(x)));
        put("frozen", self.frozen.map(|b| (b as u8).to_string()));
        put("cfee", self.cfee.map(fmt_coin));
        put("minp", self.minp.map(fmt_coin));
        put("bps", self.bps.map(|x| x.to_string()));
        put("off", self.off.map(|x| x.to_string()));
        put("mtl", self.mtl.map(|x| x.to_string()));
        put("mpal", self.mpal.map(|x| x.to_string()));
        put("adp", self.adp.map(fmt_coin));
        put("adbps", self.adbps.map(|x| x.to_string()));
        put("shuf", self.shuf.map(fmt_coin));
        put("xminp", self.xminp.map(fmt_coin));
        put("dev", self.dev.map(|x| x.to_string()));
        put("ext", self.ext.map(|b| (b as u8).to_string()));
        put("xf", self.xf.clone());
        put("nulls", Some((self.nulls as u8).to_string()));
        put("via", Some(if self.via_mig { "m".to_string() } else { "s".to_string() }));
        s
    }
    /// the update message for a factory kind (only that factory's fields are emitted; cw_serde denies unknown fields).
    /// `sudo` wraps it in `{"update_params": …}`, `migrate` takes it as it is (`Option<Msg>`).
    fn to_json(&self, f: FactoryKind) -> Value {
        let nulls = self.nulls;
        let put = |m: &mut Map<String, Value>, k: &str, v: Option<Value>| match v {
            Some(v) => {
                m.insert(k.into(), v);
            }
            None if nulls => {
                m.insert(k.into(), Value::Null);
            }
            None => {}
        };
        let mut top = Map::new();
        put(&mut top, "code_id", self.code.map(|x| json!(x)));
        put(&mut top, "add_sg721_code_ids", self.add.as_ref().map(|x| json!(x)));
        put(&mut top, "rm_sg721_code_ids", self.rm.as_ref().map(|x| json!(x)));
        put(&mut top, "frozen", self.frozen.map(|x| json!(x)));
        put(&mut top, "creation_fee", self.cfee.map(jcoin));
        if f != FactoryKind::TokenMerge {
            put(&mut top, "min_mint_price", self.minp.map(jcoin));
            put(&mut top, "mint_fee_bps", self.bps.map(|x| json!(x)));
        }
        put(&mut top, "max_trading_offset_secs", self.off.map(|x| json!(x)));
        let mut ext = Map::new();
        let mut has_ext_obj = true;
        match f {
            FactoryKind::Vending | FactoryKind::TokenMerge => {
                put(&mut ext, "max_token_limit", self.mtl.map(|x| json!(x)));
                put(&mut ext, "max_per_address_limit", self.mpal.map(|x| json!(x)));
                put(&mut ext, "airdrop_mint_price", self.adp.map(jcoin));
                put(&mut ext, "airdrop_mint_fee_bps", self.adbps.map(|x| json!(x)));
                put(&mut ext, "shuffle_fee", self.shuf.map(jcoin));
            }
            FactoryKind::OpenEdition => {
                put(&mut ext, "max_token_limit", self.mtl.map(|x| json!(x)));
                put(&mut ext, "max_per_address_limit", self.mpal.map(|x| json!(x)));
                put(&mut ext, "min_mint_price", self.xminp.map(jcoin));
                put(&mut ext, "airdrop_mint_fee_bps", self.adbps.map(|x| json!(x)));
                put(&mut ext, "airdrop_mint_price", self.adp.map(jcoin));
                put(&mut ext, "dev_fee_address", self.dev.map(|x| json!(addr(x))));
            }
            FactoryKind::Base => {
                has_ext_obj = false;
            }
        }
        // a field this file does not know (run-time schema enumeration): a schema-filled value, alone
        if let Some(path) = &self.xf {
            if let Some((place, name)) = path.split_once('.') {
                let v = unknown_update_fields(f).into_iter().find(|(p, _)| p == path).map(|(_, v)| v).unwrap_or(Value::Null);
                if place == "ext" && has_ext_obj {
                    ext.insert(name.to_string(), v);
                } else {
                    top.insert(name.to_string(), v);
                }
            }
        }
        if has_ext_obj {
            top.insert("extension".into(), Value::Object(ext));
        } else if self.ext == Some(true) {
            // `extension: Option<Empty>`: Some(Empty{}) = {}, None = null / absent
            top.insert("extension".into(), json!({}));
        } else if nulls {
            top.insert("extension".into(), Value::Null);
        }
        Value::Object(top)
    }
    /// how many of the named optional fields are supplied
    fn n_supplied(&self) -> usize {
        [self.code.is_some(), self.add.is_some(), self.rm.is_some(), self.frozen.is_some(), self.cfee.is_some(), self.minp.is_some(), self.bps.is_some(), self.off.is_some(), self.mtl.is_some(), self.mpal.is_some(), self.adp.is_some(), self.adbps.is_some(), self.shuf.is_some(), self.xminp.is_some(), self.dev.is_some()]
            .iter()
            .filter(|b| **b)
            .count()
    }
    /// names (as in `fields_of`) of the supplied fields
    fn supplied_names(&self) -> Vec<&'static str> {
        let mut v = vec![];
        let mut p = |c: bool, n: &'static str| {
            if c {
                v.push(n)
            }
        };
        p(self.code.is_some(), "code");
        p(self.add.is_some(), "add");
        p(self.rm.is_some(), "rm");
        p(self.frozen.is_some(), "frozen");
        p(self.cfee.is_some(), "cfee");
        p(self.minp.is_some(), "minp");
        p(self.bps.is_some(), "bps");
        p(self.off.is_some(), "off");
        p(self.mtl.is_some(), "mtl");
        p(self.mpal.is_some(), "mpal");
        p(self.adp.is_some(), "adp");
        p(self.adbps.is_some(), "adbps");
        p(self.shuf.is_some(), "shuf");
        p(self.xminp.is_some(), "xminp");
        p(self.dev.is_some(), "dev");
        v
    }
}

// ------------------------------------------------------------------------------------------------ run-time message surface

fn sudo_schema(f: FactoryKind) -> Value {
    use cosmwasm_schema::schema_for;
    let r = match f {
        FactoryKind::Vending => schema_for!(vending_factory::msg::SudoMsg),
        FactoryKind::OpenEdition => schema_for!(open_edition_factory::msg::SudoMsg),
        FactoryKind::TokenMerge => schema_for!(token_merge_factory::msg::SudoMsg),
        FactoryKind::Base => schema_for!(base_factory::msg::BaseSudoMsg),
    };
    serde_json::to_value(&r).unwrap_or(Value::Null)
}
fn exec_schema(f: FactoryKind) -> Value {
    use cosmwasm_schema::schema_for;
    let r = match f {
        FactoryKind::Vending => schema_for!(vending_factory::msg::ExecuteMsg),
        FactoryKind::OpenEdition => schema_for!(open_edition_factory::msg::ExecuteMsg),
        FactoryKind::TokenMerge => schema_for!(token_merge_factory::msg::ExecuteMsg),
        FactoryKind::Base => schema_for!(base_factory::msg::ExecuteMsg),
    };
    serde_json::to_value(&r).unwrap_or(Value::Null)
}
fn minter_sudo_schema() -> Value {
    serde_json::to_value(&cosmwasm_schema::schema_for!(sg4::SudoMsg)).unwrap_or(Value::Null)
}

/// (variant name in snake case, schema of its payload; None for a unit variant serialised as a bare string)
fn schema_variants(root: &Value) -> Vec<(String, Option<Value>)> {
    let mut out = vec![];
    let mut alts: Vec<Value> = vec![];
    for k in ["oneOf", "anyOf"] {
        if let Some(a) = root[k].as_array() {
            alts.extend(a.iter().cloned());
        }
    }
    if alts.is_empty() {
        alts.push(root.clone());
    }
    for alt in alts {
        if let Some(en) = alt["enum"].as_array() {
            for e in en {
                if let Some(s) = e.as_str() {
                    out.push((s.to_string(), None));
                }
            }
        } else if let Some(req) = alt["required"].as_array() {
            if let Some(name) = req.first().and_then(|x| x.as_str()) {
                out.push((name.to_string(), Some(alt["properties"][name].clone())));
            }
        }
    }
    out.sort_by(|a, b| a.0.cmp(&b.0));
    out.dedup_by(|a, b| a.0 == b.0);
    out
}

/// follow `$ref` / single `allOf` / the non-null branch of an `anyOf`
fn deref<'a>(s: &'a Value, defs: &'a Value, depth: u32) -> &'a Value {
    if depth > 8 {
        return s;
    }
    if let Some(r) = s["$ref"].as_str() {
        let name = r.rsplit('/').next().unwrap_or("");
        return deref(&defs[name], defs, depth + 1);
    }
    if let Some(a) = s["allOf"].as_array() {
        if let Some(f) = a.first() {
            return deref(f, defs, depth + 1);
        }
    }
    if let Some(a) = s["anyOf"].as_array() {
        if let Some(f) = a.iter().find(|x| x["type"] != "null") {
            return deref(f, defs, depth + 1);
        }
    }
    s
}

/// minimal JSON value for a schema: integers = k, coins native, strings = k (or an address when the name looks like one)
fn fill(s: &Value, defs: &Value, k: u64, hint: &str, depth: u32) -> Value {
    if depth > 8 {
        return Value::Null;
    }
    if let Some(r) = s["$ref"].as_str() {
        let name = r.rsplit('/').next().unwrap_or("");
        if name == "Coin" {
            return jcoin((0, k as u128));
        }
        return fill(&defs[name], defs, k, hint, depth + 1);
    }
    if let Some(a) = s["allOf"].as_array() {
        if let Some(f) = a.first() {
            return fill(f, defs, k, hint, depth + 1);
        }
    }
    for key in ["anyOf", "oneOf"] {
        if let Some(a) = s[key].as_array() {
            // an Option<T>: send the T (the point is to SUPPLY the field)
            if let Some(f) = a.iter().find(|x| x["type"] != "null") {
                return fill(f, defs, k, hint, depth + 1);
            }
        }
    }
    if let Some(en) = s["enum"].as_array() {
        return en.first().cloned().unwrap_or(Value::Null);
    }
    let ty: String = match &s["type"] {
        Value::String(t) => t.clone(),
        Value::Array(ts) => ts.iter().filter_map(|t| t.as_str()).find(|t| *t != "null").unwrap_or("").to_string(),
        _ => String::new(),
    };
    match ty.as_str() {
        "integer" | "number" => json!(k),
        "string" => {
            let h = hint.to_lowercase();
            if ["addr", "recipient", "whitelist", "contract", "owner", "sender", "admin"].iter().any(|w| h.contains(w)) {
                json!(addr(ADMIN))
            } else {
                json!(k.to_string())
            }
        }
        "boolean" => json!(k % 2 == 1),
        "array" => json!([]),
        "object" => {
            let mut m = Map::new();
            if let Some(req) = s["required"].as_array() {
                for r in req.iter().filter_map(|x| x.as_str()) {
                    m.insert(r.to_string(), fill(&s["properties"][r], defs, k, r, depth + 1));
                }
            }
            Value::Object(m)
        }
        _ => Value::Null,
    }
}

const KNOWN_TOP_FIELDS: [&str; 9] = ["code_id", "add_sg721_code_ids", "rm_sg721_code_ids", "frozen", "creation_fee", "min_mint_price", "mint_fee_bps", "max_trading_offset_secs", "extension"];
fn known_ext_fields(f: FactoryKind) -> Vec<&'static str> {
    match f {
        FactoryKind::Vending | FactoryKind::TokenMerge => vec!["max_token_limit", "max_per_address_limit", "airdrop_mint_price", "airdrop_mint_fee_bps", "shuffle_fee"],
        FactoryKind::OpenEdition => vec!["max_token_limit", "max_per_address_limit", "min_mint_price", "airdrop_mint_fee_bps", "airdrop_mint_price", "dev_fee_address"],
        FactoryKind::Base => vec![],
    }
}
/// fields of the factory's update message that this file has no name for: (`top.<name>` | `ext.<name>`, schema-filled value)
fn unknown_update_fields(f: FactoryKind) -> Vec<(String, Value)> {
    let root = sudo_schema(f);
    let defs = &root["definitions"];
    let mut out = vec![];
    for (name, payload) in schema_variants(&root) {
        if name != "update_params" {
            continue;
        }
        let Some(p) = payload else { continue };
        let msg = deref(&p, defs, 0);
        if let Some(props) = msg["properties"].as_object() {
            for (k, sch) in props {
                if !KNOWN_TOP_FIELDS.contains(&k.as_str()) {
                    out.push((format!("top.{k}"), fill(sch, defs, 7, k, 0)));
                }
            }
            let ext = deref(&msg["properties"]["extension"], defs, 0);
            if let Some(eprops) = ext["properties"].as_object() {
                let known = known_ext_fields(f);
                for (k, sch) in eprops {
                    if !known.contains(&k.as_str()) {
                        out.push((format!("ext.{k}"), fill(sch, defs, 7, k, 0)));
                    }
                }
            }
        }
    }
    out
}
/// raw message for a variant found in a schema
fn raw_variant_msg(root: &Value, name: &str, k: u64) -> Option<Value> {
    let defs = &root["definitions"];
    schema_variants(root).into_iter().find(|(n, _)| n == name).map(|(n, sch)| match sch {
        None => Value::String(n),
        Some(s) => {
            let mut m = Map::new();
            m.insert(n.clone(), fill(&s, defs, k, &n, 0));
            Value::Object(m)
        }
    })
}

// ------------------------------------------------------------------------------------------------ params JSON -> canonical

fn fk_letter(f: FactoryKind) -> &'static str {
    match f {
        FactoryKind::Vending => "V",
        FactoryKind::OpenEdition => "O",
        FactoryKind::TokenMerge => "T",
        FactoryKind::Base => "B",
    }
}
fn fk_of(s: &str) -> FactoryKind {
    match s {
        "V" => FactoryKind::Vending,
        "O" => FactoryKind::OpenEdition,
        "T" => FactoryKind::TokenMerge,
        _ => FactoryKind::Base,
    }
}

/// flat view of a Params query answer: known fields (name -> canonical value string) + every key this file has no name for
#[derive(Clone, Debug, Default, PartialEq)]
struct Flat {
    m: BTreeMap<&'static str, String>,
    /// keys of the answer that are not in the expected list (a parameter added later): path -> raw JSON
    extra: BTreeMap<String, String>,
}
impl Flat {
    fn get(&self, k: &str) -> Option<&String> {
        self.m.get(k)
    }
    fn ids(&self) -> Vec<u64> {
        parse_ids(self.m.get("ids"))
    }
}
fn parse_ids(s: Option<&String>) -> Vec<u64> {
    s.filter(|x| *x != "-").map(|x| x.split(',').filter_map(|y| y.parse().ok()).collect()).unwrap_or_default()
}

const TOP_KEYS: [&str; 8] = ["code_id", "allowed_sg721_code_ids", "frozen", "creation_fee", "min_mint_price", "mint_fee_bps", "max_trading_offset_secs", "extension"];
const TM_KEYS: [&str; 10] = ["code_id", "allowed_sg721_code_ids", "frozen", "creation_fee", "max_trading_offset_secs", "max_token_limit", "max_per_address_limit", "airdrop_mint_price", "airdrop_mint_fee_bps", "shuffle_fee"];
const V_EXT_KEYS: [&str; 5] = ["max_token_limit", "max_per_address_limit", "airdrop_mint_price", "airdrop_mint_fee_bps", "shuffle_fee"];
const O_EXT_KEYS: [&str; 5] = ["max_token_limit", "max_per_address_limit", "airdrop_mint_price", "airdrop_mint_fee_bps", "dev_fee_address"];

/// a named parameter, wherever the answer keeps it (top level or `extension`): a field moved between the two by a refactoring
/// of the params type is still the same parameter
fn pfind<'a>(p: &'a Value, key: &str) -> &'a Value {
    if !p[key].is_null() {
        &p[key]
    } else {
        &p["extension"][key]
    }
}

fn flat_params(f: FactoryKind, p: &Value) -> Flat {
    let jc = |v: &Value| -> String { format!("{}:{}", denom_id(v["denom"].as_str().unwrap_or("?")), v["amount"].as_str().unwrap_or("?")) };
    let ju = |v: &Value| -> String { v.as_u64().map(|x| x.to_string()).unwrap_or_else(|| format!("?{v}")) };
    let mut m = BTreeMap::new();
    m.insert("code", ju(pfind(p, "code_id")));
    let ids: Vec<u64> = pfind(p, "allowed_sg721_code_ids").as_array().map(|a| a.iter().filter_map(|x| x.as_u64()).collect()).unwrap_or_default();
    m.insert("ids", fmt_list(&ids));
    let fr = pfind(p, "frozen");
    m.insert("frozen", fr.as_bool().map(|b| (b as u8).to_string()).unwrap_or_else(|| format!("?{fr}")));
    m.insert("cfee", jc(pfind(p, "creation_fee")));
    m.insert("off", ju(pfind(p, "max_trading_offset_secs")));
    if f != FactoryKind::TokenMerge {
        m.insert("minp", jc(pfind(p, "min_mint_price")));
        m.insert("bps", ju(pfind(p, "mint_fee_bps")));
    }
    match f {
        FactoryKind::Vending | FactoryKind::TokenMerge => {
            m.insert("mtl", ju(pfind(p, "max_token_limit")));
            m.insert("mpal", ju(pfind(p, "max_per_address_limit")));
            m.insert("adp", jc(pfind(p, "airdrop_mint_price")));
            m.insert("adbps", ju(pfind(p, "airdrop_mint_fee_bps")));
            m.insert("shuf", jc(pfind(p, "shuffle_fee")));
        }
        FactoryKind::OpenEdition => {
            m.insert("mtl", ju(pfind(p, "max_token_limit")));
            m.insert("mpal", ju(pfind(p, "max_per_address_limit")));
            m.insert("adp", jc(pfind(p, "airdrop_mint_price")));
            m.insert("adbps", ju(pfind(p, "airdrop_mint_fee_bps")));
            m.insert("dev", addr_id(pfind(p, "dev_fee_address").as_str().unwrap_or("?")).to_string());
        }
        FactoryKind::Base => {
            m.insert("ext", (!p["extension"].is_null() as u8).to_string());
        }
    }
    // exhaustive surface: every key of the answer (top level or extension) that is not a parameter this file knows is kept
    // (raw) so that the frame conditions ("omitted fields unchanged", "nothing but governance writes the params") cover it too
    let mut extra = BTreeMap::new();
    let ext_keys: &[&str] = match f {
        FactoryKind::Vending => &V_EXT_KEYS,
        FactoryKind::OpenEdition => &O_EXT_KEYS,
        _ => &[],
    };
    let known = |k: &str| if f == FactoryKind::TokenMerge { TM_KEYS.contains(&k) } else { TOP_KEYS.contains(&k) || ext_keys.contains(&k) };
    if let Some(o) = p.as_object() {
        for (k, v) in o {
            if !known(k) {
                extra.insert(k.clone(), v.to_string());
            }
        }
    }
    if let Some(o) = p["extension"].as_object() {
        for (k, v) in o {
            if !known(k) {
                extra.insert(format!("extension.{k}"), v.to_string());
            }
        }
    }
    Flat { m, extra }
}
const ORDER: [&str; 15] = ["code", "ids", "frozen", "cfee", "minp", "bps", "off", "mtl", "mpal", "adp", "adbps", "shuf", "dev", "ext", "-"];
fn render_flat(fl: &Flat) -> String {
    ORDER.iter().filter_map(|k| fl.m.get(k).map(|v| format!("{k}={v}"))).collect::<Vec<_>>().join(" ")
}
fn render_extra(fl: &Flat) -> String {
    fl.extra.iter().map(|(k, v)| format!("{k}={}", v.replace(' ', ""))).collect::<Vec<_>>().join(" ")
}

/// the scalar (non-list) parameters a factory's stored params have
fn scalar_names(f: FactoryKind) -> Vec<&'static str> {
    match f {
        FactoryKind::Vending => vec!["code", "frozen", "cfee", "minp", "bps", "off", "mtl", "mpal", "adp", "adbps", "shuf"],
        FactoryKind::OpenEdition => vec!["code", "frozen", "cfee", "minp", "bps", "off", "mtl", "mpal", "adp", "adbps", "dev"],
        FactoryKind::TokenMerge => vec!["code", "frozen", "cfee", "off", "mtl", "mpal", "adp", "adbps", "shuf"],
        FactoryKind::Base => vec!["code", "frozen", "cfee", "minp", "bps", "off", "ext"],
    }
}

// ------------------------------------------------------------------------------------------------ the ghost

/// What the params MUST be, from facts the harness knows independently of the code under test: the params it instantiated
/// the factory with, and the supplied fields of every update the factory accepted since (code ids as a set).
#[derive(Clone, Debug, Default)]
struct Ghost {
    m: BTreeMap<&'static str, String>,
    ids: BTreeSet<u64>,
}
impl Ghost {
    fn from_header(f: FactoryKind, h: &str) -> Ghost {
        let mut m = BTreeMap::new();
        for n in scalar_names(f) {
            m.insert(n, kv(h, n).unwrap_or("?").to_string());
        }
        Ghost { m, ids: kv_ids(h, "ids").unwrap_or_default().into_iter().collect() }
    }
    /// the expected params after an ACCEPTED update: precisely the supplied fields replaced, (ids ∪ add) \ rm
    fn apply(&mut self, f: FactoryKind, u: &Upd) {
        let has = |n: &str| scalar_names(f).contains(&n);
        let mut set = |n: &'static str, v: Option<String>| {
            if let Some(v) = v {
                if has(n) {
                    self.m.insert(n, v);
                }
            }
        };
        set("code", u.code.map(|x| x.to_string()));
        set("frozen", u.frozen.map(|b| (b as u8).to_string()));
        set("cfee", u.cfee.map(fmt_coin));
        set("minp", u.minp.map(fmt_coin));
        set("bps", u.bps.map(|x| x.to_string()));
        set("off", u.off.map(|x| x.to_string()));
        set("mtl", u.mtl.map(|x| x.to_string()));
        set("mpal", u.mpal.map(|x| x.to_string()));
        set("adp", u.adp.map(fmt_coin));
        set("adbps", u.adbps.map(|x| x.to_string()));
        set("shuf", u.shuf.map(fmt_coin));
        set("dev", u.dev.map(|x| x.to_string()));
        // (`xminp`, the base factory's unit `ext` and unknown fields replace nothing: the stored params have no such field)
        for a in u.add.clone().unwrap_or_default() {
            self.ids.insert(a);
        }
        for r in u.rm.clone().unwrap_or_default() {
            self.ids.remove(&r);
        }
    }
    fn get(&self, k: &str) -> Option<&String> {
        self.m.get(k)
    }
    fn u64(&self, k: &str) -> u64 {
        self.m.get(k).and_then(|s| s.parse().ok()).unwrap_or(0)
    }
    fn coin(&self, k: &str) -> (u64, u128) {
        coin_of_s(self.m.get(k))
    }
    /// first difference between a Params answer and the ghost
    fn diff(&self, f: FactoryKind, q: &Flat) -> Option<String> {
        for n in scalar_names(f) {
            if q.m.get(n) != self.m.get(n) {
                return Some(format!("{n}: Params query has {:?}, submitted so far {:?}", q.m.get(n), self.m.get(n)));
            }
        }
        let got: BTreeSet<u64> = q.ids().into_iter().collect();
        if got != self.ids {
            return Some(format!("allowed ids: Params query has {:?}, submitted so far {:?}", got, self.ids));
        }
        None
    }
}

fn coin_of_s(s: Option<&String>) -> (u64, u128) {
    s.and_then(|s| s.split_once(':')).and_then(|(d, a)| Some((d.parse().ok()?, a.parse().ok()?))).unwrap_or((0, 0))
}

// ------------------------------------------------------------------------------------------------ the system under test

/// a minter created by the harness: the address, plus GHOST facts (what the harness sent when it created / updated it)
struct MinterH {
    addr: String,
    kind: MinterKind,
    /// `start_time` sent in the creation
    start: u64,
    /// the price a mint must pay: the price sent in the creation / in the last accepted `UpdateMintPrice`; base minter: the
    /// factory minimum price (ghost) at the moment of creation
    price: (u64, u128),
    /// flags of the last accepted `UpdateStatus` (all false after creation)
    status: (bool, bool, bool),
}

/// who received what in one money-moving operation (all deltas saturating: never panics on unexpected balances)
#[derive(Clone, Debug, Default)]
struct Money {
    devs: Vec<(u64, u128)>,
    liq: u128,
    lp: u128,
    seller: u128,
    burn: u128,
    pool: u128,
}
impl Money {
    fn dev_total(&self) -> u128 {
        self.devs.iter().fold(0u128, |a, d| a.saturating_add(d.1))
    }
    /// everything that did not go to the seller
    fn fee(&self) -> u128 {
        self.dev_total().saturating_add(self.liq).saturating_add(self.lp).saturating_add(self.burn).saturating_add(self.pool)
    }
    fn render(&self) -> String {
        format!("ok fee={} seller={} ## dev={} liq={} lp={} burn={} pool={}", self.fee(), self.seller, fmt_pairs(&self.devs), self.liq, self.lp, self.burn, self.pool)
    }
}

struct Snap {
    devs: Vec<u128>,
    liq: u128,
    lp: u128,
    admin: u128,
    total: u128,
    pool: u128,
}

struct S {
    w: World,
    f: FactoryKind,
    factory: String,
    minters: BTreeMap<u64, MinterH>,
    tm_source: Option<String>,
    log: Vec<String>,
    rebuilding: bool,
    /// monitor finding produced by the last op
    finding: Option<(String, String)>,
    panics: u64,
    cur_sender: Option<u64>,
    ghost: Ghost,
    /// the factory could not be instantiated (every op answers `no-factory`)
    dead: bool,
    /// unknown keys seen in a Params answer (noted once by `main`)
    seen_extra: BTreeSet<String>,
    rebased: u64,
}

fn header_params(h: &str) -> FactoryParams {
    FactoryParams {
        code_id: kv_u64(h, "code").unwrap_or(0),
        allowed_sg721_code_ids: kv_ids(h, "ids").unwrap_or_default(),
        frozen: kv_bool(h, "frozen").unwrap_or(false),
        creation_fee: kv_coin(h, "cfee").unwrap_or((0, 0)),
        min_mint_price: kv_coin(h, "minp").unwrap_or((0, 0)),
        mint_fee_bps: kv_u64(h, "bps").unwrap_or(0),
        max_trading_offset_secs: kv_u64(h, "off").unwrap_or(0),
        max_token_limit: kv_u64(h, "mtl").unwrap_or(0) as u32,
        max_per_address_limit: kv_u64(h, "mpal").unwrap_or(0) as u32,
        airdrop_mint_price: kv_coin(h, "adp").unwrap_or((0, 0)),
        airdrop_mint_fee_bps: kv_u64(h, "adbps").unwrap_or(0),
        shuffle_fee: kv_coin(h, "shuf").unwrap_or((0, 0)),
        dev_fee_address: kv_u64(h, "dev").unwrap_or(60),
    }
}
fn params_header(f: FactoryKind, codes: &Codes, p: &FactoryParams, ext: bool) -> String {
    let colls = [codes.sg721_base, codes.sg721_updatable];
    format!(
        "case f={} codes={} colls={} code={} ids={} frozen={} cfee={} minp={} bps={} off={} mtl={} mpal={} adp={} adbps={} shuf={} dev={} ext={}",
        fk_letter(f), fmt_list(&codes.minters), fmt_list(&colls), p.code_id, fmt_list(&p.allowed_sg721_code_ids), p.frozen as u8,
        fmt_coin(p.creation_fee), fmt_coin(p.min_mint_price), p.mint_fee_bps, p.max_trading_offset_secs, p.max_token_limit,
        p.max_per_address_limit, fmt_coin(p.airdrop_mint_price), p.airdrop_mint_fee_bps, fmt_coin(p.shuffle_fee), p.dev_fee_address, ext as u8
    )
}

fn funds_of(line: &str) -> Vec<(u64, u128)> {
    kv_pairs(line, "funds").unwrap_or_default().into_iter().map(|(d, a)| (d as u64, a)).collect()
}
fn paid_total(funds: &[(u64, u128)]) -> u128 {
    funds.iter().fold(0u128, |a, c| a.saturating_add(c.1))
}
fn wl_kind(k: MinterKind) -> WlKind {
    if k.is_flex() {
        WlKind::Flex
    } else if k.is_merkle() {
        WlKind::Merkle
    } else {
        WlKind::Plain
    }
}
fn money_out<T>(line: &str, r: Result<T, String>, money: Option<Money>) -> (String, String, bool) {
    match (r, money) {
        (Ok(_), Some(m)) => (line.to_string(), m.render(), false),
        (Err(e), _) => {
            dbg_err(line, &e);
            (line.to_string(), "err".into(), e.starts_with("panic"))
        }
        (Ok(_), None) => (line.to_string(), "err".into(), false),
    }
}
fn outcome<T>(line: &str, r: Result<T, String>) -> (String, bool) {
    match r {
        Ok(_) => ("ok".into(), false),
        Err(e) => {
            dbg_err(line, &e);
            ("err".into(), e.starts_with("panic"))
        }
    }
}

impl S {
    fn new() -> S {
        S {
            w: World::new(T0),
            f: FactoryKind::Base,
            factory: String::new(),
            minters: BTreeMap::new(),
            tm_source: None,
            log: vec![],
            rebuilding: false,
            finding: None,
            panics: 0,
            cur_sender: None,
            ghost: Ghost::default(),
            dead: false,
            seen_extra: BTreeSet::new(),
            rebased: 0,
        }
    }
    /// record a monitor finding (the first one of an op wins; none while the world is being rebuilt)
    fn report(&mut self, key: String, what: String) {
        if !self.rebuilding && self.finding.is_none() {
            self.finding = Some((key, what));
        }
    }
    fn params_json(&self) -> Value {
        self.w.query(&self.factory, &json!({"params":{}})).map(|v| v["params"].clone()).unwrap_or(Value::Null)
    }
    fn flat(&self) -> Flat {
        flat_params(self.f, &self.params_json())
    }
    fn kind_by_code(&self, a: &str) -> Option<MinterKind> {
        let code = self.w.app.contract_data(&cosmwasm_std::Addr::unchecked(a)).ok()?.code_id;
        self.w.codes.minters.iter().position(|c| *c == code).map(MinterKind::from_idx)
    }
    fn any_kind(&self) -> MinterKind {
        match self.f {
            FactoryKind::Vending => MinterKind::Vending,
            FactoryKind::OpenEdition => MinterKind::OpenEdition,
            FactoryKind::TokenMerge => MinterKind::TokenMerge,
            FactoryKind::Base => MinterKind::Base,
        }
    }
    fn start(&mut self, header: &str) {
        self.w = World::new(kv_u64(header, "t0").unwrap_or(T0));
        self.f = fk_of(kv(header, "f").unwrap_or("B"));
        self.minters.clear();
        self.tm_source = None;
        self.dead = false;
        for d in 0..3 {
            self.w.fund(&addr(ADMIN), d, 1u128 << 110);
        }
        if self.f == FactoryKind::TokenMerge {
            let pb = self.w.default_params(MinterKind::Base);
            let ab = self.w.default_create(MinterKind::Base, &pb);
            let src = self.w.new_factory(FactoryKind::Base, &pb).and_then(|fb| self.w.create_minter(&fb, MinterKind::Base, &ab));
            self.tm_source = src.ok().map(|(_m, c)| c);
        }
        let p = header_params(header);
        let mut j = p.to_json(self.f);
        if self.f == FactoryKind::Base && kv_bool(header, "ext") == Some(true) {
            j["extension"] = json!({});
        }
        let code = self.w.factory_code(self.f);
        // the governance account is the wasm admin, so that the `migrate` path can be exercised
        match self.w.instantiate(code, &addr(GOV), &json!({ "params": j }), &[], Some(&addr(GOV))) {
            Ok(a) => self.factory = a,
            Err(e) => {
                dbg_err(header, &e);
                self.factory = String::new();
                self.dead = true;
            }
        }
        self.ghost = Ghost::from_header(self.f, header);
        if !self.dead {
            // the ghost starts from what was submitted; should `instantiate` ever normalise a value, re-base on the answer
            // (noted in the evidence) instead of raising an alarm that is not about an update
            let q = self.flat();
            if self.ghost.diff(self.f, &q).is_some() {
                self.rebased += 1;
                for n in scalar_names(self.f) {
                    if let Some(v) = q.m.get(n) {
                        self.ghost.m.insert(n, v.clone());
                    }
                }
                self.ghost.ids = q.ids().into_iter().collect();
            }
        }
    }

    fn snapshot(&self, d: u64) -> Snap {
        Snap {
            devs: DEV_IDS.map(|i| self.w.balance(&addr(i), d)).collect(),
            liq: self.w.balance(&addr(ID_LIQUIDITY_DAO), d),
            lp: self.w.balance(&addr(ID_LAUNCHPAD_DAO), d),
            admin: self.w.balance(&addr(ADMIN), d),
            total: self.total(d),
            pool: self.w.balance(&addr(ID_FAIRBURN_POOL), d),
        }
    }
    /// sum of the balances of every account an operation of this harness can touch (cw-multi-test 1.2 has no Supply
    /// query): a decrease = coins burned
    fn total(&self, d: u64) -> u128 {
        let mut accts: BTreeSet<String> = BTreeSet::new();
        for i in [ADMIN, 1, ID_LAUNCHPAD_DAO, ID_LIQUIDITY_DAO, ID_FAIRBURN_POOL, 30, GOV] {
            accts.insert(addr(i));
        }
        for i in DEV_IDS {
            accts.insert(addr(i));
        }
        accts.insert(self.factory.clone());
        for m in self.minters.values() {
            accts.insert(m.addr.clone());
        }
        if let Some(b) = self.cur_sender {
            accts.insert(addr(b));
        }
        accts.iter().fold(0u128, |a, x| a.saturating_add(self.w.balance(x, d)))
    }

    /// run a money-moving call and observe who received what (in the denom of the attached funds)
    fn money_run<R>(&mut self, sender: u64, funds: &[(u64, u128)], call: impl FnOnce(&mut World) -> Result<R, String>) -> (Result<R, String>, Option<Money>) {
        let d = funds.first().map(|c| c.0).unwrap_or(0);
        self.cur_sender = Some(sender);
        if sender != ADMIN {
            for (fd, fa) in funds {
                self.w.fund(&addr(sender), *fd, *fa);
            }
        }
        let before = self.snapshot(d);
        let r = call(&mut self.w);
        if r.is_err() {
            return (r, None);
        }
        let after = self.snapshot(d);
        let paid_by_admin: u128 = if sender == ADMIN { funds.iter().filter(|c| c.0 == d).fold(0u128, |a, c| a.saturating_add(c.1)) } else { 0 };
        let devs: Vec<(u64, u128)> = DEV_IDS.zip(after.devs.iter().zip(before.devs.iter())).filter(|(_, (a, b))| a > b).map(|(i, (a, b))| (i, a - b)).collect();
        let m = Money {
            devs,
            liq: after.liq.saturating_sub(before.liq),
            lp: after.lp.saturating_sub(before.lp),
            seller: after.admin.saturating_add(paid_by_admin).saturating_sub(before.admin),
            burn: before.total.saturating_sub(after.total),
            pool: after.pool.saturating_sub(before.pool),
        };
        (r, Some(m))
    }

    /// `line` → (line for the model, canonical output, did the contract panic)
    fn exec_inner(&mut self, line: &str) -> (String, String, bool) {
        let op = line.split_whitespace().next().unwrap_or("");
        if self.dead {
            return (line.to_string(), "no-factory".into(), false);
        }
        if let Some(now) = kv_u64(line, "now") {
            if now != self.w.time() {
                self.w.set_time(now);
            }
        }
        let plain = |x: (String, bool)| (line.to_string(), x.0, x.1);
        let slot = kv_u64(line, "m");
        let minter = slot.and_then(|s| self.minters.get(&s)).map(|m| (m.addr.clone(), m.kind));
        let need_minter = matches!(op, "mint" | "airdrop" | "pal" | "shuffle" | "ustt" | "price" | "status" | "qs" | "qm" | "setwl");
        if need_minter && minter.is_none() {
            return (line.to_string(), "err".into(), false);
        }
        let fl = fk_letter(self.f);
        match op {
            "upd" => {
                let u = Upd::parse(line);
                let before = self.flat();
                let msg = u.to_json(self.f);
                let factory = self.factory.clone();
                let r = if u.via_mig {
                    let code = self.w.factory_code(self.f);
                    self.w.migrate(&addr(GOV), &factory, code, &msg)
                } else {
                    self.w.sudo(&factory, &json!({ "update_params": msg }))
                };
                let after = self.flat();
                let ok = r.is_ok();
                let ghost_before = self.ghost.clone();
                if ok {
                    self.ghost.apply(self.f, &u);
                }
                if let Some((k, w)) = monitor_upd(self.f, &u, &ghost_before, &self.ghost, &before, &after, ok, line) {
                    self.report(k, w);
                }
                let (out, p) = outcome(line, r);
                (format!("{line} acc={}", ok as u8), out, p)
            }
            "mignone" => {
                let code = self.w.factory_code(self.f);
                let factory = self.factory.clone();
                let r = self.w.migrate(&addr(GOV), &factory, code, &Value::Null);
                plain(outcome(line, r))
            }
            "qp" => {
                let q = self.flat();
                for k in q.extra.keys() {
                    self.seen_extra.insert(format!("{fl}:{k}"));
                }
                let x = render_extra(&q);
                (line.to_string(), if x.is_empty() { format!("params {}", render_flat(&q)) } else { format!("params {} ## extra {x}", render_flat(&q)) }, false)
            }
            "qids" => {
                let v = self.w.query(&self.factory, &json!({"allowed_collection_code_ids":{}})).unwrap_or(Value::Null);
                let ids: Vec<u64> = v["code_ids"].as_array().map(|a| a.iter().filter_map(|x| x.as_u64()).collect()).unwrap_or_default();
                let flat = self.flat();
                let set: BTreeSet<u64> = ids.iter().copied().collect();
                if set != self.ghost.ids {
                    let what = format!("AllowedCollectionCodeIds={:?} but the ids submitted so far give the set {:?}", ids, self.ghost.ids);
                    self.report(format!("{fl}-factory/qids/not-the-submitted-set"), what);
                } else if flat.get("ids") != Some(&fmt_list(&ids)) {
                    let what = format!("AllowedCollectionCodeIds={:?} but Params has ids={:?}", ids, flat.get("ids"));
                    self.report(format!("{fl}-factory/qids/differs-from-params"), what);
                }
                (line.to_string(), format!("list ids={}", fmt_list(&ids)), false)
            }
            "qid" => {
                let x = kv_u64(line, "x").unwrap_or(0);
                let v = self.w.query(&self.factory, &json!({"allowed_collection_code_id": x})).unwrap_or(Value::Null);
                let allowed = v["allowed"].as_bool().unwrap_or(false);
                let in_params = self.flat().ids().contains(&x);
                if allowed != self.ghost.ids.contains(&x) {
                    let what = format!("AllowedCollectionCodeId({x})={allowed} but by the ids submitted so far it is {}", !allowed);
                    self.report(format!("{fl}-factory/qid/not-the-submitted-set"), what);
                } else if allowed != in_params {
                    let what = format!("AllowedCollectionCodeId({x})={allowed} but membership in Params list is {in_params}");
                    self.report(format!("{fl}-factory/qid/differs-from-params"), what);
                }
                (line.to_string(), format!("allowed={}", allowed as u8), false)
            }
            "create" => {
                let p0 = self.w.default_params(self.any_kind());
                let mut a = self.w.default_create(self.any_kind(), &p0);
                a.creator = ADMIN;
                a.sg721_code_id = kv_u64(line, "sg721").unwrap_or(0);
                a.num_tokens = kv_opt_u64(line, "num").unwrap_or(None).map(|x| x.min(u32::MAX as u64) as u32);
                a.per_address_limit = kv_u64(line, "pal").unwrap_or(0).min(u32::MAX as u64) as u32;
                a.mint_price = kv_coin(line, "price").unwrap_or((0, 0));
                a.funds = funds_of(line);
                a.start_time = kv_u64(line, "start").unwrap_or(0);
                a.end_time = if self.f == FactoryKind::OpenEdition { Some(a.start_time.saturating_add(3650 * DAY)) } else { None };
                a.start_trading_time = kv_opt_u64(line, "stt").unwrap_or(None);
                if let Some(c) = &self.tm_source {
                    a.mint_tokens = vec![(c.clone(), 1)];
                }
                let factory = self.factory.clone();
                let kind0 = self.any_kind();
                let funds = a.funds.clone();
                let (r, money) = self.money_run(ADMIN, &funds, |w| w.create_minter(&factory, kind0, &a));
                match (r, money) {
                    (Ok((m, _c)), Some(money)) => {
                        let kind = self.kind_by_code(&m).unwrap_or(kind0);
                        let price = if kind == MinterKind::Base { self.ghost.coin("minp") } else { a.mint_price };
                        if let Some(s) = slot {
                            self.minters.insert(s, MinterH { addr: m, kind, start: a.start_time, price, status: (false, false, false) });
                        }
                        if let Some((k, w)) = monitor_create(self.f, &self.ghost, line) {
                            self.report(k, w);
                        }
                        (line.to_string(), money.render(), false)
                    }
                    (Err(e), _) => {
                        dbg_err(line, &e);
                        (line.to_string(), "err".into(), e.starts_with("panic"))
                    }
                    _ => (line.to_string(), "err".into(), false),
                }
            }
            "mint" => {
                let (maddr, kind) = minter.unwrap_or_default_pair();
                let funds = funds_of(line);
                let gprice = slot.and_then(|s| self.minters.get(&s)).map(|m| m.price).unwrap_or((0, 0));
                let (sender, msg) = if kind == MinterKind::Base {
                    (ADMIN, json!({"mint":{"token_uri":"ipfs://bafybeigi3bwpvyvsmnbj46ra4hyffcxdeaj6ntfk5jpic5mx27x6ih2qvq/1.json"}}))
                } else if kind.is_merkle() {
                    (kv_u64(line, "buyer").unwrap_or(100), json!({"mint":{"proof_hashes": null, "stage": null, "allocation": null}}))
                } else {
                    (kv_u64(line, "buyer").unwrap_or(100), json!({"mint":{}}))
                };
                let (r, money) = self.money_run(sender, &funds, |w| w.exec(&addr(sender), &maddr, &msg, &funds));
                if let Some(m) = &money {
                    if let Some((k, w)) = monitor_mint(self.f, kind, &self.ghost, gprice, &funds, m, line) {
                        self.report(k, w);
                    }
                }
                money_out(line, r, money)
            }
            "airdrop" => {
                let (maddr, kind) = minter.unwrap_or_default_pair();
                let funds = funds_of(line);
                let msg = json!({"mint_to":{"recipient": addr(30)}});
                let (r, money) = self.money_run(ADMIN, &funds, |w| w.exec(&addr(ADMIN), &maddr, &msg, &funds));
                if let Some(m) = &money {
                    if let Some((k, w)) = monitor_airdrop(self.f, kind, &self.ghost, &funds, m, line) {
                        self.report(k, w);
                    }
                }
                money_out(line, r, money)
            }
            "shuffle" => {
                let (maddr, _) = minter.unwrap_or_default_pair();
                let funds = funds_of(line);
                let sender = kv_u64(line, "buyer").unwrap_or(100);
                let msg = json!({"shuffle":{}});
                let (r, money) = self.money_run(sender, &funds, |w| w.exec(&addr(sender), &maddr, &msg, &funds));
                if money.is_some() {
                    let fee = self.ghost.coin("shuf").1;
                    let paid = paid_total(&funds);
                    if paid < fee {
                        self.report(format!("{fl}-minter/shuffle/stale-shuffle-fee"), format!("shuffle accepted with {paid} < current shuffle fee {fee} on `{line}`"));
                    }
                }
                money_out(line, r, money)
            }
            "pal" => {
                let (maddr, _) = minter.unwrap_or_default_pair();
                let limit = kv_u64(line, "limit").unwrap_or(0);
                let r = self.w.exec(&addr(ADMIN), &maddr, &json!({"update_per_address_limit":{"per_address_limit": limit}}), &[]);
                if r.is_ok() {
                    let max = self.ghost.u64("mpal");
                    if limit > max {
                        self.report(format!("{fl}-minter/pal/stale-max-per-address-limit"), format!("UpdatePerAddressLimit({limit}) accepted although the factory's current max_per_address_limit is {max}"));
                    }
                }
                plain(outcome(line, r))
            }
            "ustt" => {
                let (maddr, kind) = minter.unwrap_or_default_pair();
                let t = kv_opt_u64(line, "t").unwrap_or(None);
                let r = self.w.exec(&addr(ADMIN), &maddr, &json!({"update_start_trading_time": jopt_time(t)}), &[]);
                if let (true, Some(t), true) = (r.is_ok(), t, kind != MinterKind::Base) {
                    // "Subsequent … observe the new parameters": the bound is the minter's start + the CURRENT offset
                    let start = slot.and_then(|s| self.minters.get(&s)).map(|m| m.start).unwrap_or(0);
                    let off = self.ghost.u64("off");
                    let bound = (start as u128).saturating_add((off as u128).saturating_mul(SEC as u128));
                    if (t as u128) > bound {
                        self.report(format!("{fl}-minter/ustt/stale-trading-offset"), format!("UpdateStartTradingTime({t}) accepted although start {start} + current max_trading_offset_secs {off} = {bound}"));
                    }
                }
                plain(outcome(line, r))
            }
            "price" => {
                let (maddr, _) = minter.unwrap_or_default_pair();
                let p = kv_u128(line, "p").unwrap_or(0);
                let r = self.w.exec(&addr(ADMIN), &maddr, &json!({"update_mint_price":{"price": p.to_string()}}), &[]);
                if r.is_ok() {
                    let min = self.ghost.coin("minp").1;
                    if p < min {
                        self.report(format!("{fl}-minter/price/stale-min-mint-price"), format!("UpdateMintPrice({p}) accepted below the factory's current min_mint_price {min}"));
                    }
                    if let Some(m) = slot.and_then(|s| self.minters.get_mut(&s)) {
                        m.price.1 = p;
                    }
                }
                plain(outcome(line, r))
            }
            "setwl" => {
                let (maddr, kind) = minter.unwrap_or_default_pair();
                let wlp = kv_coin(line, "wlp").unwrap_or((0, 0));
                let now = self.w.time();
                let st = WlStage {
                    start: now.saturating_add(10 * SEC),
                    end: now.saturating_add(20 * SEC),
                    mint_price: wlp,
                    per_address_limit: 1,
                    mint_count_limit: None,
                    members: vec![(20, 1), (21, 1)],
                    merkle_root: "ab".repeat(32),
                };
                let a = WlArgs { admin: ADMIN, member_limit: 10, admins_mutable: true, whale_cap: None, stages: vec![st] };
                let r = match self.w.new_whitelist(wl_kind(kind), &a) {
                    Ok(wl) => self.w.exec(&addr(ADMIN), &maddr, &json!({"set_whitelist":{"whitelist": wl}}), &[]),
                    Err(e) => Err(format!("whitelist not created: {e}")),
                };
                if r.is_ok() {
                    let min = self.ghost.coin("minp");
                    if wlp.1 < min.1 || wlp.0 != min.0 {
                        self.report(format!("{fl}-minter/setwl/stale-min-mint-price"), format!("SetWhitelist accepted a whitelist priced {:?} although the factory's current min_mint_price is {:?}", wlp, min));
                    }
                }
                plain(outcome(line, r))
            }
            "status" => {
                let (maddr, kind) = minter.unwrap_or_default_pair();
                let (v, b, e) = (kv_bool(line, "v").unwrap_or(false), kv_bool(line, "b").unwrap_or(false), kv_bool(line, "e").unwrap_or(false));
                let r = self.w.sudo(&maddr, &json!({"update_status":{"is_verified": v, "is_blocked": b, "is_explicit": e}}));
                if r.is_ok() {
                    if let Some(m) = slot.and_then(|s| self.minters.get_mut(&s)) {
                        m.status = (v, b, e);
                    }
                    let got = self.status(&maddr);
                    if got != Some((v, b, e)) {
                        self.report(format!("{}/status/not-supplied-flags", kind.name()), format!("UpdateStatus({v},{b},{e}) accepted but Status returns {:?}", got));
                    }
                }
                plain(outcome(line, r))
            }
            "qs" => {
                let (maddr, kind) = minter.unwrap_or_default_pair();
                let want = slot.and_then(|s| self.minters.get(&s)).map(|m| m.status);
                match self.status(&maddr) {
                    Some((v, b, e)) => {
                        if want.is_some() && want != Some((v, b, e)) {
                            self.report(format!("{}/status/not-the-last-supplied-flags", kind.name()), format!("Status returns ({v},{b},{e}) but the last accepted UpdateStatus (or the creation) set {:?}", want));
                        }
                        (line.to_string(), format!("status v={} b={} e={}", v as u8, b as u8, e as u8), false)
                    }
                    None => (line.to_string(), "err".into(), false),
                }
            }
            "qm" => {
                let (maddr, kind) = minter.unwrap_or_default_pair();
                let price = self.minter_price(&maddr, kind);
                let (mintable, pal) = if kind == MinterKind::Base {
                    (None, 0u64)
                } else {
                    let c = self.w.query(&maddr, &json!({"config":{}})).unwrap_or(Value::Null);
                    let n = self.w.query(&maddr, &json!({"mintable_num_tokens":{}})).unwrap_or(Value::Null);
                    (n["count"].as_u64(), c["per_address_limit"].as_u64().unwrap_or(0))
                };
                (line.to_string(), format!("minter kind={} price={} pal={} ## mintable={}", kind.idx(), fmt_coin(price), pal, fmt_opt(&mintable)), false)
            }
            "xexec" => {
                // an ExecuteMsg variant of the factory this file has no op for: raw JSON from the schema, by anybody
                let name = kv(line, "v").unwrap_or("");
                let msg = raw_variant_msg(&exec_schema(self.f), name, 1).unwrap_or(Value::Null);
                let factory = self.factory.clone();
                let r = self.w.exec(&addr(66), &factory, &msg, &[]);
                let (o, p) = outcome(line, r);
                (line.to_string(), format!("noise ## {o}"), p)
            }
            _ => (line.to_string(), "bad-op".into(), false),
        }
    }
    fn status(&self, m: &str) -> Option<(bool, bool, bool)> {
        let v = self.w.query(m, &json!({"status":{}})).ok()?;
        let s = &v["status"];
        Some((s["is_verified"].as_bool()?, s["is_blocked"].as_bool()?, s["is_explicit"].as_bool()?))
    }
    /// CONFIG.mint_price of a minter as the contract reports it (token-merge has none: 0:0)
    fn minter_price(&self, m: &str, kind: MinterKind) -> (u64, u128) {
        let c = self.w.query(m, &json!({"config":{}})).unwrap_or(Value::Null);
        let mp = if kind == MinterKind::Base { &c["config"]["mint_price"] } else { &c["mint_price"] };
        if kind == MinterKind::TokenMerge || mp.is_null() {
            return (0, 0);
        }
        (denom_id(mp["denom"].as_str().unwrap_or("?")), mp["amount"].as_str().and_then(|x| x.parse().ok()).unwrap_or(0))
    }
}

trait PairOr {
    fn unwrap_or_default_pair(self) -> (String, MinterKind);
}
impl PairOr for Option<(String, MinterKind)> {
    fn unwrap_or_default_pair(self) -> (String, MinterKind) {
        self.unwrap_or_else(|| ("contract999999".to_string(), MinterKind::Vending))
    }
}

impl Sut for S {
    fn begin(&mut self, header: &str) -> (String, String) {
        self.log = vec![header.to_string()];
        self.finding = None;
        self.start(header);
        (header.to_string(), if self.dead { "no-factory".to_string() } else { "case".to_string() })
    }
    fn exec(&mut self, line: &str) -> (String, String) {
        self.finding = None;
        let (model_line, out, panicked) = self.exec_inner(line);
        if panicked {
            // a panic may leave the App half-written: rebuild the world from the op log (the failed op is a no-op)
            self.panics += 1;
            self.rebuilding = true;
            let log = self.log.clone();
            self.start(&log[0]);
            for l in &log[1..] {
                let _ = self.exec_inner(l);
            }
            self.rebuilding = false;
        } else {
            self.log.push(line.to_string());
        }
        // Frame ("nothing but a governance update writes the params"): after every operation that is not an update the
        // Params answer is still what governance submitted so far (an update is judged by `monitor_upd`).
        let op = line.split_whitespace().next().unwrap_or("");
        if !self.dead && !matches!(op, "upd" | "qp" | "qids" | "qid" | "qs" | "qm") && self.finding.is_none() {
            let q = self.flat();
            if let Some(d) = self.ghost.diff(self.f, &q) {
                self.report(format!("{}-factory/{op}/params-changed-without-governance-update", fk_letter(self.f)), format!("after `{line}` — {d}"));
            }
        }
        (model_line, out)
    }
    fn monitor(&mut self) -> Option<(String, String)> {
        self.finding.take()
    }
}

fn dbg_err(line: &str, e: &str) {
    if std::env::var("C18_DEBUG").is_ok() {
        eprintln!("ERR on `{line}`: {e}");
    }
}

// ------------------------------------------------------------------------------------------------ monitors (property transcription)

/// "the parameters query returns the previous parameters with precisely the supplied fields replaced (code-id additions
/// and removals applied as set operations, additions before removals), omitted fields unchanged, and an update that
/// would move the minimum mint price to a non-native denom is refused".
/// `gb` / `ga`: the ghost before / after (= what governance submitted so far: instantiation values, then the supplied
/// fields of accepted updates). `before` / `after`: the factory's own Params answers.
fn monitor_upd(f: FactoryKind, u: &Upd, gb: &Ghost, ga: &Ghost, before: &Flat, after: &Flat, ok: bool, line: &str) -> Option<(String, String)> {
    let key = |p: &str| format!("{}-factory/{}/{p}", fk_letter(f), if u.via_mig { "mig" } else { "upd" });
    if !ok {
        if before != after {
            return Some((key("refused-update-changed-params"), format!("`{line}` was refused but Params changed: {} -> {}", render_flat(before), render_flat(after))));
        }
        if let Some(d) = gb.diff(f, after) {
            return Some((key("refused-update-changed-params"), format!("`{line}` was refused; {d}")));
        }
        return None;
    }
    if f != FactoryKind::TokenMerge {
        // a non-native minimum price is refused: (a) the message's own minimum-price field …
        if let Some((d, _)) = u.minp {
            if d != 0 {
                return Some((key("non-native-min-price-accepted"), format!("`{line}` accepted; min_mint_price now {:?}", after.get("minp"))));
            }
        }
        // … (b) by whatever route: the minimum price was native (as submitted so far) and after this accepted update the
        // factory reports a non-native one
        let was = gb.coin("minp");
        let now = coin_of_s(after.get("minp"));
        if was.0 == 0 && now.0 != 0 {
            return Some((key("non-native-min-price-accepted"), format!("`{line}` accepted and moved min_mint_price from {} to the non-native {}", fmt_coin(was), fmt_coin(now))));
        }
    }
    // every stored scalar: supplied value if supplied, else unchanged — judged against the ghost
    let supplied: BTreeSet<&'static str> = u.supplied_names().into_iter().collect();
    for name in scalar_names(f) {
        let want = ga.get(name);
        let got = after.get(name);
        if want != got {
            let was = gb.get(name);
            return Some(if supplied.contains(name) {
                (key("supplied-field-not-taken"), format!("`{line}`: supplied {name}={:?} but Params now has {name}={:?}", want, got))
            } else {
                (key("omitted-field-changed"), format!("`{line}`: {name} omitted but changed {:?} -> {:?}", was, got))
            });
        }
    }
    // parameters this file has no name for are never supplied by it: they must not move
    if before.extra != after.extra {
        return Some((key("omitted-field-changed"), format!("`{line}`: unnamed parameter(s) changed {:?} -> {:?}", before.extra, after.extra)));
    }
    // code ids as sets: after = (before ∪ add) \ rm
    let got: BTreeSet<u64> = after.ids().into_iter().collect();
    if ga.ids != got {
        return Some((key("code-id-set-semantics"), format!("`{line}`: allowed ids {:?} -> {:?}, expected set {:?}", before.get("ids"), after.get("ids"), ga.ids)));
    }
    None
}

/// a creation that succeeded must satisfy the factory's CURRENT parameters (= what governance submitted so far)
fn monitor_create(f: FactoryKind, cur: &Ghost, line: &str) -> Option<(String, String)> {
    let key = |p: &str| format!("{}-factory/create/{p}", fk_letter(f));
    if cur.get("frozen").map(|s| s.as_str()) == Some("1") {
        return Some((key("created-while-frozen"), format!("`{line}` succeeded although the factory is currently frozen")));
    }
    let sg = kv_u64(line, "sg721").unwrap_or(0);
    if !cur.ids.contains(&sg) {
        return Some((key("collection-code-not-currently-allowed"), format!("`{line}` succeeded although {sg} is not in the current allowed set {:?}", cur.ids)));
    }
    let fee = cur.coin("cfee");
    let paid = funds_of(line);
    if paid.len() != 1 || paid[0].0 != fee.0 || paid[0].1 < fee.1 {
        return Some((key("stale-creation-fee"), format!("`{line}` succeeded although the current creation fee is {:?}", fee)));
    }
    if f != FactoryKind::Base {
        if let Some(Some(n)) = kv_opt_u64(line, "num") {
            let mtl = cur.u64("mtl");
            if n > mtl {
                return Some((key("stale-max-token-limit"), format!("`{line}` succeeded although current max_token_limit is {mtl}")));
            }
        }
        let mpal = cur.u64("mpal");
        if kv_u64(line, "pal").unwrap_or(0) > mpal {
            return Some((key("stale-max-per-address-limit"), format!("`{line}` succeeded although current max_per_address_limit is {mpal}")));
        }
    }
    if matches!(f, FactoryKind::Vending | FactoryKind::OpenEdition) {
        let min = cur.coin("minp");
        let price = kv_coin(line, "price").unwrap_or((0, 0));
        if price.1 < min.1 || price.0 != min.0 {
            return Some((key("stale-min-mint-price"), format!("`{line}` succeeded although current min_mint_price is {:?}", min)));
        }
    }
    if f != FactoryKind::Base {
        if let (Some(Some(t)), Some(start)) = (kv_opt_u64(line, "stt"), kv_u64(line, "start")) {
            let off = cur.u64("off") as u128;
            if t as u128 > (start as u128).saturating_add(off.saturating_mul(SEC as u128)) {
                return Some((key("stale-trading-offset"), format!("`{line}` succeeded although current max_trading_offset_secs is {off}")));
            }
        }
    }
    None
}

/// open edition: the developer share goes to the CURRENT `dev_fee_address` — no other developer account may grow
fn stale_dev(f: FactoryKind, cur: &Ghost, m: &Money) -> Option<String> {
    if f != FactoryKind::OpenEdition {
        return None;
    }
    let dev = cur.u64("dev");
    m.devs.iter().find(|(i, _)| *i != dev).map(|(i, a)| format!("developer account {i} received {a} although the current dev_fee_address is {dev}"))
}

/// a public mint must split what was paid by the factory's CURRENT mint_fee_bps
fn monitor_mint(f: FactoryKind, kind: MinterKind, cur: &Ghost, gprice: (u64, u128), funds: &[(u64, u128)], m: &Money, line: &str) -> Option<(String, String)> {
    let bps = cur.get("bps").and_then(|s| s.parse::<u128>().ok())?;
    let paid = paid_total(funds);
    if kind == MinterKind::Base {
        // the whole payment is the fee: captured price × CURRENT bps, fair-burned
        let want = gprice.1.checked_mul(bps)? / 10_000;
        let got = m.fee();
        if paid != want || got != want {
            return Some((format!("{}/mint/stale-mint-fee-bps", kind.name()), format!("`{line}`: paid {paid}, burned+pool {got}, expected captured price {} x current bps {bps} = {want}", gprice.1)));
        }
        return None;
    }
    let want = paid.checked_mul(bps)? / 10_000;
    if m.fee() != want || m.seller != paid.saturating_sub(want) {
        return Some((format!("{}/mint/stale-mint-fee-bps", kind.name()), format!("`{line}` ({} factory): fee {} seller {}, expected fee {want} = paid {paid} x current bps {bps}", fk_letter(f), m.fee(), m.seller)));
    }
    if let Some(w) = stale_dev(f, cur, m) {
        return Some((format!("{}/mint/stale-dev-fee-address", kind.name()), format!("`{line}`: {w}")));
    }
    None
}

/// an airdrop must charge the CURRENT airdrop price and split it by the CURRENT airdrop fee bps
fn monitor_airdrop(f: FactoryKind, kind: MinterKind, cur: &Ghost, funds: &[(u64, u128)], m: &Money, line: &str) -> Option<(String, String)> {
    let price = cur.coin("adp");
    let bps = cur.get("adbps").and_then(|s| s.parse::<u128>().ok())?;
    let paid = paid_total(funds);
    if paid != price.1 || (paid != 0 && funds.first().map(|c| c.0) != Some(price.0)) {
        return Some((format!("{}/airdrop/stale-airdrop-price", kind.name()), format!("`{line}` accepted although the current airdrop price is {:?}", price)));
    }
    let want = price.1.checked_mul(bps)? / 10_000;
    if m.fee() != want {
        return Some((format!("{}/airdrop/stale-airdrop-fee-bps", kind.name()), format!("`{line}`: fee {}, expected {} x current airdrop bps {bps} = {want}", m.fee(), price.1)));
    }
    if let Some(w) = stale_dev(f, cur, m) {
        return Some((format!("{}/airdrop/stale-dev-fee-address", kind.name()), format!("`{line}`: {w}")));
    }
    None
}

// ------------------------------------------------------------------------------------------------ generators

fn fields_of(f: FactoryKind) -> Vec<&'static str> {
    match f {
        FactoryKind::Vending => vec!["code", "add", "rm", "frozen", "cfee", "minp", "bps", "off", "mtl", "mpal", "adp", "adbps", "shuf"],
        FactoryKind::OpenEdition => vec!["code", "add", "rm", "frozen", "cfee", "minp", "bps", "off", "mtl", "mpal", "adp", "adbps", "dev", "xminp"],
        FactoryKind::TokenMerge => vec!["code", "add", "rm", "frozen", "cfee", "off", "mtl", "mpal", "adp", "adbps", "shuf"],
        FactoryKind::Base => vec!["code", "add", "rm", "frozen", "cfee", "minp", "bps", "off"],
    }
}
const ALL_F: [FactoryKind; 4] = [FactoryKind::Vending, FactoryKind::OpenEdition, FactoryKind::TokenMerge, FactoryKind::Base];

/// amounts: boundaries and random bit lengths (< 2^100 mostly; u128::MAX occasionally)
fn rand_amount(r: &mut Rng) -> u128 {
    match r.below(12) {
        0 => 0,
        1 => 1,
        2 => u128::MAX,
        3 => (1u128 << 64) - 1,
        4 => 1u128 << 64,
        _ => r.sized_u128(100),
    }
}
fn rand_u64(r: &mut Rng) -> u64 {
    match r.below(8) {
        0 => 0,
        1 => u64::MAX,
        2 => 10_000,
        3 => 10_001,
        _ => r.sized_u128(64) as u64,
    }
}
fn rand_u32(r: &mut Rng) -> u64 {
    match r.below(8) {
        0 => 0,
        1 => u32::MAX as u64,
        2 => 1,
        _ => r.sized_u128(32) as u64,
    }
}
/// `native_in`: probability (out of 10) that the denom is native
fn rand_coin(r: &mut Rng, native_in: u64) -> (u64, u128) {
    let d = if r.chance(native_in, 10) { 0 } else { r.range(1, 2) };
    (d, rand_amount(r))
}
/// code-id lists over a small universe, with consecutive and non-consecutive duplicates
fn rand_ids(r: &mut Rng, codes: &Codes) -> Vec<u64> {
    rand_ids_in(r, &[codes.sg721_base, codes.sg721_updatable, codes.sg721_nt, codes.sg721_metadata_onchain, 1, 2, 3, 77])
}
/// the worlds never allow sg721-metadata-onchain / sg721-nt: a minter created with the former cannot mint (its Mint
/// message needs on-chain metadata), the latter has no UpdateStartTradingTime — collection matters outside C18
fn world_ids(r: &mut Rng, codes: &Codes) -> Vec<u64> {
    rand_ids_in(r, &[codes.sg721_base, codes.sg721_updatable, 1, 2, 3, 77])
}
fn rand_ids_in(r: &mut Rng, uni: &[u64]) -> Vec<u64> {
    let n = r.below(6);
    let mut v: Vec<u64> = vec![];
    for _ in 0..n {
        if !v.is_empty() && r.chance(1, 4) {
            let last = v.last().copied().unwrap_or(1);
            v.push(last); // consecutive duplicate
        } else {
            v.push(*r.pick(uni));
        }
    }
    v
}

/// arbitrary (not necessarily usable) initial params
fn rand_params(r: &mut Rng, codes: &Codes) -> (FactoryParams, bool) {
    (
        FactoryParams {
            code_id: rand_u64(r),
            allowed_sg721_code_ids: rand_ids(r, codes),
            frozen: r.chance(1, 2),
            creation_fee: rand_coin(r, 7),
            min_mint_price: rand_coin(r, 8),
            mint_fee_bps: rand_u64(r),
            max_trading_offset_secs: rand_u64(r),
            max_token_limit: rand_u32(r) as u32,
            max_per_address_limit: rand_u32(r) as u32,
            airdrop_mint_price: rand_coin(r, 7),
            airdrop_mint_fee_bps: rand_u64(r),
            shuffle_fee: rand_coin(r, 8),
            dev_fee_address: r.range(60, 69),
        },
        r.chance(1, 2),
    )
}

/// an update supplying exactly the fields named in `names`, arbitrary values (native denom with probability 0.9 where checked)
fn rand_upd(r: &mut Rng, f: FactoryKind, names: &[&str], codes: &Codes) -> Upd {
    let mut u = Upd { nulls: r.chance(1, 2), via_mig: r.chance(1, 4), ..Default::default() };
    for n in names {
        match *n {
            "code" => u.code = Some(rand_u64(r)),
            "add" => u.add = Some(rand_ids(r, codes)),
            "rm" => u.rm = Some(rand_ids(r, codes)),
            "frozen" => u.frozen = Some(r.chance(1, 2)),
            "cfee" => u.cfee = Some(rand_coin(r, 6)),
            "minp" => u.minp = Some(rand_coin(r, 9)),
            "bps" => u.bps = Some(rand_u64(r)),
            "off" => u.off = Some(rand_u64(r)),
            "mtl" => u.mtl = Some(rand_u32(r)),
            "mpal" => u.mpal = Some(rand_u32(r)),
            "adp" => u.adp = Some(rand_coin(r, 9)),
            "adbps" => u.adbps = Some(rand_u64(r)),
            "shuf" => u.shuf = Some(rand_coin(r, 9)),
            "xminp" => u.xminp = Some(rand_coin(r, 5)),
            "dev" => u.dev = Some(r.range(60, 69)),
            _ => {}
        }
    }
    if f == FactoryKind::Base {
        u.ext = Some(r.chance(1, 2));
    }
    u
}

fn class_of_upd(f: FactoryKind, u: &Upd, out: &str) -> String {
    let nn = |c: Option<(u64, u128)>| c.map(|c| c.0 != 0).unwrap_or(false);
    let fault = if nn(u.minp) && f != FactoryKind::TokenMerge {
        "nonnative-minp"
    } else if nn(u.adp) && f != FactoryKind::OpenEdition && f != FactoryKind::Base {
        "nonnative-adp"
    } else if nn(u.shuf) && matches!(f, FactoryKind::Vending | FactoryKind::TokenMerge) {
        "nonnative-shuf"
    } else {
        "native"
    };
    let bucket = match u.n_supplied() {
        0 => "0",
        1 => "1",
        2..=4 => "2-4",
        5..=9 => "5-9",
        _ => "10+",
    };
    let ids = match (&u.add, &u.rm) {
        (Some(a), Some(b)) if a.iter().any(|x| b.contains(x)) => "add∩rm",
        (Some(_), Some(_)) => "add+rm",
        (Some(_), None) => "add",
        (None, Some(_)) => "rm",
        _ => "noids",
    };
    format!("{}:{}:{}:{}:{}:{}:nulls{}", fk_letter(f), if u.via_mig { "mig" } else { "upd" }, out, fault, bucket, ids, u.nulls as u8)
}

/// class marks of one executed update (also the coverage floor's raw material)
fn mark_upd(ses: &mut Session, f: FactoryKind, u: &Upd, out: &str) {
    let fl = fk_letter(f);
    let res = out.split_whitespace().next().unwrap_or("?");
    ses.mark(class_of_upd(f, u, res));
    if res == "ok" {
        for n in u.supplied_names() {
            if fields_of(f).contains(&n) {
                ses.mark(format!("{fl}:field:{n}:accepted"));
            }
        }
    }
    // the open-edition message's own `extension.min_mint_price`: native / non-native, with / without the top-level field
    if f == FactoryKind::OpenEdition {
        if let Some(x) = u.xminp {
            let dn = if x.0 == 0 { "native" } else { "nonnative" };
            let top = match u.minp {
                None => "alone",
                Some(m) if m.0 == 0 => "with-native-minp",
                Some(_) => "with-nonnative-minp",
            };
            ses.mark(format!("O:xminp:{dn}:{top}:{res}"));
        }
    }
}

/// Part A: every subset of the optional fields of every factory's update message, in random order, in sequences
/// (each `upd` followed by the three queries); a quarter of the updates travel through `migrate`.
fn part_masks(ses: &mut Session, sut: &mut S, codes: &Codes) {
    let seq_len = 32usize;
    let rounds = ses.scale(1, 4);
    for _round in 0..rounds {
        for f in ALL_F {
            let names = fields_of(f);
            let k = names.len();
            let mut masks: Vec<u32> = (0..(1u32 << k)).collect();
            ses.rng.shuffle(&mut masks);
            for chunk in masks.chunks(seq_len) {
                let (p, ext) = rand_params(&mut ses.rng, codes);
                let header = format!("{} part=masks", params_header(f, codes, &p, ext));
                ses.begin_case(sut, &header);
                ses.step(sut, "qp");
                for m in chunk {
                    let sel: Vec<&str> = (0..k).filter(|i| m & (1 << i) != 0).map(|i| names[i]).collect();
                    let u = rand_upd(&mut ses.rng, f, &sel, codes);
                    let out = ses.step(sut, &u.line());
                    mark_upd(ses, f, &u, &out);
                    ses.count(&format!("mask-size:{}", sel.len()));
                    ses.step(sut, "qp");
                    ses.step(sut, "qids");
                    let uni = [codes.sg721_base, codes.sg721_updatable, codes.sg721_nt, codes.sg721_metadata_onchain, 1, 2, 3, 77, 5];
                    let x = *ses.rng.pick(&uni);
                    let o = ses.step(sut, &format!("qid x={x}"));
                    ses.mark(format!("{}:qid:{}", fk_letter(f), o));
                }
                if ses.rng.chance(1, 8) {
                    let o = ses.step(sut, "mignone");
                    ses.mark(format!("{}:mignone:{}", fk_letter(f), o));
                    ses.step(sut, "qp");
                }
                ses.end_case();
            }
            if _round == 0 {
                ses.note(format!("{}-factory: all 2^{} = {} subsets of the optional update fields exercised ({} round(s) with fresh random values)", fk_letter(f), k, 1u32 << k, rounds));
            }
        }
    }
}

/// Part 0: the message surface, enumerated at run time from the crates' JSON schemas. Items this file has no name for are
/// noted, marked, and (where anybody / governance can send them) sent under the monitors.
fn part_surface(ses: &mut Session, sut: &mut S, codes: &Codes) {
    for f in ALL_F {
        let fl = fk_letter(f);
        let kind = ALL_MINTERS.iter().copied().find(|k| k.factory() == f).unwrap_or(MinterKind::Base);
        let p = sane_params(&mut ses.rng, kind, codes);
        let sudo: Vec<String> = schema_variants(&sudo_schema(f)).into_iter().map(|x| x.0).collect();
        let exec: Vec<String> = schema_variants(&exec_schema(f)).into_iter().map(|x| x.0).collect();
        if !sudo.iter().any(|v| v == "update_params") {
            ses.note(format!("{fl}-factory: SudoMsg has no `update_params` variant any more: {:?}", sudo));
        } else {
            ses.mark(format!("surface:{fl}:sudo:update_params"));
        }
        for v in sudo.iter().filter(|v| *v != "update_params") {
            ses.note(format!("{fl}-factory: UNKNOWN SudoMsg variant `{v}` (a governance path this check does not model)"));
            ses.mark(format!("unknown-sudo-variant:{fl}:{v}"));
        }
        let unknown_fields = unknown_update_fields(f);
        let unknown_exec: Vec<&String> = exec.iter().filter(|v| *v != "create_minter").collect();
        if !unknown_fields.is_empty() || !unknown_exec.is_empty() {
            let header = format!("{} part=surface", params_header(f, codes, &p, false));
            ses.begin_case(sut, &header);
            ses.step(sut, "qp");
            for (path, _) in &unknown_fields {
                ses.note(format!("{fl}-factory: UNKNOWN field `{path}` in the update message: sent alone, every known parameter must stay"));
                ses.mark(format!("unknown-update-field:{fl}:{path}"));
                for via in ["s", "m"] {
                    ses.step(sut, &format!("upd xf={path} nulls=0 via={via}"));
                    ses.step(sut, "qp");
                }
            }
            for v in unknown_exec {
                ses.note(format!("{fl}-factory: UNKNOWN ExecuteMsg variant `{v}`: sent raw, the params must stay"));
                ses.mark(format!("unknown-exec-variant:{fl}:{v}"));
                ses.step(sut, &format!("xexec v={v}"));
                ses.step(sut, "qp");
            }
            ses.end_case();
        }
        ses.mark(format!("surface:{fl}:checked"));
    }
    let ms: Vec<String> = schema_variants(&minter_sudo_schema()).into_iter().map(|x| x.0).collect();
    for v in ms.iter().filter(|v| *v != "update_status") {
        ses.note(format!("minters: UNKNOWN sg4::SudoMsg variant `{v}`"));
        ses.mark(format!("unknown-sudo-variant:minter:{v}"));
    }
    if ms.iter().any(|v| v == "update_status") {
        ses.mark("surface:minter:sudo:update_status".to_string());
    }
}

/// Part E: the stored corpus (`corpus/C18/*.json`, field `ops`): counter-examples and past failing inputs, re-run every time
fn part_corpus(ses: &mut Session, sut: &mut S, _codes: &Codes) {
    let dir = std::env::var("VERIF_CORPUS").unwrap_or_else(|_| "corpus/C18".to_string());
    let mut files: Vec<std::path::PathBuf> = std::fs::read_dir(&dir).map(|d| d.filter_map(|e| e.ok().map(|e| e.path())).filter(|p| p.extension().map(|x| x == "json").unwrap_or(false)).collect()).unwrap_or_default();
    files.sort();
    let mut n = 0;
    for f in files {
        let Ok(txt) = std::fs::read_to_string(&f) else { continue };
        let Ok(v) = serde_json::from_str::<Value>(&txt) else { continue };
        let lines: Vec<String> = v["ops"].as_array().map(|a| a.iter().filter_map(|x| x.as_str().map(String::from)).collect()).unwrap_or_default();
        if lines.len() > 1 && lines[0].starts_with("case") {
            ses.run_case(sut, &lines);
            n += 1;
        }
    }
    ses.note(format!("corpus: {n} stored case(s) from {dir} re-run"));
    if n > 0 {
        ses.mark("corpus:ran".to_string());
    }
}

fn main() {
    let mut ses = Session::new("C18");
    let mut sut = S::new();
    if ses.maybe_replay(&mut sut) {
        ses.finish(&mut sut);
    }
    let codes = sut.w.codes.clone();
    let only = std::env::var("C18_ONLY").unwrap_or_default();
    let all = only.is_empty();
    let mut harness_panics: Vec<String> = vec![];
    {
        let parts: Vec<(&str, fn(&mut Session, &mut S, &Codes))> = vec![("surface", part_surface), ("masks", part_masks), ("directed", part_directed), ("status", part_status), ("world", part_world), ("corpus", part_corpus)];
        for (name, part) in parts {
            if all || only == name {
                // the harness must never die on unexpected contract behaviour: a panic in a generator ends that part only
                if let Err(p) = catch(|| part(&mut ses, &mut sut, &codes)) {
                    harness_panics.push(format!("{name}: {p}"));
                    let _ = catch(|| ses.end_case());
                }
            }
        }
    }
    if all {
        require_floor(&mut ses);
    }
    ses.require("harness:no-generator-panic");
    if harness_panics.is_empty() {
        ses.mark("harness:no-generator-panic".to_string());
    } else {
        ses.note(format!("HARNESS PANIC (generator part aborted, findings so far are kept): {:?}", harness_panics));
    }
    ses.exhaustive = true;
    for k in sut.seen_extra.clone() {
        ses.note(format!("UNKNOWN key in a Params answer: {k} (kept raw; frame conditions apply to it)"));
        ses.mark(format!("unknown-params-key:{k}"));
    }
    if sut.rebased > 0 {
        ses.note(format!("ghost re-based on the Params answer right after instantiation in {} case(s) (instantiate normalised a submitted value)", sut.rebased));
    }
    ses.note("values: amounts incl. 0, 1, 2^64±1, u128::MAX and random bit lengths < 2^100; u64/u32 fields incl. 0 and the type maximum; times < 2^62".to_string());
    ses.note(format!("contract panics caught and world rebuilt from the op log: {}", sut.panics));
    ses.finish(&mut sut);
}

/// Coverage floor: classes without which the run would be vacuous. Every one is reached for every seed in the quick tier.
fn require_floor(ses: &mut Session) {
    for f in ALL_F {
        let fl = fk_letter(f);
        ses.require(format!("surface:{fl}:checked"));
        ses.require(format!("{fl}:upd:ok:"));
        ses.require(format!("{fl}:mig:ok:"));
        for n in fields_of(f) {
            ses.require(format!("{fl}:field:{n}:accepted"));
        }
        if f != FactoryKind::TokenMerge {
            ses.require(format!("{fl}:upd:err:nonnative-minp"));
            ses.require(format!("{fl}:mig:err:nonnative-minp"));
        }
        ses.require(format!("{fl}:create:ok:"));
        if f != FactoryKind::TokenMerge {
            ses.require(format!("{fl}:mint:ok:"));
        }
        if f != FactoryKind::Base {
            ses.require(format!("{fl}:airdrop:ok:"));
        }
    }
    for x in ["native:alone:ok", "nonnative:alone:ok", "native:with-native-minp:ok", "nonnative:with-native-minp:ok", "native:with-nonnative-minp:err", "nonnative:with-nonnative-minp:err"] {
        ses.require(format!("O:xminp:{x}"));
    }
    for kind in ALL_MINTERS {
        let fl = fk_letter(kind.factory());
        let k = kind.name();
        ses.require(format!("status:ok:{k}:"));
        ses.require(format!("{fl}:directed:{k}:create:ok"));
        ses.require(format!("{fl}:directed:{k}:create:err"));
        ses.require(format!("{fl}:directed:{k}:ustt:ok"));
        if kind != MinterKind::TokenMerge {
            ses.require(format!("{fl}:directed:{k}:mint:ok"));
        }
        if kind != MinterKind::Base {
            ses.require(format!("{fl}:directed:{k}:ustt:err"));
            ses.require(format!("{fl}:directed:{k}:airdrop:ok"));
            ses.require(format!("{fl}:directed:{k}:airdrop:err"));
            ses.require(format!("{fl}:directed:{k}:pal:ok"));
            ses.require(format!("{fl}:directed:{k}:pal:err"));
        }
        if kind.is_vending() || kind.is_open_edition() {
            ses.require(format!("{fl}:directed:{k}:price:ok"));
            ses.require(format!("{fl}:directed:{k}:price:err"));
            ses.require(format!("{fl}:directed:{k}:setwl:ok"));
            ses.require(format!("{fl}:directed:{k}:setwl:err"));
        }
        if kind.is_vending() || kind == MinterKind::TokenMerge {
            ses.require(format!("{fl}:directed:{k}:shuffle:ok"));
            ses.require(format!("{fl}:directed:{k}:shuffle:err"));
        }
    }
}

// ------------------------------------------------------------------------------------------------ worlds with minters

fn family_codes(f: FactoryKind, codes: &Codes) -> Vec<u64> {
    ALL_MINTERS.iter().filter(|k| k.factory() == f).map(|k| codes.minters[k.idx()]).collect()
}

/// usable params: real code ids, small native fees, boundary-friendly maxima
fn sane_params(r: &mut Rng, kind: MinterKind, codes: &Codes) -> FactoryParams {
    FactoryParams {
        code_id: codes.minters[kind.idx()],
        allowed_sg721_code_ids: vec![codes.sg721_base, codes.sg721_updatable],
        frozen: false,
        creation_fee: (0, *r.pick(&[1u128, 1000, 5_000_000])),
        min_mint_price: (0, *r.pick(&[0u128, 1000, 50_000])),
        mint_fee_bps: *r.pick(&[0u64, 1, 500, 1000, 9999, 10_000]),
        max_trading_offset_secs: *r.pick(&[0u64, 1, 86_400, 604_800]),
        max_token_limit: *r.pick(&[1u32, 5, 99, 100, 101, 300]),
        max_per_address_limit: *r.pick(&[1u32, 2, 3, 4, 50]),
        airdrop_mint_price: (0, *r.pick(&[0u128, 1000, 77_777])),
        airdrop_mint_fee_bps: *r.pick(&[0u64, 5000, 10_000]),
        shuffle_fee: (0, *r.pick(&[0u128, 1, 500])),
        dev_fee_address: r.range(60, 69),
    }
}

/// a sane single-field value (so that later creations / mints mostly succeed)
fn sane_upd(r: &mut Rng, f: FactoryKind, names: &[&str], codes: &Codes) -> Upd {
    let mut u = Upd { nulls: r.chance(1, 2), via_mig: r.chance(1, 5), ..Default::default() };
    let fam = family_codes(f, codes);
    for n in names {
        match *n {
            "code" => u.code = Some(if r.chance(1, 8) || fam.is_empty() { 9999 } else { *r.pick(&fam) }),
            "add" => u.add = Some(world_ids(r, codes)),
            "rm" => u.rm = Some(if r.chance(1, 2) { vec![*r.pick(&[1u64, 2, 3, 77, codes.sg721_base])] } else { world_ids(r, codes) }),
            "frozen" => u.frozen = Some(r.chance(1, 3)),
            "cfee" => u.cfee = Some((if r.chance(1, 6) { 1 } else { 0 }, *r.pick(&[1u128, 2, 999, 1000, 1001, 5_000_000]))),
            "minp" => u.minp = Some((if r.chance(1, 10) { 1 } else { 0 }, *r.pick(&[0u128, 1, 999, 1000, 1001, 50_000]))),
            "bps" => u.bps = Some(*r.pick(&[0u64, 1, 250, 1000, 5000, 9999, 10_000, 10_001])),
            "off" => u.off = Some(*r.pick(&[0u64, 1, 5, 86_400, 604_800])),
            "mtl" => u.mtl = Some(*r.pick(&[0u64, 1, 5, 99, 100, 101, 300])),
            "mpal" => u.mpal = Some(*r.pick(&[0u64, 1, 2, 3, 4, 9, 50])),
            "adp" => u.adp = Some((if r.chance(1, 8) { 1 } else { 0 }, *r.pick(&[0u128, 1, 1000, 77_777]))),
            "adbps" => u.adbps = Some(*r.pick(&[0u64, 1, 2500, 5000, 10_000, 10_001])),
            "shuf" => u.shuf = Some((if r.chance(1, 10) { 2 } else { 0 }, *r.pick(&[0u128, 1, 2, 500, 501]))),
            // the open-edition message's own minimum price: any denom, small and huge amounts
            "xminp" => u.xminp = Some(if r.chance(1, 2) { rand_coin(r, 5) } else { (r.below(2), *r.pick(&[0u128, 1, 999, 70_000])) }),
            "dev" => u.dev = Some(r.range(60, 69)),
            _ => {}
        }
    }
    if f == FactoryKind::Base {
        u.ext = Some(r.chance(1, 2));
    }
    u
}

struct Gen {
    f: FactoryKind,
    now: u64,
    /// slot -> (start time, num_tokens) of minters created so far
    made: BTreeMap<u64, (u64, u64)>,
    next_slot: u64,
    next_buyer: u64,
}

fn near(r: &mut Rng, x: u128) -> u128 {
    match r.below(10) {
        0 => x.saturating_sub(1),
        1 => x.saturating_add(1),
        _ => x,
    }
}
fn funds_str(c: (u64, u128)) -> String {
    if c.1 == 0 {
        "-".into()
    } else {
        fmt_coin(c)
    }
}
const MAX_T: u128 = 1u128 << 62;

impl Gen {
    fn new(f: FactoryKind) -> Gen {
        Gen { f, now: T0, made: BTreeMap::new(), next_slot: 1, next_buyer: 100 }
    }
    /// generator decisions are taken from the GHOST (what governance submitted), never from an answer of the contracts
    fn create_line(&mut self, r: &mut Rng, sut: &S, codes: &Codes, valid: bool) -> String {
        let cur = &sut.ghost;
        let good: Vec<u64> = cur.ids.iter().copied().filter(|x| [codes.sg721_base, codes.sg721_updatable].contains(x)).collect();
        let sg = if !good.is_empty() && (valid || r.chance(3, 4)) { *r.pick(&good) } else { *r.pick(&[codes.sg721_base, codes.sg721_updatable, codes.sg721_nt, 1, 77]) };
        let mtl = cur.u64("mtl");
        let mpal = cur.u64("mpal");
        let num: Option<u64> = match self.f {
            FactoryKind::Base => None,
            FactoryKind::OpenEdition if r.chance(1, 3) => None,
            _ => Some(if valid { mtl.clamp(1, 300) } else { (*r.pick(&[1u64, mtl.saturating_sub(1), mtl, mtl.saturating_add(1), 0])).min(320) }),
        };
        let pal: u64 = if self.f == FactoryKind::Base { 1 } else if valid { mpal.clamp(1, 3) } else { *r.pick(&[1u64, 2, 3, 4, mpal, mpal.saturating_add(1), 0]) }.min(u32::MAX as u64);
        let minp = cur.coin("minp");
        let price = if valid {
            (minp.0, minp.1.saturating_add(10_000))
        } else {
            (if r.chance(1, 10) { 1 } else { minp.0 }, *r.pick(&[minp.1.saturating_sub(1), minp.1, minp.1.saturating_add(1), minp.1.saturating_mul(2).saturating_add(10_000), 0]))
        };
        let fee = cur.coin("cfee");
        let funds = if valid {
            fee
        } else {
            match r.below(10) {
                0 => (fee.0, fee.1.saturating_sub(1)),
                1 => (fee.0, fee.1.saturating_add(1)),
                2 => (fee.0.saturating_add(1) % 3, fee.1),
                3 => (0, 0),
                _ => fee,
            }
        };
        let start = self.now.saturating_add(1000 * SEC);
        let off = cur.u64("off");
        let bound = (start as u128).saturating_add((off as u128).saturating_mul(SEC as u128));
        let stt: Option<u128> = if valid || r.chance(1, 2) || bound > MAX_T {
            None
        } else {
            Some(match r.below(4) {
                0 => bound.saturating_sub(1),
                1 => bound.saturating_add(1),
                2 => start as u128,
                _ => bound,
            })
        };
        let slot = self.next_slot;
        format!("create m={} sg721={} num={} pal={} price={} funds={} start={} now={} stt={}", slot, sg, fmt_opt(&num), pal, fmt_coin(price), funds_str(funds), start, self.now, fmt_opt(&stt))
    }
    fn after_create(&mut self, line: &str, out: &str) {
        if out.starts_with("ok") {
            if let Some(slot) = kv_u64(line, "m") {
                self.made.insert(slot, (kv_u64(line, "start").unwrap_or(self.now), kv_opt_u64(line, "num").unwrap_or(None).unwrap_or(0)));
                self.next_slot += 1;
            }
        }
    }
    fn pick_slot(&self, r: &mut Rng) -> Option<u64> {
        if self.made.is_empty() {
            return None;
        }
        if r.chance(1, 40) {
            return Some(999); // no such minter
        }
        let keys: Vec<u64> = self.made.keys().copied().collect();
        Some(*r.pick(&keys))
    }
    fn mint_line(&mut self, r: &mut Rng, sut: &S, slot: u64, valid: bool) -> String {
        let start = self.made.get(&slot).map(|x| x.0).unwrap_or(self.now);
        if self.f != FactoryKind::Base && self.now < start {
            self.now = if !valid && r.chance(1, 8) { start.saturating_sub(1) } else { start };
        }
        let (price, kind) = match sut.minters.get(&slot) {
            Some(m) => (m.price, m.kind),
            None => ((0, 1000), MinterKind::Vending),
        };
        let due = if kind == MinterKind::Base { (0u64, price.1.checked_mul(sut.ghost.u64("bps") as u128).map(|x| x / 10_000).unwrap_or(u128::MAX)) } else { price };
        let funds = if valid { due } else { (due.0, near(r, due.1)) };
        self.next_buyer += 1;
        format!("mint m={} now={} buyer={} funds={}", slot, self.now, self.next_buyer, funds_str(funds))
    }
    fn airdrop_line(&mut self, r: &mut Rng, sut: &S, slot: u64, valid: bool) -> String {
        let adp = sut.ghost.coin("adp");
        let funds = if valid { adp } else { (adp.0, near(r, adp.1)) };
        format!("airdrop m={} funds={}", slot, funds_str(funds))
    }
    fn world_op(&mut self, r: &mut Rng, sut: &S, codes: &Codes) -> String {
        let cur = &sut.ghost;
        let names = fields_of(self.f);
        let slot = self.pick_slot(r);
        let roll = r.below(100);
        let valid = r.chance(7, 10);
        match (roll, slot) {
            (0..=24, _) | (_, None) if roll <= 24 || (slot.is_none() && roll >= 45) => {
                if r.chance(1, 25) {
                    return "mignone".to_string();
                }
                let n = 1 + r.below(3) as usize;
                let sel: Vec<&str> = (0..n).map(|_| *r.pick(&names)).collect::<BTreeSet<_>>().into_iter().collect();
                sane_upd(r, self.f, &sel, codes).line()
            }
            (25..=44, _) | (_, None) => self.create_line(r, sut, codes, valid),
            (45..=64, Some(s)) if self.f != FactoryKind::TokenMerge => self.mint_line(r, sut, s, valid),
            (45..=74, Some(s)) if self.f != FactoryKind::Base => self.airdrop_line(r, sut, s, valid),
            (75..=80, Some(s)) if self.f != FactoryKind::Base => {
                let mpal = cur.u64("mpal");
                let num = self.made.get(&s).map(|x| x.1).unwrap_or(0);
                let three = (num.saturating_mul(3).saturating_add(99)) / 100;
                format!("pal m={} limit={}", s, (*r.pick(&[0u64, 1, 2, 3, 4, mpal, mpal.saturating_add(1), three, three.saturating_add(1)])).min(u32::MAX as u64))
            }
            (81..=84, Some(s)) if matches!(self.f, FactoryKind::Vending | FactoryKind::TokenMerge) => {
                let fee = cur.coin("shuf");
                self.next_buyer += 1;
                format!("shuffle m={} buyer={} funds={}", s, self.next_buyer, funds_str((0, if valid { fee.1 } else { near(r, fee.1) })))
            }
            (85..=88, Some(s)) => {
                let start = self.made.get(&s).map(|x| x.0).unwrap_or(self.now) as u128;
                let bound = start.saturating_add((cur.u64("off") as u128).saturating_mul(SEC as u128));
                let t: Option<u128> = match r.below(6) {
                    0 => None,
                    1 => Some((self.now as u128).saturating_sub(1)),
                    2 => Some(self.now as u128),
                    3 => Some(bound.saturating_sub(1)),
                    4 => Some(bound.saturating_add(1)),
                    _ => Some(bound),
                };
                let t = t.filter(|x| *x < MAX_T);
                format!("ustt m={} now={} t={}", s, self.now, fmt_opt(&t))
            }
            (89..=92, Some(s)) if matches!(self.f, FactoryKind::Vending | FactoryKind::OpenEdition) => {
                let minp = cur.coin("minp").1;
                let price = sut.minters.get(&s).map(|m| m.price.1).unwrap_or(0);
                if r.chance(1, 4) {
                    let wl = *r.pick(&[minp.saturating_sub(1), minp, minp.saturating_add(1), price]);
                    return format!("setwl m={} now={} wlp={}", s, self.now, fmt_coin((cur.coin("minp").0, wl)));
                }
                format!("price m={} now={} p={}", s, self.now, *r.pick(&[minp.saturating_sub(1), minp, minp.saturating_add(1), price.saturating_sub(1), price, price.saturating_add(1), 0]))
            }
            (_, Some(s)) => format!("status m={} v={} b={} e={}", s, r.below(2), r.below(2), r.below(2)),
        }
    }
}

/// run one generated op plus its follow-up observation, with class marks
fn run_op(ses: &mut Session, sut: &mut S, g: &mut Gen, line: &str) -> String {
    let out = ses.step(sut, line);
    if std::env::var("C18_TRACE").is_ok() {
        eprintln!("{line}  =>  {out}");
    }
    let op = line.split_whitespace().next().unwrap_or("");
    let fl = fk_letter(g.f);
    let res = out.split_whitespace().next().unwrap_or("").to_string();
    let slot = kv_u64(line, "m").unwrap_or(0);
    let kind = sut.minters.get(&slot).map(|m| m.kind.name()).unwrap_or("-");
    match op {
        "upd" => {
            let u = Upd::parse(line);
            mark_upd(ses, g.f, &u, &res);
            ses.step(sut, "qp");
            if u.add.is_some() || u.rm.is_some() {
                ses.step(sut, "qids");
            }
        }
        "mignone" => {
            ses.mark(format!("{fl}:mignone:{res}"));
            ses.step(sut, "qp");
        }
        "create" => {
            g.after_create(line, &out);
            ses.mark(format!("{fl}:create:{res}:{kind}:stt{}:num{}", (kv(line, "stt") != Some("-")) as u8, (kv(line, "num") != Some("-")) as u8));
            if res == "ok" {
                ses.step(sut, &format!("qm m={slot}"));
                ses.step(sut, &format!("qs m={slot}"));
            }
        }
        "mint" | "airdrop" | "shuffle" => {
            let zero_fee = out.contains("fee=0 ");
            ses.mark(format!("{fl}:{op}:{res}:{kind}:feezero{}", zero_fee as u8));
            if res == "ok" {
                ses.step(sut, &format!("qm m={slot}"));
            }
        }
        "pal" | "price" => {
            ses.mark(format!("{fl}:{op}:{res}:{kind}"));
            if res == "ok" {
                ses.step(sut, &format!("qm m={slot}"));
            }
        }
        "setwl" => ses.mark(format!("{fl}:{op}:{res}:{kind}")),
        "ustt" => ses.mark(format!("{fl}:{op}:{res}:{kind}:t{}", (kv(line, "t") != Some("-")) as u8)),
        "status" => {
            ses.mark(format!("{op}:{res}:{kind}:{}{}{}", kv(line, "v").unwrap_or("?"), kv(line, "b").unwrap_or("?"), kv(line, "e").unwrap_or("?")));
            ses.step(sut, &format!("qs m={slot}"));
        }
        _ => {}
    }
    out
}

/// Part B: random interleavings of governance updates with creations, mints, airdrops and admin operations
fn part_world(ses: &mut Session, sut: &mut S, codes: &Codes) {
    let cases = ses.scale(30, 2000);
    let len = ses.scale(70, 90);
    for i in 0..cases {
        for f in ALL_F {
            let fam: Vec<MinterKind> = ALL_MINTERS.iter().copied().filter(|k| k.factory() == f).collect();
            let kind = fam[(i as usize) % fam.len()];
            let p = sane_params(&mut ses.rng, kind, codes);
            let ext = ses.rng.chance(1, 2);
            let header = format!("{} part=world", params_header(f, codes, &p, ext));
            ses.begin_case(sut, &header);
            let mut g = Gen::new(f);
            // start with a creation that is meant to succeed
            let l = g.create_line(&mut ses.rng, sut, codes, true);
            run_op(ses, sut, &mut g, &l);
            for _ in 0..len {
                let l = g.world_op(&mut ses.rng, sut, codes);
                run_op(ses, sut, &mut g, &l);
            }
            ses.end_case();
        }
    }
}

/// Part C: all 8 flag combinations on all 11 minters (twice, in random order), interleaved with mints / airdrops and
/// governance updates of the factory (the status must survive all of them: `C18_status_frame`)
fn part_status(ses: &mut Session, sut: &mut S, codes: &Codes) {
    let rounds = ses.scale(2, 6);
    for kind in ALL_MINTERS {
        let f = kind.factory();
        let mut p = sane_params(&mut ses.rng, kind, codes);
        p.max_token_limit = 300;
        p.max_per_address_limit = 3;
        p.creation_fee = (0, 1000);
        let header = format!("{} part=status kind={}", params_header(f, codes, &p, false), kind.name());
        ses.begin_case(sut, &header);
        let mut g = Gen::new(f);
        let l = g.create_line(&mut ses.rng, sut, codes, true);
        let out = run_op(ses, sut, &mut g, &l);
        if !out.starts_with("ok") {
            ses.note(format!("status part: could not create {}", kind.name()));
        }
        // a second minter of the same factory: its status must not move when the first one's is updated
        let l = g.create_line(&mut ses.rng, sut, codes, true);
        run_op(ses, sut, &mut g, &l);
        for _ in 0..rounds {
            let mut combos: Vec<u8> = (0..8).collect();
            ses.rng.shuffle(&mut combos);
            for c in combos {
                let l = format!("status m=1 v={} b={} e={}", c & 1, (c >> 1) & 1, (c >> 2) & 1);
                run_op(ses, sut, &mut g, &l);
                ses.step(sut, "qs m=2");
                match ses.rng.below(6) {
                    0 | 1 => {
                        let l = if kind == MinterKind::TokenMerge || ses.rng.chance(1, 3) && kind != MinterKind::Base { g.airdrop_line(&mut ses.rng, sut, 1, true) } else { g.mint_line(&mut ses.rng, sut, 1, true) };
                        run_op(ses, sut, &mut g, &l);
                        ses.step(sut, "qs m=1");
                    }
                    2 => {
                        let l = sane_upd(&mut ses.rng, f, &["off"], codes).line();
                        run_op(ses, sut, &mut g, &l);
                        ses.step(sut, "qs m=1");
                    }
                    _ => {}
                }
            }
        }
        ses.end_case();
    }
    ses.note("status: all 8 flag combinations on all 11 minter kinds, each followed by the Status query (and the Status of a second minter)".to_string());
}

/// Part D: directed "live reading" scenarios on every minter kind: change ONE parameter between two creations / mints /
/// admin calls with the boundary value on both sides, and the values captured at creation.
fn part_directed(ses: &mut Session, sut: &mut S, codes: &Codes) {
    for kind in ALL_MINTERS {
        let f = kind.factory();
        let fl = fk_letter(f);
        let p = FactoryParams {
            code_id: codes.minters[kind.idx()],
            allowed_sg721_code_ids: vec![codes.sg721_base, codes.sg721_updatable],
            frozen: false,
            creation_fee: (0, 1000),
            min_mint_price: (0, 1000),
            mint_fee_bps: 1000,
            max_trading_offset_secs: 10,
            max_token_limit: 100,
            max_per_address_limit: 3,
            airdrop_mint_price: (0, 500),
            airdrop_mint_fee_bps: 5000,
            shuffle_fee: (0, 100),
            dev_fee_address: 61,
        };
        let header = format!("{} part=directed kind={}", params_header(f, codes, &p, false), kind.name());
        ses.begin_case(sut, &header);
        let mut g = Gen::new(f);
        let base = f == FactoryKind::Base;
        let has_max = !base;
        let sg0 = codes.sg721_base;
        let sg1 = codes.sg721_updatable;
        // helpers -----------------------------------------------------------------------------------------------
        macro_rules! go {
            ($($arg:tt)*) => {{ let l = format!($($arg)*); let o = run_op(ses, sut, &mut g, &l); ses.mark(format!("{fl}:directed:{}:{}:{}", kind.name(), l.split_whitespace().next().unwrap_or("?"), o.split_whitespace().next().unwrap_or("?"))); o }};
        }
        macro_rules! create {
            ($sg:expr, $num:expr, $pal:expr, $price:expr, $funds:expr, $stt:expr) => {{
                let start = g.now + 1000 * SEC;
                let num: Option<u64> = if base { None } else { $num };
                let stt: Option<i128> = $stt;
                let stt_s = fmt_opt(&stt.map(|d| (start as i128 + d) as u128));
                go!("create m={} sg721={} num={} pal={} price={} funds={} start={} now={} stt={}", g.next_slot, $sg, fmt_opt(&num), $pal, fmt_coin($price), funds_str($funds), start, g.now, stt_s)
            }};
        }
        // 1. creation, then a mint whose fee split uses the CURRENT mint_fee_bps ------------------------------------
        create!(sg0, Some(100), 3, (0, 10_000), (0, 1000), None);
        // 1a. SetWhitelist (before the sale starts) reads the CURRENT minimum price
        if matches!(f, FactoryKind::Vending | FactoryKind::OpenEdition) {
            go!("setwl m=1 now={} wlp=0:999", g.now);
            go!("setwl m=1 now={} wlp=0:1000", g.now);
            go!("upd minp=0:1001 nulls=0 via=s");
            go!("setwl m=1 now={} wlp=0:1000", g.now);
            go!("setwl m=1 now={} wlp=0:1001", g.now);
            go!("upd minp=0:1000 nulls=1 via=m");
            go!("setwl m=1 now={} wlp=0:1000", g.now);
        }
        let start1 = g.made.get(&1).map(|x| x.0).unwrap_or(g.now);
        if f != FactoryKind::TokenMerge {
            g.now = g.now.max(if base { g.now } else { start1 });
            let due = |bps: u128| if base { 1000 * bps / 10_000 } else { 10_000 };
            g.next_buyer += 1;
            go!("mint m=1 now={} buyer={} funds=0:{}", g.now, g.next_buyer, due(1000));
            go!("upd bps=250 nulls=0 via=s");
            g.next_buyer += 1;
            if base {
                go!("mint m=1 now={} buyer={} funds=0:{}", g.now, g.next_buyer, due(1000)); // stale amount: refused
            }
            go!("mint m=1 now={} buyer={} funds=0:{}", g.now, g.next_buyer, due(250));
            // the same through the migrate path: the next mint observes it at once
            go!("upd bps=500 nulls=0 via=m");
            g.next_buyer += 1;
            go!("mint m=1 now={} buyer={} funds=0:{}", g.now, g.next_buyer, due(500));
            go!("mignone");
            g.next_buyer += 1;
            go!("mint m=1 now={} buyer={} funds=0:{}", g.now, g.next_buyer, due(500));
            go!("upd bps=250 nulls=1 via=s");
            // captured: base minter keeps the min price it was created with
            if base {
                go!("upd minp=0:4000 nulls=1 via=s");
                go!("mint m=1 now={} buyer={} funds=0:{}", g.now, g.next_buyer, 4000 * 250 / 10_000); // new price x bps: refused
                go!("mint m=1 now={} buyer={} funds=0:{}", g.now, g.next_buyer, due(250));
                go!("qm m=1");
                create!(sg0, None, 1, (0, 0), (0, 1000), None); // a NEW base minter captures the new price
                go!("qm m={}", g.next_slot - 1);
                go!("mint m={} now={} buyer={} funds=0:{}", g.next_slot - 1, g.now, g.next_buyer, 4000 * 250 / 10_000);
                go!("upd minp=0:1000 nulls=0 via=s");
            }
        }
        // 2. frozen stops creation ---------------------------------------------------------------------------------
        go!("upd frozen=1 nulls=0 via=s");
        create!(sg0, Some(10), 1, (0, 10_000), (0, 1000), None);
        go!("upd frozen=0 nulls=1 via=m");
        create!(sg0, Some(10), 1, (0, 10_000), (0, 1000), None);
        // 3. allowed collection code ids ---------------------------------------------------------------------------
        go!("upd rm={} nulls=0 via=s", sg0);
        go!("qid x={}", sg0);
        create!(sg0, Some(10), 1, (0, 10_000), (0, 1000), None);
        create!(sg1, Some(10), 1, (0, 10_000), (0, 1000), None);
        go!("upd add={},{} rm=77 nulls=0 via=s", sg0, sg0);
        go!("qids");
        create!(sg0, Some(10), 1, (0, 10_000), (0, 1000), None);
        go!("upd add=77 rm=77 nulls=0 via=s"); // additions before removals: 77 ends up absent
        go!("qid x=77");
        go!("upd add=77 nulls=0 via=s"); // the same update twice in the same block: idempotent on the set
        go!("upd add=77 nulls=0 via=s");
        go!("qids");
        go!("upd rm=77 nulls=0 via=s");
        go!("qid x=77");
        go!("upd add={} nulls=0 via=m", sg1); // a non-consecutive duplicate stays in the stored LIST (C18_ids_nodup_counterexample)
        go!("qids");
        // 3b. lists longer than any page size (the code-id queries are not paginated): 101 additions, 26 removals
        let many: Vec<u64> = (5000..5101).collect();
        go!("upd add={} nulls=0 via=s", fmt_list(&many));
        go!("qids");
        go!("qid x=5100");
        go!("upd rm={} nulls=0 via=m", fmt_list(&many[..26]));
        go!("qids");
        go!("qid x=5025");
        go!("qid x=5026");
        go!("upd rm={} nulls=1 via=s", fmt_list(&many));
        go!("qids");
        // 4. creation fee (amount and denom) -----------------------------------------------------------------------
        go!("upd cfee=0:2000 nulls=0 via=s");
        create!(sg0, Some(10), 1, (0, 10_000), (0, 1999), None);
        create!(sg0, Some(10), 1, (0, 10_000), (0, 2000), None);
        go!("upd cfee=1:2000 nulls=0 via=s");
        create!(sg0, Some(10), 1, (0, 10_000), (0, 2000), None);
        create!(sg0, Some(10), 1, (0, 10_000), (1, 2000), None);
        go!("upd cfee=0:1000 nulls=0 via=s");
        // 5. maxima ------------------------------------------------------------------------------------------------
        if has_max {
            go!("upd mtl=99 nulls=0 via=s");
            create!(sg0, Some(100), 3, (0, 10_000), (0, 1000), None);
            create!(sg0, Some(99), 3, (0, 10_000), (0, 1000), None);
            go!("upd mtl=100 nulls=0 via=s");
            create!(sg0, Some(100), 3, (0, 10_000), (0, 1000), None);
            go!("upd mpal=2 nulls=0 via=s");
            go!("pal m=1 limit=3");
            go!("pal m=1 limit=2");
            create!(sg0, Some(100), 3, (0, 10_000), (0, 1000), None);
            create!(sg0, Some(100), 2, (0, 10_000), (0, 1000), None);
            go!("upd mpal=3 nulls=1 via=s");
            go!("pal m=1 limit=3");
            go!("pal m=1 limit=4");
            go!("upd mpal=50 nulls=1 via=s");
            go!("pal m=1 limit=4"); // 3 % rule (where the variant has it) still caps 100 tokens at 3
        }
        // 6. minimum mint price ------------------------------------------------------------------------------------
        if matches!(f, FactoryKind::Vending | FactoryKind::OpenEdition) {
            go!("upd minp=0:20000 nulls=0 via=s");
            create!(sg0, Some(10), 1, (0, 19_999), (0, 1000), None);
            create!(sg0, Some(10), 1, (0, 20_000), (0, 1000), None);
            let fresh = g.next_slot - 1;
            go!("price m={} now={} p=19999", fresh, g.now);
            go!("price m={} now={} p=20000", fresh, g.now);
            go!("upd minp=0:5 nulls=0 via=s");
            go!("price m={} now={} p=19999", fresh, g.now);
            go!("price m={} now={} p=4", fresh, g.now);
            go!("upd minp=1:5 nulls=0 via=s"); // non-native: refused, nothing changes
            go!("qp");
            go!("upd minp=2:5 bps=1 nulls=1 via=m"); // … through migrate too, whatever else the message carries
            go!("qp");
            go!("upd minp=0:1000 nulls=0 via=s");
        }
        if base {
            go!("upd minp=1:5 nulls=0 via=s");
            go!("upd minp=2:5 frozen=1 nulls=1 via=m");
            go!("qp");
        }
        // 7. airdrop price / fee, shuffle fee ----------------------------------------------------------------------
        if has_max {
            go!("airdrop m=1 funds=0:500");
            go!("upd adp=0:700 adbps=2500 nulls=0 via=s");
            go!("airdrop m=1 funds=0:500");
            go!("airdrop m=1 funds=0:700");
            go!("upd adbps=0 nulls=0 via=s");
            go!("airdrop m=1 funds=0:700");
            if f == FactoryKind::OpenEdition {
                go!("upd adp=2:900 dev=67 nulls=0 via=s"); // open edition accepts a non-native airdrop price
                go!("airdrop m=1 funds=0:900");
                go!("airdrop m=1 funds=2:900");
                go!("upd adbps=5000 nulls=0 via=s");
                go!("airdrop m=1 funds=2:900");
                go!("upd adp=0:900 nulls=0 via=s");
                go!("airdrop m=1 funds=0:900"); // developer share to the CURRENT dev_fee_address (67)
                go!("upd dev=63 nulls=0 via=m");
                go!("airdrop m=1 funds=0:900");
                // F-C18c: the message's own `extension.min_mint_price` is a dead field — accepted and ignored, in any denom,
                // with and without the top-level field; the minimum price observed later is the one set by `min_mint_price`
                go!("upd xminp=0:123456 nulls=0 via=s");
                go!("qp");
                go!("upd xminp=1:7 nulls=0 via=s");
                go!("qp");
                go!("upd xminp=2:7 mpal=3 nulls=1 via=m");
                go!("qp");
                go!("upd xminp=1:7 minp=0:1000 nulls=1 via=s");
                go!("qp");
                go!("upd xminp=0:7 minp=0:1000 nulls=0 via=m");
                go!("upd xminp=0:7 minp=1:1000 nulls=0 via=s"); // refused: the TOP-LEVEL field is non-native
                go!("upd xminp=1:7 minp=1:1000 nulls=0 via=s");
                go!("qp");
                create!(sg0, Some(10), 1, (0, 999), (0, 1000), None); // still the minimum price that was set: 1000 native
                create!(sg0, Some(10), 1, (0, 1000), (0, 1000), None);
                go!("price m={} now={} p=999", g.next_slot - 1, g.now);
            } else {
                go!("upd adp=2:900 nulls=0 via=s"); // refused
                go!("qp");
            }
        }
        if matches!(f, FactoryKind::Vending | FactoryKind::TokenMerge) {
            g.next_buyer += 1;
            go!("shuffle m=1 buyer={} funds=0:100", g.next_buyer);
            go!("upd shuf=0:300 nulls=0 via=s");
            go!("shuffle m=1 buyer={} funds=0:100", g.next_buyer);
            go!("shuffle m=1 buyer={} funds=0:299", g.next_buyer);
            go!("shuffle m=1 buyer={} funds=0:300", g.next_buyer);
            go!("upd shuf=1:300 nulls=0 via=s"); // refused
        }
        // 8. trading offset ----------------------------------------------------------------------------------------
        {
            let off = |secs: u64| secs as i128 * SEC as i128;
            create!(sg0, Some(10), 1, (0, 10_000), (0, 1000), Some(off(10)));
            create!(sg0, Some(10), 1, (0, 10_000), (0, 1000), Some(off(10) + 1));
            go!("upd off=5 nulls=0 via=s");
            create!(sg0, Some(10), 1, (0, 10_000), (0, 1000), Some(off(5) + 1));
            create!(sg0, Some(10), 1, (0, 10_000), (0, 1000), Some(off(5)));
            let m = g.next_slot - 1;
            let st = g.made.get(&m).map(|x| x.0).unwrap_or(g.now);
            go!("ustt m={} now={} t={}", m, g.now, st + 5 * SEC + 1);
            go!("ustt m={} now={} t={}", m, g.now, st + 5 * SEC);
            go!("upd off=6 nulls=0 via=m");
            go!("ustt m={} now={} t={}", m, g.now, st + 5 * SEC + 1);
            go!("ustt m={} now={} t={}", m, g.now, st + 6 * SEC + 1);
            go!("ustt m={} now={} t=-", m, g.now);
        }
        // 9. the open-edition cap is captured at creation (not by the wl-flex variant) ------------------------------
        if f == FactoryKind::OpenEdition {
            create!(sg0, None, 1, (0, 10_000), (0, 1000), None);
            let m = g.next_slot - 1;
            go!("upd mtl=5 nulls=0 via=s");
            go!("qm m={}", m);
            go!("upd adp=0:0 nulls=0 via=s");
            create!(sg0, None, 1, (0, 10_000), (0, 1000), None); // zero airdrop price needs a token limit
            go!("airdrop m={} funds=-", m);
            go!("upd adp=0:700 mtl=100 nulls=0 via=s");
        }
        // 10. code id: the NEXT creation instantiates the new minter code --------------------------------------------
        let fam = family_codes(f, codes);
        let pos = fam.iter().position(|c| *c == codes.minters[kind.idx()]).unwrap_or(0);
        let next_code = fam[(pos + 1) % fam.len()];
        go!("upd code={} nulls=0 via=s", next_code);
        create!(sg0, Some(100), 3, (0, 10_000), (0, 1000), None);
        let m = g.next_slot - 1;
        go!("qm m={}", m);
        if f != FactoryKind::TokenMerge && !base {
            let st = g.made.get(&m).map(|x| x.0).unwrap_or(g.now);
            g.now = g.now.max(st);
            g.next_buyer += 1;
            go!("mint m={} now={} buyer={} funds=0:10000", m, g.now, g.next_buyer);
            go!("upd bps=10001 nulls=0 via=s"); // fee above the price: the mint aborts
            go!("mint m={} now={} buyer={} funds=0:10000", m, g.now, g.next_buyer);
            go!("upd bps=10000 nulls=0 via=s");
            go!("mint m={} now={} buyer={} funds=0:10000", m, g.now, g.next_buyer);
        }
        go!("upd code=9999 nulls=0 via=s");
        create!(sg0, Some(10), 1, (0, 10_000), (0, 1000), None);
        go!("qp");
        ses.end_case();
    }
    ses.note("directed: one parameter changed between two creations / mints / admin calls at the boundary value, on all 11 minter kinds; updates by sudo and by migrate".to_string());
}
