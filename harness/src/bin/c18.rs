//! C18 — governance updates take effect exactly as submitted.
//! Real factories (4) and minters (11) inside one cw-multi-test `App` vs `LP.Gov` (Lean). See docs/C18.md.
use lp_harness::minters::*;
use lp_harness::world::{addr, denom_id, ID_FAIRBURN_POOL, ID_LAUNCHPAD_DAO, ID_LIQUIDITY_DAO};
use lp_harness::*;
use serde_json::{json, Map, Value};
use std::collections::{BTreeMap, BTreeSet};

const ADMIN: u64 = 10;
const DEV_IDS: std::ops::RangeInclusive<u64> = 60..=69;
const DAY: u64 = 86_400_000_000_000;
const T0: u64 = GENESIS + 1_000_000_000_000;

// ------------------------------------------------------------------------------------------------ update lines

/// one `upd` line, parsed (a `None` = field omitted)
#[derive(Clone, Debug, Default)]
struct Upd {
    code: Option<u64>,
    add: Option<Vec<u64>>,
    rm: Option<Vec<u64>>,
    frozen: Option<bool>,
    cfee: Option<(u64, u128)>,
    minp: Option<(u64, u128)>,
    bps: Option<u64>,
    off: Option<u64>,
    mtl: Option<u64>,
    mpal: Option<u64>,
    adp: Option<(u64, u128)>,
    adbps: Option<u64>,
    shuf: Option<(u64, u128)>,
    xminp: Option<(u64, u128)>,
    dev: Option<u64>,
    ext: Option<bool>,
    nulls: bool,
}

fn kv_coin(line: &str, key: &str) -> Option<(u64, u128)> {
    let v = kv(line, key)?;
    let (d, a) = v.split_once(':')?;
    Some((d.parse().ok()?, a.parse().ok()?))
}
fn kv_ids(line: &str, key: &str) -> Option<Vec<u64>> {
    kv_list(line, key).map(|v| v.into_iter().map(|x| x as u64).collect())
}
fn fmt_coin(c: (u64, u128)) -> String {
    format!("{}:{}", c.0, c.1)
}

impl Upd {
    fn parse(line: &str) -> Upd {
        Upd {
            code: kv_u64(line, "code"),
            add: kv_ids(line, "add"),
            rm: kv_ids(line, "rm"),
            frozen: kv_bool(line, "frozen"),
            cfee: kv_coin(line, "cfee"),
            minp: kv_coin(line, "minp"),
            bps: kv_u64(line, "bps"),
            off: kv_u64(line, "off"),
            mtl: kv_u64(line, "mtl"),
            mpal: kv_u64(line, "mpal"),
            adp: kv_coin(line, "adp"),
            adbps: kv_u64(line, "adbps"),
            shuf: kv_coin(line, "shuf"),
            xminp: kv_coin(line, "xminp"),
            dev: kv_u64(line, "dev"),
            ext: kv_bool(line, "ext"),
            nulls: kv_bool(line, "nulls").unwrap_or(false),
        }
    }
    fn line(&self) -> String {
        let mut s = String::from("upd");
        let mut put = |k: &str, v: Option<String>| {
            if let Some(v) = v {
                s.push_str(&format!(" {k}={v}"));
            }
        };
        put("code", self.code.map(|x| x.to_string()));
        put("add", self.add.as_ref().map(|x| fmt_list(x)));
        put("rm", self.rm.as_ref().map(|x| fmt_list(x)));
        put("frozen", self.frozen.map(|b| (b as u8).to_string()));
        put("cfee", self.cfee.map(fmt_coin));
        put("minp", self.minp.map(fmt_coin));
        put("bps", self.bps.map(|x| x.to_string()));
        put("off", self.off.map(|x| x.to_string()));
        put("mtl", self.mtl.map(|x| x.to_string()));
        put("mpal", self.mpal.map(|x| x.to_string()));
        put("adp", self.adp.map(fmt_coin));
        put("adbps", self.adbps.map(|x| x.to_string()));
        put("shuf", self.shuf.map(fmt_coin));
        put("xminp", self.xminp.map(fmt_coin));
        put("dev", self.dev.map(|x| x.to_string()));
        put("ext", self.ext.map(|b| (b as u8).to_string()));
        put("nulls", Some((self.nulls as u8).to_string()));
        s
    }
    /// the real sudo message for a factory kind (only that factory's fields are emitted; cw_serde denies unknown fields)
    fn to_json(&self, f: FactoryKind) -> Value {
        let nulls = self.nulls;
        let put = |m: &mut Map<String, Value>, k: &str, v: Option<Value>| match v {
            Some(v) => {
                m.insert(k.into(), v);
            }
            None if nulls => {
                m.insert(k.into(), Value::Null);
            }
            None => {}
        };
        let mut top = Map::new();
        put(&mut top, "code_id", self.code.map(|x| json!(x)));
        put(&mut top, "add_sg721_code_ids", self.add.as_ref().map(|x| json!(x)));
        put(&mut top, "rm_sg721_code_ids", self.rm.as_ref().map(|x| json!(x)));
        put(&mut top, "frozen", self.frozen.map(|x| json!(x)));
        put(&mut top, "creation_fee", self.cfee.map(jcoin));
        if f != FactoryKind::TokenMerge {
            put(&mut top, "min_mint_price", self.minp.map(jcoin));
            put(&mut top, "mint_fee_bps", self.bps.map(|x| json!(x)));
        }
        put(&mut top, "max_trading_offset_secs", self.off.map(|x| json!(x)));
        let mut ext = Map::new();
        match f {
            FactoryKind::Vending | FactoryKind::TokenMerge => {
                put(&mut ext, "max_token_limit", self.mtl.map(|x| json!(x)));
                put(&mut ext, "max_per_address_limit", self.mpal.map(|x| json!(x)));
                put(&mut ext, "airdrop_mint_price", self.adp.map(jcoin));
                put(&mut ext, "airdrop_mint_fee_bps", self.adbps.map(|x| json!(x)));
                put(&mut ext, "shuffle_fee", self.shuf.map(jcoin));
                top.insert("extension".into(), Value::Object(ext));
            }
            FactoryKind::OpenEdition => {
                put(&mut ext, "max_token_limit", self.mtl.map(|x| json!(x)));
                put(&mut ext, "max_per_address_limit", self.mpal.map(|x| json!(x)));
                put(&mut ext, "min_mint_price", self.xminp.map(jcoin));
                put(&mut ext, "airdrop_mint_fee_bps", self.adbps.map(|x| json!(x)));
                put(&mut ext, "airdrop_mint_price", self.adp.map(jcoin));
                put(&mut ext, "dev_fee_address", self.dev.map(|x| json!(addr(x))));
                top.insert("extension".into(), Value::Object(ext));
            }
            FactoryKind::Base => {
                // `extension: Option<Empty>`: Some(Empty{}) = {}, None = null / absent
                if self.ext == Some(true) {
                    top.insert("extension".into(), json!({}));
                } else if nulls {
                    top.insert("extension".into(), Value::Null);
                }
            }
        }
        json!({ "update_params": Value::Object(top) })
    }
}

// ------------------------------------------------------------------------------------------------ params JSON -> canonical

fn fk_letter(f: FactoryKind) -> &'static str {
    match f {
        FactoryKind::Vending => "V",
        FactoryKind::OpenEdition => "O",
        FactoryKind::TokenMerge => "T",
        FactoryKind::Base => "B",
    }
}
fn fk_of(s: &str) -> FactoryKind {
    match s {
        "V" => FactoryKind::Vending,
        "O" => FactoryKind::OpenEdition,
        "T" => FactoryKind::TokenMerge,
        _ => FactoryKind::Base,
    }
}

/// flat view of a Params query answer: name -> canonical value string
fn flat_params(f: FactoryKind, p: &Value) -> BTreeMap<&'static str, String> {
    let jc = |v: &Value| -> String {
        format!("{}:{}", denom_id(v["denom"].as_str().unwrap_or("?")), v["amount"].as_str().unwrap_or("?"))
    };
    let ju = |v: &Value| -> String { v.as_u64().map(|x| x.to_string()).unwrap_or_else(|| format!("?{v}")) };
    let mut m = BTreeMap::new();
    m.insert("code", ju(&p["code_id"]));
    let ids: Vec<u64> = p["allowed_sg721_code_ids"].as_array().map(|a| a.iter().filter_map(|x| x.as_u64()).collect()).unwrap_or_default();
    m.insert("ids", fmt_list(&ids));
    m.insert("frozen", (p["frozen"].as_bool().unwrap_or(false) as u8).to_string());
    m.insert("cfee", jc(&p["creation_fee"]));
    m.insert("off", ju(&p["max_trading_offset_secs"]));
    if f != FactoryKind::TokenMerge {
        m.insert("minp", jc(&p["min_mint_price"]));
        m.insert("bps", ju(&p["mint_fee_bps"]));
    }
    let e = if f == FactoryKind::TokenMerge { p } else { &p["extension"] };
    match f {
        FactoryKind::Vending | FactoryKind::TokenMerge => {
            m.insert("mtl", ju(&e["max_token_limit"]));
            m.insert("mpal", ju(&e["max_per_address_limit"]));
            m.insert("adp", jc(&e["airdrop_mint_price"]));
            m.insert("adbps", ju(&e["airdrop_mint_fee_bps"]));
            m.insert("shuf", jc(&e["shuffle_fee"]));
        }
        FactoryKind::OpenEdition => {
            m.insert("mtl", ju(&e["max_token_limit"]));
            m.insert("mpal", ju(&e["max_per_address_limit"]));
            m.insert("adp", jc(&e["airdrop_mint_price"]));
            m.insert("adbps", ju(&e["airdrop_mint_fee_bps"]));
            m.insert("dev", lp_harness::world::addr_id(e["dev_fee_address"].as_str().unwrap_or("?")).to_string());
        }
        FactoryKind::Base => {
            m.insert("ext", (!e.is_null() as u8).to_string());
        }
    }
    m
}
const ORDER: [&str; 15] = ["code", "ids", "frozen", "cfee", "minp", "bps", "off", "mtl", "mpal", "adp", "adbps", "shuf", "dev", "ext", "-"];
fn render_flat(m: &BTreeMap<&'static str, String>) -> String {
    ORDER.iter().filter_map(|k| m.get(k).map(|v| format!("{k}={v}"))).collect::<Vec<_>>().join(" ")
}

// ------------------------------------------------------------------------------------------------ the system under test

struct MinterH {
    addr: String,
    kind: MinterKind,
}

struct S {
    w: World,
    f: FactoryKind,
    factory: String,
    minters: BTreeMap<u64, MinterH>,
    tm_source: Option<String>,
    log: Vec<String>,
    rebuilding: bool,
    /// monitor finding produced by the last op
    finding: Option<(String, String)>,
    panics: u64,
    cur_sender: Option<u64>,
}

fn header_params(h: &str) -> FactoryParams {
    FactoryParams {
        code_id: kv_u64(h, "code").unwrap(),
        allowed_sg721_code_ids: kv_ids(h, "ids").unwrap(),
        frozen: kv_bool(h, "frozen").unwrap(),
        creation_fee: kv_coin(h, "cfee").unwrap(),
        min_mint_price: kv_coin(h, "minp").unwrap(),
        mint_fee_bps: kv_u64(h, "bps").unwrap(),
        max_trading_offset_secs: kv_u64(h, "off").unwrap(),
        max_token_limit: kv_u64(h, "mtl").unwrap() as u32,
        max_per_address_limit: kv_u64(h, "mpal").unwrap() as u32,
        airdrop_mint_price: kv_coin(h, "adp").unwrap(),
        airdrop_mint_fee_bps: kv_u64(h, "adbps").unwrap(),
        shuffle_fee: kv_coin(h, "shuf").unwrap(),
        dev_fee_address: kv_u64(h, "dev").unwrap(),
    }
}
fn params_header(f: FactoryKind, codes: &Codes, p: &FactoryParams, ext: bool) -> String {
    let colls = [codes.sg721_base, codes.sg721_updatable];
    format!(
        "case f={} codes={} colls={} code={} ids={} frozen={} cfee={} minp={} bps={} off={} mtl={} mpal={} adp={} adbps={} shuf={} dev={} ext={}",
        fk_letter(f), fmt_list(&codes.minters), fmt_list(&colls), p.code_id, fmt_list(&p.allowed_sg721_code_ids), p.frozen as u8,
        fmt_coin(p.creation_fee), fmt_coin(p.min_mint_price), p.mint_fee_bps, p.max_trading_offset_secs, p.max_token_limit,
        p.max_per_address_limit, fmt_coin(p.airdrop_mint_price), p.airdrop_mint_fee_bps, fmt_coin(p.shuffle_fee), p.dev_fee_address, ext as u8
    )
}

fn funds_of(line: &str) -> Vec<(u64, u128)> {
    kv_pairs(line, "funds").unwrap_or_default().into_iter().map(|(d, a)| (d as u64, a)).collect()
}

impl S {
    fn new() -> S {
        S { w: World::new(T0), f: FactoryKind::Base, factory: String::new(), minters: BTreeMap::new(), tm_source: None, log: vec![], rebuilding: false, finding: None, panics: 0, cur_sender: None }
    }
    fn params_json(&self) -> Value {
        self.w.query(&self.factory, &json!({"params":{}})).map(|v| v["params"].clone()).unwrap_or(Value::Null)
    }
    fn flat(&self) -> BTreeMap<&'static str, String> {
        flat_params(self.f, &self.params_json())
    }
    fn kind_by_code(&self, a: &str) -> Option<MinterKind> {
        let code = self.w.app.contract_data(&cosmwasm_std::Addr::unchecked(a)).ok()?.code_id;
        self.w.codes.minters.iter().position(|c| *c == code).map(MinterKind::from_idx)
    }
    fn any_kind(&self) -> MinterKind {
        match self.f {
            FactoryKind::Vending => MinterKind::Vending,
            FactoryKind::OpenEdition => MinterKind::OpenEdition,
            FactoryKind::TokenMerge => MinterKind::TokenMerge,
            FactoryKind::Base => MinterKind::Base,
        }
    }
    fn start(&mut self, header: &str) {
        self.w = World::new(kv_u64(header, "t0").unwrap_or(T0));
        self.f = fk_of(kv(header, "f").unwrap_or("B"));
        self.minters.clear();
        self.tm_source = None;
        for d in 0..3 {
            self.w.fund(&addr(ADMIN), d, 1u128 << 110);
        }
        if self.f == FactoryKind::TokenMerge {
            let pb = self.w.default_params(MinterKind::Base);
            let fb = self.w.new_factory(FactoryKind::Base, &pb).expect("aux base factory");
            let ab = self.w.default_create(MinterKind::Base, &pb);
            let (_m, c) = self.w.create_minter(&fb, MinterKind::Base, &ab).expect("aux base minter");
            self.tm_source = Some(c);
        }
        let p = header_params(header);
        let mut j = p.to_json(self.f);
        if self.f == FactoryKind::Base && kv_bool(header, "ext") == Some(true) {
            j["extension"] = json!({});
        }
        let code = self.w.factory_code(self.f);
        self.factory = self.w.instantiate(code, &addr(90), &json!({ "params": j }), &[], None).expect("factory instantiate");
    }

    /// balances relevant to the money observation, in denom `d`
    fn snapshot(&self, d: u64) -> [u128; 6] {
        let dev: u128 = DEV_IDS.map(|i| self.w.balance(&addr(i), d)).sum();
        [
            dev,
            self.w.balance(&addr(ID_LIQUIDITY_DAO), d),
            self.w.balance(&addr(ID_LAUNCHPAD_DAO), d),
            self.w.balance(&addr(ADMIN), d),
            self.total(d),
            self.w.balance(&addr(ID_FAIRBURN_POOL), d),
        ]
    }
    /// sum of the balances of every account an operation of this harness can touch (cw-multi-test 1.2 has no Supply
    /// query): a decrease = coins burned
    fn total(&self, d: u64) -> u128 {
        let mut accts: BTreeSet<String> = BTreeSet::new();
        for i in [ADMIN, 1, ID_LAUNCHPAD_DAO, ID_LIQUIDITY_DAO, ID_FAIRBURN_POOL, 30, 90] {
            accts.insert(addr(i));
        }
        for i in DEV_IDS {
            accts.insert(addr(i));
        }
        accts.insert(self.factory.clone());
        for m in self.minters.values() {
            accts.insert(m.addr.clone());
        }
        if let Some(b) = self.cur_sender {
            accts.insert(addr(b));
        }
        accts.iter().map(|a| self.w.balance(a, d)).sum()
    }

    fn devs(&self, d: u64) -> Vec<u128> {
        DEV_IDS.map(|i| self.w.balance(&addr(i), d)).collect()
    }
    /// `id:amount` for every developer-fee account whose balance grew
    fn dev_deltas(&self, d: u64, before: &[u128]) -> String {
        let now = self.devs(d);
        let v: Vec<(u64, u128)> = DEV_IDS.zip(now.iter().zip(before.iter())).filter(|(_, (a, b))| a != b).map(|(i, (a, b))| (i, a - b)).collect();
        fmt_pairs(&v)
    }
    /// run a money-moving message and render who received what
    fn money_op(&mut self, sender: u64, contract: &str, msg: &Value, funds: &[(u64, u128)]) -> (String, bool, Option<[u128; 6]>) {
        let d = funds.first().map(|c| c.0).unwrap_or(0);
        self.cur_sender = Some(sender);
        if sender != ADMIN {
            for (fd, fa) in funds {
                self.w.fund(&addr(sender), *fd, *fa);
            }
        }
        let before = self.snapshot(d);
        let devs_before = self.devs(d);
        let r = self.w.exec(&addr(sender), contract, msg, funds);
        match r {
            Ok(_) => {
                let after = self.snapshot(d);
                let paid_by_admin: u128 = if sender == ADMIN { funds.iter().filter(|c| c.0 == d).map(|c| c.1).sum() } else { 0 };
                let dl = [
                    after[0] - before[0],
                    after[1] - before[1],
                    after[2] - before[2],
                    (after[3] + paid_by_admin).wrapping_sub(before[3]),
                    before[4] - after[4],
                    after[5] - before[5],
                ];
                (format!("ok dev={} liq={} lp={} seller={} burn={} pool={}", self.dev_deltas(d, &devs_before), dl[1], dl[2], dl[3], dl[4], dl[5]), false, Some(dl))
            }
            Err(e) => {
                dbg_err(&msg.to_string(), &e);
                ("err".into(), e.starts_with("panic"), None)
            }
        }
    }

    fn exec_inner(&mut self, line: &str) -> (String, bool) {
        let op = line.split_whitespace().next().unwrap_or("");
        if let Some(now) = kv_u64(line, "now") {
            if now != self.w.time() {
                self.w.set_time(now);
            }
        }
        let slot = kv_u64(line, "m");
        let minter = slot.and_then(|s| self.minters.get(&s)).map(|m| (m.addr.clone(), m.kind));
        let need_minter = matches!(op, "mint" | "airdrop" | "pal" | "shuffle" | "ustt" | "price" | "status" | "qs" | "qm");
        if need_minter && minter.is_none() {
            return ("err".into(), false);
        }
        match op {
            "upd" => {
                let u = Upd::parse(line);
                let before = self.flat();
                let r = self.w.sudo(&self.factory.clone(), &u.to_json(self.f));
                let after = self.flat();
                if !self.rebuilding {
                    self.finding = monitor_upd(self.f, &u, &before, &after, r.is_ok(), line);
                }
                match r {
                    Ok(_) => ("ok".into(), false),
                    Err(e) => {
                        dbg_err(line, &e);
                        ("err".into(), e.starts_with("panic"))
                    }
                }
            }
            "qp" => (format!("params {}", render_flat(&self.flat())), false),
            "qids" => {
                let v = self.w.query(&self.factory, &json!({"allowed_collection_code_ids":{}})).unwrap_or(Value::Null);
                let ids: Vec<u64> = v["code_ids"].as_array().map(|a| a.iter().filter_map(|x| x.as_u64()).collect()).unwrap_or_default();
                let flat = self.flat();
                if flat.get("ids") != Some(&fmt_list(&ids)) {
                    self.finding = Some((format!("{}-factory/qids/differs-from-params", fk_letter(self.f)), format!("AllowedCollectionCodeIds={:?} but Params has ids={:?}", ids, flat.get("ids"))));
                }
                (format!("list ids={}", fmt_list(&ids)), false)
            }
            "qid" => {
                let x = kv_u64(line, "x").unwrap();
                let v = self.w.query(&self.factory, &json!({"allowed_collection_code_id": x})).unwrap_or(Value::Null);
                let allowed = v["allowed"].as_bool().unwrap_or(false);
                let in_params = self.params_json()["allowed_sg721_code_ids"].as_array().map(|a| a.iter().any(|y| y.as_u64() == Some(x))).unwrap_or(false);
                if allowed != in_params {
                    self.finding = Some((format!("{}-factory/qid/differs-from-params", fk_letter(self.f)), format!("AllowedCollectionCodeId({x})={allowed} but membership in Params list is {in_params}")));
                }
                (format!("allowed={}", allowed as u8), false)
            }
            "create" => {
                let p0 = self.w.default_params(self.any_kind());
                let mut a = self.w.default_create(self.any_kind(), &p0);
                a.creator = ADMIN;
                a.sg721_code_id = kv_u64(line, "sg721").unwrap();
                a.num_tokens = kv_opt_u64(line, "num").unwrap().map(|x| x as u32);
                a.per_address_limit = kv_u64(line, "pal").unwrap() as u32;
                a.mint_price = kv_coin(line, "price").unwrap();
                a.funds = funds_of(line);
                a.start_time = kv_u64(line, "start").unwrap();
                a.end_time = if self.f == FactoryKind::OpenEdition { Some(a.start_time + 3650 * DAY) } else { None };
                a.start_trading_time = kv_opt_u64(line, "stt").unwrap();
                if let Some(c) = &self.tm_source {
                    a.mint_tokens = vec![(c.clone(), 1)];
                }
                let before_params = self.flat();
                let msg = create_minter_json(self.any_kind(), &a);
                let factory = self.factory.clone();
                // find the new minter = first new contract of a minter code id
                let (out, panicked, _) = {
                    let d = a.funds.first().map(|c| c.0).unwrap_or(0);
                    let before = self.snapshot(d);
                    let r = self.w.create_minter(&factory, self.any_kind(), &a);
                    let _ = msg;
                    match r {
                        Ok((m, _c)) => {
                            let after = self.snapshot(d);
                            let paid: u128 = a.funds.iter().filter(|c| c.0 == d).map(|c| c.1).sum();
                            let kind = self.kind_by_code(&m).unwrap_or(self.any_kind());
                            self.minters.insert(slot.unwrap(), MinterH { addr: m, kind });
                            (
                                format!("ok dev={} liq={} lp={} seller={} burn={} pool={}", if after[0] == before[0] { "-".to_string() } else { format!("?:{}", after[0] - before[0]) }, after[1] - before[1], after[2] - before[2], (after[3] + paid).wrapping_sub(before[3]), before[4] - after[4], after[5] - before[5]),
                                false,
                                (),
                            )
                        }
                        Err(e) => {
                            dbg_err(line, &e);
                            ("err".to_string(), e.starts_with("panic"), ())
                        }
                    }
                };
                if !self.rebuilding && out.starts_with("ok") {
                    self.finding = monitor_create(self.f, &before_params, line);
                }
                (out, panicked)
            }
            "mint" => {
                let (maddr, kind) = minter.unwrap();
                let funds = funds_of(line);
                let before_params = self.flat();
                let price = self.minter_price(&maddr, kind);
                let (sender, msg) = if kind == MinterKind::Base {
                    (ADMIN, json!({"mint":{"token_uri":"ipfs://bafybeigi3bwpvyvsmnbj46ra4hyffcxdeaj6ntfk5jpic5mx27x6ih2qvq/1.json"}}))
                } else if kind.is_merkle() {
                    (kv_u64(line, "buyer").unwrap(), json!({"mint":{"proof_hashes": null, "stage": null, "allocation": null}}))
                } else {
                    (kv_u64(line, "buyer").unwrap(), json!({"mint":{}}))
                };
                let (out, p, dl) = self.money_op(sender, &maddr, &msg, &funds);
                if let (Some(dl), false) = (dl, self.rebuilding) {
                    self.finding = monitor_mint(self.f, kind, &before_params, price, &dl, line);
                }
                (out, p)
            }
            "airdrop" => {
                let (maddr, kind) = minter.unwrap();
                let funds = funds_of(line);
                let before_params = self.flat();
                let (out, p, dl) = self.money_op(ADMIN, &maddr, &json!({"mint_to":{"recipient": addr(30)}}), &funds);
                if let (Some(dl), false) = (dl, self.rebuilding) {
                    self.finding = monitor_airdrop(self.f, kind, &before_params, &funds, &dl, line);
                }
                (out, p)
            }
            "shuffle" => {
                let (maddr, _) = minter.unwrap();
                let funds = funds_of(line);
                let before_params = self.flat();
                let (out, p, dl) = self.money_op(kv_u64(line, "buyer").unwrap(), &maddr, &json!({"shuffle":{}}), &funds);
                if let (Some(_), false) = (dl, self.rebuilding) {
                    let fee: u128 = before_params.get("shuf").and_then(|s| s.split_once(':')).and_then(|x| x.1.parse().ok()).unwrap_or(0);
                    let paid: u128 = funds.iter().map(|c| c.1).sum();
                    if paid < fee {
                        self.finding = Some((format!("{}-minter/shuffle/stale-shuffle-fee", fk_letter(self.f)), format!("shuffle accepted with {paid} < current shuffle fee {fee} on `{line}`")));
                    }
                }
                (out, p)
            }
            "pal" => {
                let (maddr, _) = minter.unwrap();
                let limit = kv_u64(line, "limit").unwrap();
                let before_params = self.flat();
                let r = self.w.exec(&addr(ADMIN), &maddr, &json!({"update_per_address_limit":{"per_address_limit": limit}}), &[]);
                if r.is_ok() && !self.rebuilding {
                    let max: u64 = before_params.get("mpal").and_then(|s| s.parse().ok()).unwrap_or(u64::MAX);
                    if limit > max {
                        self.finding = Some((format!("{}-minter/pal/stale-max-per-address-limit", fk_letter(self.f)), format!("UpdatePerAddressLimit({limit}) accepted although the factory's current max_per_address_limit is {max}")));
                    }
                }
                match r {
                    Ok(_) => ("ok".into(), false),
                    Err(e) => {
                        dbg_err(line, &e);
                        ("err".into(), e.starts_with("panic"))
                    }
                }
            }
            "ustt" => {
                let (maddr, _) = minter.unwrap();
                let t = kv_opt_u64(line, "t").unwrap();
                let r = self.w.exec(&addr(ADMIN), &maddr, &json!({"update_start_trading_time": jopt_time(t)}), &[]);
                match r {
                    Ok(_) => ("ok".into(), false),
                    Err(e) => {
                        dbg_err(line, &e);
                        ("err".into(), e.starts_with("panic"))
                    }
                }
            }
            "price" => {
                let (maddr, _) = minter.unwrap();
                let p = kv_u128(line, "p").unwrap();
                let before_params = self.flat();
                let r = self.w.exec(&addr(ADMIN), &maddr, &json!({"update_mint_price":{"price": p.to_string()}}), &[]);
                if r.is_ok() && !self.rebuilding {
                    let min: u128 = before_params.get("minp").and_then(|s| s.split_once(':')).and_then(|x| x.1.parse().ok()).unwrap_or(0);
                    if p < min {
                        self.finding = Some((format!("{}-minter/price/stale-min-mint-price", fk_letter(self.f)), format!("UpdateMintPrice({p}) accepted below the factory's current min_mint_price {min}")));
                    }
                }
                match r {
                    Ok(_) => ("ok".into(), false),
                    Err(e) => {
                        dbg_err(line, &e);
                        ("err".into(), e.starts_with("panic"))
                    }
                }
            }
            "status" => {
                let (maddr, kind) = minter.unwrap();
                let (v, b, e) = (kv_bool(line, "v").unwrap(), kv_bool(line, "b").unwrap(), kv_bool(line, "e").unwrap());
                let r = self.w.sudo(&maddr, &json!({"update_status":{"is_verified": v, "is_blocked": b, "is_explicit": e}}));
                if r.is_ok() && !self.rebuilding {
                    let got = self.status(&maddr);
                    if got != Some((v, b, e)) {
                        self.finding = Some((format!("{}/status/not-supplied-flags", kind.name()), format!("UpdateStatus({v},{b},{e}) accepted but Status returns {:?}", got)));
                    }
                }
                match r {
                    Ok(_) => ("ok".into(), false),
                    Err(e) => {
                        dbg_err(line, &e);
                        ("err".into(), e.starts_with("panic"))
                    }
                }
            }
            "qs" => {
                let (maddr, _) = minter.unwrap();
                match self.status(&maddr) {
                    Some((v, b, e)) => (format!("status v={} b={} e={}", v as u8, b as u8, e as u8), false),
                    None => ("err".into(), false),
                }
            }
            "qm" => {
                let (maddr, kind) = minter.unwrap();
                let price = self.minter_price(&maddr, kind);
                let (mintable, pal) = if kind == MinterKind::Base {
                    (None, 0u64)
                } else {
                    let c = self.w.query(&maddr, &json!({"config":{}})).unwrap_or(Value::Null);
                    let n = self.w.query(&maddr, &json!({"mintable_num_tokens":{}})).unwrap_or(Value::Null);
                    (n["count"].as_u64(), c["per_address_limit"].as_u64().unwrap_or(0))
                };
                (format!("minter kind={} price={} mintable={} pal={}", kind.idx(), fmt_coin(price), fmt_opt(&mintable), pal), false)
            }
            _ => ("bad-op".into(), false),
        }
    }
    fn status(&self, m: &str) -> Option<(bool, bool, bool)> {
        let v = self.w.query(m, &json!({"status":{}})).ok()?;
        let s = &v["status"];
        Some((s["is_verified"].as_bool()?, s["is_blocked"].as_bool()?, s["is_explicit"].as_bool()?))
    }
    /// CONFIG.mint_price of a minter (token-merge has none: 0:0)
    fn minter_price(&self, m: &str, kind: MinterKind) -> (u64, u128) {
        let c = self.w.query(m, &json!({"config":{}})).unwrap_or(Value::Null);
        let mp = if kind == MinterKind::Base { &c["config"]["mint_price"] } else { &c["mint_price"] };
        if kind == MinterKind::TokenMerge || mp.is_null() {
            return (0, 0);
        }
        (denom_id(mp["denom"].as_str().unwrap_or("?")), mp["amount"].as_str().and_then(|x| x.parse().ok()).unwrap_or(0))
    }
}

impl Sut for S {
    fn begin(&mut self, header: &str) -> (String, String) {
        self.log = vec![header.to_string()];
        self.finding = None;
        self.start(header);
        (header.to_string(), "case".to_string())
    }
    fn exec(&mut self, line: &str) -> (String, String) {
        self.finding = None;
        let (out, panicked) = self.exec_inner(line);
        if panicked {
            // a panic may leave the App half-written: rebuild the world from the op log (the failed op is a no-op)
            self.panics += 1;
            self.rebuilding = true;
            let log = self.log.clone();
            self.start(&log[0]);
            for l in &log[1..] {
                let _ = self.exec_inner(l);
            }
            self.rebuilding = false;
        } else {
            self.log.push(line.to_string());
        }
        (line.to_string(), out)
    }
    fn monitor(&mut self) -> Option<(String, String)> {
        self.finding.take()
    }
}

fn dbg_err(line: &str, e: &str) {
    if std::env::var("C18_DEBUG").is_ok() {
        eprintln!("ERR on `{line}`: {e}");
    }
}

// ------------------------------------------------------------------------------------------------ monitors (property transcription)

fn coin_of_s(s: Option<&String>) -> (u64, u128) {
    s.and_then(|s| s.split_once(':')).and_then(|(d, a)| Some((d.parse().ok()?, a.parse().ok()?))).unwrap_or((0, 0))
}

/// "the parameters query returns the previous parameters with precisely the supplied fields replaced (code-id additions
/// and removals applied as set operations, additions before removals), omitted fields unchanged, and an update that
/// would move the minimum mint price to a non-native denom is refused" — on the implementation's own before/after queries.
fn monitor_upd(f: FactoryKind, u: &Upd, before: &BTreeMap<&'static str, String>, after: &BTreeMap<&'static str, String>, ok: bool, line: &str) -> Option<(String, String)> {
    let key = |p: &str| format!("{}-factory/upd/{p}", fk_letter(f));
    if !ok {
        if before != after {
            return Some((key("refused-update-changed-params"), format!("`{line}` was refused but Params changed: {} -> {}", render_flat(before), render_flat(after))));
        }
        return None;
    }
    if f != FactoryKind::TokenMerge {
        if let Some((d, _)) = u.minp {
            if d != 0 {
                return Some((key("non-native-min-price-accepted"), format!("`{line}` accepted; min_mint_price now {:?}", after.get("minp"))));
            }
        }
    }
    // supplied scalar fields (only those the factory's stored params have)
    let supplied: Vec<(&'static str, Option<String>)> = vec![
        ("code", u.code.map(|x| x.to_string())),
        ("frozen", u.frozen.map(|b| (b as u8).to_string())),
        ("cfee", u.cfee.map(fmt_coin)),
        ("minp", u.minp.map(fmt_coin)),
        ("bps", u.bps.map(|x| x.to_string())),
        ("off", u.off.map(|x| x.to_string())),
        ("mtl", u.mtl.map(|x| x.to_string())),
        ("mpal", u.mpal.map(|x| x.to_string())),
        ("adp", u.adp.map(fmt_coin)),
        ("adbps", u.adbps.map(|x| x.to_string())),
        ("shuf", u.shuf.map(fmt_coin)),
        ("dev", u.dev.map(|x| x.to_string())),
    ];
    for (name, sup) in supplied {
        let (Some(b), Some(a)) = (before.get(name), after.get(name)) else { continue };
        match sup {
            Some(v) if *a != v => return Some((key("supplied-field-not-taken"), format!("`{line}`: supplied {name}={v} but Params now has {name}={a}"))),
            None if a != b => return Some((key("omitted-field-changed"), format!("`{line}`: {name} omitted but changed {b} -> {a}"))),
            _ => {}
        }
    }
    // the base factory's unit extension is never written
    if let (Some(b), Some(a)) = (before.get("ext"), after.get("ext")) {
        if a != b {
            return Some((key("omitted-field-changed"), format!("`{line}`: stored extension changed {b} -> {a}")));
        }
    }
    // code ids as sets: after = (before ∪ add) \ rm
    let set = |s: Option<&String>| -> BTreeSet<u64> { s.filter(|x| *x != "-").map(|x| x.split(',').filter_map(|y| y.parse().ok()).collect()).unwrap_or_default() };
    let mut want = set(before.get("ids"));
    want.extend(u.add.clone().unwrap_or_default());
    for r in u.rm.clone().unwrap_or_default() {
        want.remove(&r);
    }
    let got = set(after.get("ids"));
    if want != got {
        return Some((key("code-id-set-semantics"), format!("`{line}`: allowed ids {:?} -> {:?}, expected set {:?}", before.get("ids"), after.get("ids"), want)));
    }
    None
}

/// a creation that succeeded must satisfy the factory's CURRENT parameters
fn monitor_create(f: FactoryKind, cur: &BTreeMap<&'static str, String>, line: &str) -> Option<(String, String)> {
    let key = |p: &str| format!("{}-factory/create/{p}", fk_letter(f));
    if cur.get("frozen").map(|s| s.as_str()) == Some("1") {
        return Some((key("created-while-frozen"), format!("`{line}` succeeded although the factory is currently frozen")));
    }
    let sg = kv_u64(line, "sg721").unwrap();
    let ids: BTreeSet<u64> = cur.get("ids").filter(|x| *x != "-").map(|x| x.split(',').filter_map(|y| y.parse().ok()).collect()).unwrap_or_default();
    if !ids.contains(&sg) {
        return Some((key("collection-code-not-currently-allowed"), format!("`{line}` succeeded although {sg} is not in the current allowed list {:?}", ids)));
    }
    let fee = coin_of_s(cur.get("cfee"));
    let paid = funds_of(line);
    if paid.len() != 1 || paid[0].0 != fee.0 || paid[0].1 < fee.1 {
        return Some((key("stale-creation-fee"), format!("`{line}` succeeded although the current creation fee is {:?}", fee)));
    }
    if let (Some(mtl), Some(Some(n))) = (cur.get("mtl").and_then(|s| s.parse::<u64>().ok()), kv_opt_u64(line, "num")) {
        if n > mtl {
            return Some((key("stale-max-token-limit"), format!("`{line}` succeeded although current max_token_limit is {mtl}")));
        }
    }
    if let (Some(mpal), Some(pal)) = (cur.get("mpal").and_then(|s| s.parse::<u64>().ok()), kv_u64(line, "pal")) {
        if pal > mpal {
            return Some((key("stale-max-per-address-limit"), format!("`{line}` succeeded although current max_per_address_limit is {mpal}")));
        }
    }
    if matches!(f, FactoryKind::Vending | FactoryKind::OpenEdition) {
        let min = coin_of_s(cur.get("minp"));
        let price = kv_coin(line, "price").unwrap();
        if price.1 < min.1 || price.0 != min.0 {
            return Some((key("stale-min-mint-price"), format!("`{line}` succeeded although current min_mint_price is {:?}", min)));
        }
    }
    if f != FactoryKind::Base {
        if let (Some(off), Some(Some(t)), Some(start)) = (cur.get("off").and_then(|s| s.parse::<u128>().ok()), kv_opt_u64(line, "stt"), kv_u64(line, "start")) {
            if t as u128 > start as u128 + off * 1_000_000_000 {
                return Some((key("stale-trading-offset"), format!("`{line}` succeeded although current max_trading_offset_secs is {off}")));
            }
        }
    }
    None
}

/// a public mint must split the price by the factory's CURRENT mint_fee_bps
fn monitor_mint(f: FactoryKind, kind: MinterKind, cur: &BTreeMap<&'static str, String>, price: (u64, u128), dl: &[u128; 6], line: &str) -> Option<(String, String)> {
    let bps: u128 = cur.get("bps").and_then(|s| s.parse().ok())?;
    let want = price.1.checked_mul(bps)? / 10_000;
    if kind == MinterKind::Base {
        let got = dl[4] + dl[5];
        if got != want {
            return Some((format!("{}/mint/stale-mint-fee-bps", kind.name()), format!("`{line}`: burned+pool {got}, expected captured price {} x current bps {bps} = {want}", price.1)));
        }
        return None;
    }
    let got = dl[0] + dl[1] + dl[2];
    if got != want || dl[3] != price.1 - want {
        return Some((format!("{}/mint/stale-mint-fee-bps", kind.name()), format!("`{line}` ({} factory): fee {got} seller {}, expected fee {want} = price {} x current bps {bps}", fk_letter(f), dl[3], price.1)));
    }
    None
}

/// an airdrop must charge the CURRENT airdrop price and split it by the CURRENT airdrop fee bps
fn monitor_airdrop(_f: FactoryKind, kind: MinterKind, cur: &BTreeMap<&'static str, String>, funds: &[(u64, u128)], dl: &[u128; 6], line: &str) -> Option<(String, String)> {
    let price = coin_of_s(cur.get("adp"));
    let bps: u128 = cur.get("adbps").and_then(|s| s.parse().ok())?;
    let paid: u128 = funds.iter().map(|c| c.1).sum();
    if paid != price.1 || (paid != 0 && funds[0].0 != price.0) {
        return Some((format!("{}/airdrop/stale-airdrop-price", kind.name()), format!("`{line}` accepted although the current airdrop price is {:?}", price)));
    }
    let want = price.1.checked_mul(bps)? / 10_000;
    let got = dl[0] + dl[1] + dl[2];
    if got != want {
        return Some((format!("{}/airdrop/stale-airdrop-fee-bps", kind.name()), format!("`{line}`: fee {got}, expected {} x current airdrop bps {bps} = {want}", price.1)));
    }
    None
}


// ------------------------------------------------------------------------------------------------ generators

fn fields_of(f: FactoryKind) -> Vec<&'static str> {
    match f {
        FactoryKind::Vending => vec!["code", "add", "rm", "frozen", "cfee", "minp", "bps", "off", "mtl", "mpal", "adp", "adbps", "shuf"],
        FactoryKind::OpenEdition => vec!["code", "add", "rm", "frozen", "cfee", "minp", "bps", "off", "mtl", "mpal", "adp", "adbps", "dev", "xminp"],
        FactoryKind::TokenMerge => vec!["code", "add", "rm", "frozen", "cfee", "off", "mtl", "mpal", "adp", "adbps", "shuf"],
        FactoryKind::Base => vec!["code", "add", "rm", "frozen", "cfee", "minp", "bps", "off"],
    }
}
const ALL_F: [FactoryKind; 4] = [FactoryKind::Vending, FactoryKind::OpenEdition, FactoryKind::TokenMerge, FactoryKind::Base];

/// amounts: boundaries and random bit lengths (< 2^100 mostly; u128::MAX occasionally)
fn rand_amount(r: &mut Rng) -> u128 {
    match r.below(12) {
        0 => 0,
        1 => 1,
        2 => u128::MAX,
        3 => (1u128 << 64) - 1,
        4 => 1u128 << 64,
        _ => r.sized_u128(100),
    }
}
fn rand_u64(r: &mut Rng) -> u64 {
    match r.below(8) {
        0 => 0,
        1 => u64::MAX,
        2 => 10_000,
        3 => 10_001,
        _ => r.sized_u128(64) as u64,
    }
}
fn rand_u32(r: &mut Rng) -> u64 {
    match r.below(8) {
        0 => 0,
        1 => u32::MAX as u64,
        2 => 1,
        _ => r.sized_u128(32) as u64,
    }
}
/// `native_in`: probability (out of 10) that the denom is native
fn rand_coin(r: &mut Rng, native_in: u64) -> (u64, u128) {
    let d = if r.chance(native_in, 10) { 0 } else { r.range(1, 2) };
    (d, rand_amount(r))
}
/// code-id lists over a small universe, with consecutive and non-consecutive duplicates
fn rand_ids(r: &mut Rng, codes: &Codes) -> Vec<u64> {
    rand_ids_in(r, &[codes.sg721_base, codes.sg721_updatable, codes.sg721_nt, codes.sg721_metadata_onchain, 1, 2, 3, 77])
}
/// the worlds never allow sg721-metadata-onchain / sg721-nt: a minter created with the former cannot mint (its Mint
/// message needs on-chain metadata), the latter has no UpdateStartTradingTime — collection matters outside C18
fn world_ids(r: &mut Rng, codes: &Codes) -> Vec<u64> {
    rand_ids_in(r, &[codes.sg721_base, codes.sg721_updatable, 1, 2, 3, 77])
}
fn rand_ids_in(r: &mut Rng, uni: &[u64]) -> Vec<u64> {
    let n = r.below(6);
    let mut v: Vec<u64> = vec![];
    for _ in 0..n {
        if !v.is_empty() && r.chance(1, 4) {
            let last = *v.last().unwrap();
            v.push(last); // consecutive duplicate
        } else {
            v.push(*r.pick(uni));
        }
    }
    v
}

/// arbitrary (not necessarily usable) initial params
fn rand_params(r: &mut Rng, codes: &Codes) -> (FactoryParams, bool) {
    (
        FactoryParams {
            code_id: rand_u64(r),
            allowed_sg721_code_ids: rand_ids(r, codes),
            frozen: r.chance(1, 2),
            creation_fee: rand_coin(r, 7),
            min_mint_price: rand_coin(r, 8),
            mint_fee_bps: rand_u64(r),
            max_trading_offset_secs: rand_u64(r),
            max_token_limit: rand_u32(r) as u32,
            max_per_address_limit: rand_u32(r) as u32,
            airdrop_mint_price: rand_coin(r, 7),
            airdrop_mint_fee_bps: rand_u64(r),
            shuffle_fee: rand_coin(r, 8),
            dev_fee_address: r.range(60, 69),
        },
        r.chance(1, 2),
    )
}

/// an update supplying exactly the fields named in `names`, arbitrary values (native denom with probability 0.9 where checked)
fn rand_upd(r: &mut Rng, f: FactoryKind, names: &[&str], codes: &Codes) -> Upd {
    let mut u = Upd { nulls: r.chance(1, 2), ..Default::default() };
    for n in names {
        match *n {
            "code" => u.code = Some(rand_u64(r)),
            "add" => u.add = Some(rand_ids(r, codes)),
            "rm" => u.rm = Some(rand_ids(r, codes)),
            "frozen" => u.frozen = Some(r.chance(1, 2)),
            "cfee" => u.cfee = Some(rand_coin(r, 6)),
            "minp" => u.minp = Some(rand_coin(r, 9)),
            "bps" => u.bps = Some(rand_u64(r)),
            "off" => u.off = Some(rand_u64(r)),
            "mtl" => u.mtl = Some(rand_u32(r)),
            "mpal" => u.mpal = Some(rand_u32(r)),
            "adp" => u.adp = Some(rand_coin(r, 9)),
            "adbps" => u.adbps = Some(rand_u64(r)),
            "shuf" => u.shuf = Some(rand_coin(r, 9)),
            "xminp" => u.xminp = Some(rand_coin(r, 5)),
            "dev" => u.dev = Some(r.range(60, 69)),
            _ => unreachable!(),
        }
    }
    if f == FactoryKind::Base {
        u.ext = Some(r.chance(1, 2));
    }
    u
}

fn class_of_upd(f: FactoryKind, u: &Upd, out: &str) -> String {
    let nn = |c: Option<(u64, u128)>| c.map(|c| c.0 != 0).unwrap_or(false);
    let fault = if nn(u.minp) && f != FactoryKind::TokenMerge {
        "nonnative-minp"
    } else if nn(u.adp) && f != FactoryKind::OpenEdition && f != FactoryKind::Base {
        "nonnative-adp"
    } else if nn(u.shuf) && matches!(f, FactoryKind::Vending | FactoryKind::TokenMerge) {
        "nonnative-shuf"
    } else {
        "native"
    };
    let n = [u.code.is_some(), u.add.is_some(), u.rm.is_some(), u.frozen.is_some(), u.cfee.is_some(), u.minp.is_some(), u.bps.is_some(), u.off.is_some(), u.mtl.is_some(), u.mpal.is_some(), u.adp.is_some(), u.adbps.is_some(), u.shuf.is_some(), u.xminp.is_some(), u.dev.is_some()]
        .iter()
        .filter(|b| **b)
        .count();
    let bucket = match n {
        0 => "0",
        1 => "1",
        2..=4 => "2-4",
        5..=9 => "5-9",
        _ => "10+",
    };
    let ids = match (&u.add, &u.rm) {
        (Some(a), Some(b)) if a.iter().any(|x| b.contains(x)) => "add∩rm",
        (Some(_), Some(_)) => "add+rm",
        (Some(_), None) => "add",
        (None, Some(_)) => "rm",
        _ => "noids",
    };
    format!("{}:upd:{}:{}:{}:{}:nulls{}", fk_letter(f), out, fault, bucket, ids, u.nulls as u8)
}

/// Part A: every subset of the optional fields of every factory's update message, in random order, in sequences
/// (each `upd` followed by the three queries).
fn part_masks(ses: &mut Session, sut: &mut S, codes: &Codes) {
    let seq_len = 32usize;
    let rounds = ses.scale(1, 4);
    for _round in 0..rounds {
    for f in ALL_F {
        let names = fields_of(f);
        let k = names.len();
        let mut masks: Vec<u32> = (0..(1u32 << k)).collect();
        ses.rng.shuffle(&mut masks);
        for chunk in masks.chunks(seq_len) {
            let (p, ext) = rand_params(&mut ses.rng, codes);
            let header = format!("{} part=masks", params_header(f, codes, &p, ext));
            ses.begin_case(sut, &header);
            ses.step(sut, "qp");
            for m in chunk {
                let sel: Vec<&str> = (0..k).filter(|i| m & (1 << i) != 0).map(|i| names[i]).collect();
                let u = rand_upd(&mut ses.rng, f, &sel, codes);
                let out = ses.step(sut, &u.line());
                ses.mark(class_of_upd(f, &u, &out));
                ses.count(&format!("mask-size:{}", sel.len()));
                ses.step(sut, "qp");
                ses.step(sut, "qids");
                let uni = [codes.sg721_base, codes.sg721_updatable, codes.sg721_nt, codes.sg721_metadata_onchain, 1, 2, 3, 77, 5];
                let x = *ses.rng.pick(&uni);
                let o = ses.step(sut, &format!("qid x={x}"));
                ses.mark(format!("{}:qid:{}", fk_letter(f), o));
            }
            ses.end_case();
        }
        if _round == 0 {
            ses.note(format!("{}-factory: all 2^{} = {} subsets of the optional update fields exercised ({} round(s) with fresh random values)", fk_letter(f), k, 1u32 << k, rounds));
        }
    }
    }
}

fn main() {
    let mut ses = Session::new("C18");
    let mut sut = S::new();
    if ses.maybe_replay(&mut sut) {
        ses.finish(&mut sut);
    }
    let codes = sut.w.codes.clone();
    let only = std::env::var("C18_ONLY").unwrap_or_default();
    if only.is_empty() || only == "masks" {
        part_masks(&mut ses, &mut sut, &codes);
    }
    if only.is_empty() || only == "directed" {
        part_directed(&mut ses, &mut sut, &codes);
    }
    if only.is_empty() || only == "status" {
        part_status(&mut ses, &mut sut, &codes);
    }
    if only.is_empty() || only == "world" {
        part_world(&mut ses, &mut sut, &codes);
    }
    ses.exhaustive = true;
    ses.note("values: amounts incl. 0, 1, 2^64±1, u128::MAX and random bit lengths < 2^100; u64/u32 fields incl. 0 and the type maximum; times < 2^62".to_string());
    ses.note(format!("panics caught and world rebuilt from the op log: {}", sut.panics));
    ses.finish(&mut sut);
}

// ------------------------------------------------------------------------------------------------ worlds with minters

fn family_codes(f: FactoryKind, codes: &Codes) -> Vec<u64> {
    ALL_MINTERS.iter().filter(|k| k.factory() == f).map(|k| codes.minters[k.idx()]).collect()
}

/// usable params: real code ids, small native fees, boundary-friendly maxima
fn sane_params(r: &mut Rng, kind: MinterKind, codes: &Codes) -> FactoryParams {
    FactoryParams {
        code_id: codes.minters[kind.idx()],
        allowed_sg721_code_ids: vec![codes.sg721_base, codes.sg721_updatable],
        frozen: false,
        creation_fee: (0, *r.pick(&[1u128, 1000, 5_000_000])),
        min_mint_price: (0, *r.pick(&[0u128, 1000, 50_000])),
        mint_fee_bps: *r.pick(&[0u64, 1, 500, 1000, 9999, 10_000]),
        max_trading_offset_secs: *r.pick(&[0u64, 1, 86_400, 604_800]),
        max_token_limit: *r.pick(&[1u32, 5, 99, 100, 101, 300]),
        max_per_address_limit: *r.pick(&[1u32, 2, 3, 4, 50]),
        airdrop_mint_price: (0, *r.pick(&[0u128, 1000, 77_777])),
        airdrop_mint_fee_bps: *r.pick(&[0u64, 5000, 10_000]),
        shuffle_fee: (0, *r.pick(&[0u128, 1, 500])),
        dev_fee_address: r.range(60, 69),
    }
}

/// a sane single-field value (so that later creations / mints mostly succeed)
fn sane_upd(r: &mut Rng, f: FactoryKind, names: &[&str], codes: &Codes) -> Upd {
    let mut u = Upd { nulls: r.chance(1, 2), ..Default::default() };
    let fam = family_codes(f, codes);
    for n in names {
        match *n {
            "code" => u.code = Some(if r.chance(1, 8) { 9999 } else { *r.pick(&fam) }),
            "add" => u.add = Some(world_ids(r, codes)),
            "rm" => u.rm = Some(if r.chance(1, 2) { vec![*r.pick(&[1u64, 2, 3, 77, codes.sg721_base])] } else { world_ids(r, codes) }),
            "frozen" => u.frozen = Some(r.chance(1, 3)),
            "cfee" => u.cfee = Some((if r.chance(1, 6) { 1 } else { 0 }, *r.pick(&[1u128, 2, 999, 1000, 1001, 5_000_000]))),
            "minp" => u.minp = Some((if r.chance(1, 10) { 1 } else { 0 }, *r.pick(&[0u128, 1, 999, 1000, 1001, 50_000]))),
            "bps" => u.bps = Some(*r.pick(&[0u64, 1, 250, 1000, 5000, 9999, 10_000, 10_001])),
            "off" => u.off = Some(*r.pick(&[0u64, 1, 5, 86_400, 604_800])),
            "mtl" => u.mtl = Some(*r.pick(&[0u64, 1, 5, 99, 100, 101, 300])),
            "mpal" => u.mpal = Some(*r.pick(&[0u64, 1, 2, 3, 4, 9, 50])),
            "adp" => u.adp = Some((if r.chance(1, 8) { 1 } else { 0 }, *r.pick(&[0u128, 1, 1000, 77_777]))),
            "adbps" => u.adbps = Some(*r.pick(&[0u64, 1, 2500, 5000, 10_000, 10_001])),
            "shuf" => u.shuf = Some((if r.chance(1, 10) { 2 } else { 0 }, *r.pick(&[0u128, 1, 2, 500, 501]))),
            "xminp" => u.xminp = Some(rand_coin(r, 5)),
            "dev" => u.dev = Some(r.range(60, 69)),
            _ => unreachable!(),
        }
    }
    if f == FactoryKind::Base {
        u.ext = Some(r.chance(1, 2));
    }
    u
}

struct Gen {
    f: FactoryKind,
    now: u64,
    /// slot -> (start time, num_tokens) of minters created so far
    made: BTreeMap<u64, (u64, u64)>,
    next_slot: u64,
    next_buyer: u64,
}

fn fu(m: &BTreeMap<&'static str, String>, k: &str) -> u64 {
    m.get(k).and_then(|s| s.parse().ok()).unwrap_or(0)
}
fn near(r: &mut Rng, x: u128) -> u128 {
    match r.below(10) {
        0 => x.saturating_sub(1),
        1 => x.saturating_add(1),
        _ => x,
    }
}
fn funds_str(c: (u64, u128)) -> String {
    if c.1 == 0 {
        "-".into()
    } else {
        fmt_coin(c)
    }
}

impl Gen {
    fn new(f: FactoryKind) -> Gen {
        Gen { f, now: T0, made: BTreeMap::new(), next_slot: 1, next_buyer: 100 }
    }
    fn create_line(&mut self, r: &mut Rng, sut: &S, codes: &Codes, valid: bool) -> String {
        let cur = sut.flat();
        let ids: Vec<u64> = cur.get("ids").filter(|x| *x != "-").map(|x| x.split(',').filter_map(|y| y.parse().ok()).collect()).unwrap_or_default();
        let good: Vec<u64> = ids.iter().copied().filter(|x| [codes.sg721_base, codes.sg721_updatable].contains(x)).collect();
        let sg = if !good.is_empty() && (valid || r.chance(3, 4)) { *r.pick(&good) } else { *r.pick(&[codes.sg721_base, codes.sg721_updatable, codes.sg721_nt, 1, 77]) };
        let mtl = fu(&cur, "mtl");
        let mpal = fu(&cur, "mpal");
        let num: Option<u64> = match self.f {
            FactoryKind::Base => None,
            FactoryKind::OpenEdition if r.chance(1, 3) => None,
            _ => Some(if valid { mtl.clamp(1, 300).min(mtl.max(1)) } else { (*r.pick(&[1u64, mtl.saturating_sub(1), mtl, mtl + 1, 0])).min(320) }),
        };
        let pal: u64 = if self.f == FactoryKind::Base { 1 } else if valid { mpal.clamp(1, 3) } else { *r.pick(&[1u64, 2, 3, 4, mpal, mpal + 1, 0]) };
        let minp = coin_of_s(cur.get("minp"));
        let price = if valid { (minp.0, minp.1 + 10_000) } else { (if r.chance(1, 10) { 1 } else { minp.0 }, *r.pick(&[minp.1.saturating_sub(1), minp.1, minp.1 + 1, minp.1 * 2 + 10_000, 0])) };
        let fee = coin_of_s(cur.get("cfee"));
        let funds = if valid { fee } else { match r.below(10) { 0 => (fee.0, fee.1.saturating_sub(1)), 1 => (fee.0, fee.1 + 1), 2 => (fee.0 + 1, fee.1), 3 => (0, 0), _ => fee } };
        let start = self.now + 1_000_000_000_000;
        let off = fu(&cur, "off");
        let bound = start as u128 + off as u128 * 1_000_000_000;
        let stt: Option<u128> = if valid || r.chance(1, 2) || bound > (1u128 << 62) { None } else { Some(match r.below(4) { 0 => bound - 1, 1 => bound + 1, 2 => start as u128, _ => bound }) };
        let slot = self.next_slot;
        format!(
            "create m={} sg721={} num={} pal={} price={} funds={} start={} now={} stt={}",
            slot, sg, fmt_opt(&num), pal, fmt_coin(price), funds_str(funds), start, self.now, fmt_opt(&stt)
        )
    }
    fn after_create(&mut self, line: &str, out: &str) {
        if out.starts_with("ok") {
            let slot = kv_u64(line, "m").unwrap();
            self.made.insert(slot, (kv_u64(line, "start").unwrap(), kv_opt_u64(line, "num").unwrap().unwrap_or(0)));
            self.next_slot += 1;
        }
    }
    fn pick_slot(&self, r: &mut Rng) -> Option<u64> {
        if self.made.is_empty() {
            return None;
        }
        if r.chance(1, 40) {
            return Some(999); // no such minter
        }
        let keys: Vec<u64> = self.made.keys().copied().collect();
        Some(*r.pick(&keys))
    }
    fn mint_line(&mut self, r: &mut Rng, sut: &S, slot: u64, valid: bool) -> String {
        let start = self.made.get(&slot).map(|x| x.0).unwrap_or(self.now);
        if self.f != FactoryKind::Base && self.now < start {
            self.now = if !valid && r.chance(1, 8) { start - 1 } else { start };
        }
        let cur = sut.flat();
        let (price, kind) = match sut.minters.get(&slot) {
            Some(m) => (sut.minter_price(&m.addr, m.kind), m.kind),
            None => ((0, 1000), MinterKind::Vending),
        };
        let due = if kind == MinterKind::Base { (0u64, price.1.saturating_mul(fu(&cur, "bps") as u128) / 10_000) } else { price };
        let funds = if valid { due } else { (due.0, near(r, due.1)) };
        self.next_buyer += 1;
        format!("mint m={} now={} buyer={} funds={}", slot, self.now, self.next_buyer, funds_str(funds))
    }
    fn airdrop_line(&mut self, r: &mut Rng, sut: &S, slot: u64, valid: bool) -> String {
        let adp = coin_of_s(sut.flat().get("adp"));
        let funds = if valid { adp } else { (adp.0, near(r, adp.1)) };
        format!("airdrop m={} funds={}", slot, funds_str(funds))
    }
    fn world_op(&mut self, r: &mut Rng, sut: &S, codes: &Codes) -> String {
        let cur = sut.flat();
        let names = fields_of(self.f);
        let slot = self.pick_slot(r);
        let roll = r.below(100);
        let valid = r.chance(7, 10);
        match (roll, slot) {
            (0..=24, _) | (_, None) if roll <= 24 || (slot.is_none() && roll >= 45) => {
                let n = 1 + r.below(3) as usize;
                let sel: Vec<&str> = (0..n).map(|_| *r.pick(&names)).collect::<BTreeSet<_>>().into_iter().collect();
                sane_upd(r, self.f, &sel, codes).line()
            }
            (25..=44, _) | (_, None) => self.create_line(r, sut, codes, valid),
            (45..=64, Some(s)) if self.f != FactoryKind::TokenMerge => self.mint_line(r, sut, s, valid),
            (45..=74, Some(s)) if self.f != FactoryKind::Base => self.airdrop_line(r, sut, s, valid),
            (75..=80, Some(s)) if self.f != FactoryKind::Base => {
                let mpal = fu(&cur, "mpal");
                let num = self.made.get(&s).map(|x| x.1).unwrap_or(0);
                let three = (num * 3 + 99) / 100;
                format!("pal m={} limit={}", s, *r.pick(&[0u64, 1, 2, 3, 4, mpal, mpal + 1, three, three + 1]))
            }
            (81..=84, Some(s)) if matches!(self.f, FactoryKind::Vending | FactoryKind::TokenMerge) => {
                let fee = coin_of_s(cur.get("shuf"));
                self.next_buyer += 1;
                format!("shuffle m={} buyer={} funds={}", s, self.next_buyer, funds_str((0, if valid { fee.1 } else { near(r, fee.1) })))
            }
            (85..=88, Some(s)) => {
                let start = self.made.get(&s).map(|x| x.0).unwrap_or(self.now) as u128;
                let bound = start + fu(&cur, "off") as u128 * 1_000_000_000;
                let t: Option<u128> = match r.below(6) {
                    0 => None,
                    1 => Some(self.now as u128 - 1),
                    2 => Some(self.now as u128),
                    3 => Some(bound.saturating_sub(1)),
                    4 => Some(bound + 1),
                    _ => Some(bound),
                };
                let t = t.filter(|x| *x < (1u128 << 62));
                format!("ustt m={} now={} t={}", s, self.now, fmt_opt(&t))
            }
            (89..=92, Some(s)) if matches!(self.f, FactoryKind::Vending | FactoryKind::OpenEdition) => {
                let minp = coin_of_s(cur.get("minp")).1;
                let price = sut.minters.get(&s).map(|m| sut.minter_price(&m.addr, m.kind).1).unwrap_or(0);
                format!("price m={} now={} p={}", s, self.now, *r.pick(&[minp.saturating_sub(1), minp, minp + 1, price.saturating_sub(1), price, price + 1, 0]))
            }
            (_, Some(s)) => format!("status m={} v={} b={} e={}", s, r.below(2), r.below(2), r.below(2)),
        }
    }
}

/// run one generated op plus its follow-up observation, with class marks
fn run_op(ses: &mut Session, sut: &mut S, g: &mut Gen, line: &str) -> String {
    let out = ses.step(sut, line);
    if std::env::var("C18_TRACE").is_ok() {
        eprintln!("{line}  =>  {out}");
    }
    let op = line.split_whitespace().next().unwrap_or("");
    let fl = fk_letter(g.f);
    let res = out.split_whitespace().next().unwrap_or("").to_string();
    let kind = kv_u64(line, "m").and_then(|s| sut.minters.get(&s)).map(|m| m.kind.name()).unwrap_or("-");
    match op {
        "upd" => {
            let u = Upd::parse(line);
            ses.mark(class_of_upd(g.f, &u, &res));
            ses.step(sut, "qp");
            if u.add.is_some() || u.rm.is_some() {
                ses.step(sut, "qids");
            }
        }
        "create" => {
            g.after_create(line, &out);
            ses.mark(format!("{fl}:create:{res}:{kind}:stt{}:num{}", (kv(line, "stt") != Some("-")) as u8, (kv(line, "num") != Some("-")) as u8));
            if res == "ok" {
                let slot = kv_u64(line, "m").unwrap();
                ses.step(sut, &format!("qm m={slot}"));
                ses.step(sut, &format!("qs m={slot}"));
            }
        }
        "mint" | "airdrop" | "shuffle" => {
            let zero_fee = out.contains("liq=0 lp=0");
            ses.mark(format!("{fl}:{op}:{res}:{kind}:feezero{}", zero_fee as u8));
            if res == "ok" {
                ses.step(sut, &format!("qm m={}", kv_u64(line, "m").unwrap()));
            }
        }
        "pal" | "price" => {
            ses.mark(format!("{fl}:{op}:{res}:{kind}"));
            if res == "ok" {
                ses.step(sut, &format!("qm m={}", kv_u64(line, "m").unwrap()));
            }
        }
        "ustt" => ses.mark(format!("{fl}:{op}:{res}:{kind}:t{}", (kv(line, "t") != Some("-")) as u8)),
        "status" => {
            ses.mark(format!("{op}:{res}:{kind}:{}{}{}", kv(line, "v").unwrap(), kv(line, "b").unwrap(), kv(line, "e").unwrap()));
            ses.step(sut, &format!("qs m={}", kv_u64(line, "m").unwrap()));
        }
        _ => {}
    }
    out
}

/// Part B: random interleavings of governance updates with creations, mints, airdrops and admin operations
fn part_world(ses: &mut Session, sut: &mut S, codes: &Codes) {
    let cases = ses.scale(30, 2000);
    let len = ses.scale(70, 90);
    for i in 0..cases {
        for f in ALL_F {
            let fam: Vec<MinterKind> = ALL_MINTERS.iter().copied().filter(|k| k.factory() == f).collect();
            let kind = fam[(i as usize) % fam.len()];
            let p = sane_params(&mut ses.rng, kind, codes);
            let ext = ses.rng.chance(1, 2);
            let header = format!("{} part=world", params_header(f, codes, &p, ext));
            ses.begin_case(sut, &header);
            let mut g = Gen::new(f);
            // start with a creation that is meant to succeed
            let l = g.create_line(&mut ses.rng, sut, codes, true);
            run_op(ses, sut, &mut g, &l);
            for _ in 0..len {
                let l = g.world_op(&mut ses.rng, sut, codes);
                run_op(ses, sut, &mut g, &l);
            }
            ses.end_case();
        }
    }
}

/// Part C: all 8 flag combinations on all 11 minters (twice, in random order), interleaved with mints / airdrops
fn part_status(ses: &mut Session, sut: &mut S, codes: &Codes) {
    let rounds = ses.scale(2, 6);
    for kind in ALL_MINTERS {
        let f = kind.factory();
        let mut p = sane_params(&mut ses.rng, kind, codes);
        p.max_token_limit = 300;
        p.max_per_address_limit = 3;
        p.creation_fee = (0, 1000);
        let header = format!("{} part=status kind={}", params_header(f, codes, &p, false), kind.name());
        ses.begin_case(sut, &header);
        let mut g = Gen::new(f);
        let l = g.create_line(&mut ses.rng, sut, codes, true);
        let out = run_op(ses, sut, &mut g, &l);
        if !out.starts_with("ok") {
            ses.note(format!("status part: could not create {}", kind.name()));
        }
        for _ in 0..rounds {
            let mut combos: Vec<u8> = (0..8).collect();
            ses.rng.shuffle(&mut combos);
            for c in combos {
                let l = format!("status m=1 v={} b={} e={}", c & 1, (c >> 1) & 1, (c >> 2) & 1);
                run_op(ses, sut, &mut g, &l);
                if ses.rng.chance(1, 3) {
                    let l = if kind == MinterKind::TokenMerge || ses.rng.chance(1, 3) && kind != MinterKind::Base { g.airdrop_line(&mut ses.rng, sut, 1, true) } else { g.mint_line(&mut ses.rng, sut, 1, true) };
                    run_op(ses, sut, &mut g, &l);
                    ses.step(sut, "qs m=1");
                }
            }
        }
        ses.end_case();
    }
    ses.note("status: all 8 flag combinations on all 11 minter kinds, each followed by the Status query".to_string());
}

/// Part D: directed "live reading" scenarios on every minter kind: change ONE parameter between two creations / mints /
/// admin calls with the boundary value on both sides, and the values captured at creation.
fn part_directed(ses: &mut Session, sut: &mut S, codes: &Codes) {
    const SEC: u64 = 1_000_000_000;
    for kind in ALL_MINTERS {
        let f = kind.factory();
        let fl = fk_letter(f);
        let p = FactoryParams {
            code_id: codes.minters[kind.idx()],
            allowed_sg721_code_ids: vec![codes.sg721_base, codes.sg721_updatable],
            frozen: false,
            creation_fee: (0, 1000),
            min_mint_price: (0, 1000),
            mint_fee_bps: 1000,
            max_trading_offset_secs: 10,
            max_token_limit: 100,
            max_per_address_limit: 3,
            airdrop_mint_price: (0, 500),
            airdrop_mint_fee_bps: 5000,
            shuffle_fee: (0, 100),
            dev_fee_address: 61,
        };
        let header = format!("{} part=directed kind={}", params_header(f, codes, &p, false), kind.name());
        ses.begin_case(sut, &header);
        let mut g = Gen::new(f);
        let base = f == FactoryKind::Base;
        let has_max = !base;
        let sg0 = codes.sg721_base;
        let sg1 = codes.sg721_updatable;
        // helpers -----------------------------------------------------------------------------------------------
        macro_rules! go {
            ($($arg:tt)*) => {{ let l = format!($($arg)*); let o = run_op(ses, sut, &mut g, &l); ses.mark(format!("{fl}:directed:{}:{}:{}", kind.name(), l.split_whitespace().next().unwrap(), o.split_whitespace().next().unwrap())); o }};
        }
        macro_rules! create {
            ($sg:expr, $num:expr, $pal:expr, $price:expr, $funds:expr, $stt:expr) => {{
                let start = g.now + 1000 * SEC;
                let num: Option<u64> = if base { None } else { $num };
                let stt: Option<i128> = $stt;
                let stt_s = fmt_opt(&stt.map(|d| (start as i128 + d) as u128));
                go!("create m={} sg721={} num={} pal={} price={} funds={} start={} now={} stt={}", g.next_slot, $sg, fmt_opt(&num), $pal, fmt_coin($price), funds_str($funds), start, g.now, stt_s)
            }};
        }
        // 1. creation, then a mint whose fee split uses the CURRENT mint_fee_bps ------------------------------------
        create!(sg0, Some(100), 3, (0, 10_000), (0, 1000), None);
        let start1 = g.made.get(&1).map(|x| x.0).unwrap_or(g.now);
        if f != FactoryKind::TokenMerge {
            g.now = g.now.max(if base { g.now } else { start1 });
            let due = |bps: u128| if base { 1000 * bps / 10_000 } else { 10_000 };
            g.next_buyer += 1;
            go!("mint m=1 now={} buyer={} funds=0:{}", g.now, g.next_buyer, due(1000));
            go!("upd bps=250 nulls=0");
            g.next_buyer += 1;
            if base {
                go!("mint m=1 now={} buyer={} funds=0:{}", g.now, g.next_buyer, due(1000)); // stale amount: refused
            }
            go!("mint m=1 now={} buyer={} funds=0:{}", g.now, g.next_buyer, due(250));
            // captured: base minter keeps the min price it was created with
            if base {
                go!("upd minp=0:4000 nulls=1");
                go!("mint m=1 now={} buyer={} funds=0:{}", g.now, g.next_buyer, 4000 * 250 / 10_000); // new price x bps: refused
                go!("mint m=1 now={} buyer={} funds=0:{}", g.now, g.next_buyer, due(250));
                go!("qm m=1");
                create!(sg0, None, 1, (0, 0), (0, 1000), None); // a NEW base minter captures the new price
                go!("qm m={}", g.next_slot - 1);
                go!("mint m={} now={} buyer={} funds=0:{}", g.next_slot - 1, g.now, g.next_buyer, 4000 * 250 / 10_000);
                go!("upd minp=0:1000 nulls=0");
            }
        }
        // 2. frozen stops creation ---------------------------------------------------------------------------------
        go!("upd frozen=1 nulls=0");
        create!(sg0, Some(10), 1, (0, 10_000), (0, 1000), None);
        go!("upd frozen=0 nulls=1");
        create!(sg0, Some(10), 1, (0, 10_000), (0, 1000), None);
        // 3. allowed collection code ids ---------------------------------------------------------------------------
        go!("upd rm={} nulls=0", sg0);
        go!("qid x={}", sg0);
        create!(sg0, Some(10), 1, (0, 10_000), (0, 1000), None);
        create!(sg1, Some(10), 1, (0, 10_000), (0, 1000), None);
        go!("upd add={},{} rm=77 nulls=0", sg0, sg0);
        go!("qids");
        create!(sg0, Some(10), 1, (0, 10_000), (0, 1000), None);
        go!("upd add=77 rm=77 nulls=0"); // additions before removals: 77 ends up absent
        go!("qid x=77");
        // 4. creation fee (amount and denom) -----------------------------------------------------------------------
        go!("upd cfee=0:2000 nulls=0");
        create!(sg0, Some(10), 1, (0, 10_000), (0, 1999), None);
        create!(sg0, Some(10), 1, (0, 10_000), (0, 2000), None);
        go!("upd cfee=1:2000 nulls=0");
        create!(sg0, Some(10), 1, (0, 10_000), (0, 2000), None);
        sut.w.fund(&addr(ADMIN), 1, 0); // (admin already holds denom 1)
        create!(sg0, Some(10), 1, (0, 10_000), (1, 2000), None);
        go!("upd cfee=0:1000 nulls=0");
        // 5. maxima ------------------------------------------------------------------------------------------------
        if has_max {
            go!("upd mtl=99 nulls=0");
            create!(sg0, Some(100), 3, (0, 10_000), (0, 1000), None);
            create!(sg0, Some(99), 3, (0, 10_000), (0, 1000), None);
            go!("upd mtl=100 nulls=0");
            create!(sg0, Some(100), 3, (0, 10_000), (0, 1000), None);
            go!("upd mpal=2 nulls=0");
            go!("pal m=1 limit=3");
            go!("pal m=1 limit=2");
            create!(sg0, Some(100), 3, (0, 10_000), (0, 1000), None);
            create!(sg0, Some(100), 2, (0, 10_000), (0, 1000), None);
            go!("upd mpal=3 nulls=1");
            go!("pal m=1 limit=3");
            go!("pal m=1 limit=4");
            go!("upd mpal=50 nulls=1");
            go!("pal m=1 limit=4"); // 3 % rule (where the variant has it) still caps 100 tokens at 3
        }
        // 6. minimum mint price ------------------------------------------------------------------------------------
        if matches!(f, FactoryKind::Vending | FactoryKind::OpenEdition) {
            go!("upd minp=0:20000 nulls=0");
            create!(sg0, Some(10), 1, (0, 19_999), (0, 1000), None);
            create!(sg0, Some(10), 1, (0, 20_000), (0, 1000), None);
            let fresh = g.next_slot - 1;
            go!("price m={} now={} p=19999", fresh, g.now);
            go!("price m={} now={} p=20000", fresh, g.now);
            go!("upd minp=0:5 nulls=0");
            go!("price m={} now={} p=19999", fresh, g.now);
            go!("price m={} now={} p=4", fresh, g.now);
            go!("upd minp=1:5 nulls=0"); // non-native: refused, nothing changes
            go!("qp");
            go!("upd minp=0:1000 nulls=0");
        }
        // 7. airdrop price / fee, shuffle fee ----------------------------------------------------------------------
        if has_max {
            go!("airdrop m=1 funds=0:500");
            go!("upd adp=0:700 adbps=2500 nulls=0");
            go!("airdrop m=1 funds=0:500");
            go!("airdrop m=1 funds=0:700");
            go!("upd adbps=0 nulls=0");
            go!("airdrop m=1 funds=0:700");
            if f == FactoryKind::OpenEdition {
                go!("upd adp=2:900 dev=67 nulls=0"); // open edition accepts a non-native airdrop price
                go!("airdrop m=1 funds=0:900");
                go!("airdrop m=1 funds=2:900");
                go!("upd adbps=5000 nulls=0");
                go!("airdrop m=1 funds=2:900");
                go!("upd xminp=0:123456 nulls=0"); // F-C18c: dead message field, accepted and ignored
                go!("qp");
                go!("upd xminp=1:7 minp=0:1000 nulls=1");
                go!("qp");
            } else {
                go!("upd adp=2:900 nulls=0"); // refused
                go!("qp");
            }
        }
        if matches!(f, FactoryKind::Vending | FactoryKind::TokenMerge) {
            g.next_buyer += 1;
            go!("shuffle m=1 buyer={} funds=0:100", g.next_buyer);
            go!("upd shuf=0:300 nulls=0");
            go!("shuffle m=1 buyer={} funds=0:100", g.next_buyer);
            go!("shuffle m=1 buyer={} funds=0:299", g.next_buyer);
            go!("shuffle m=1 buyer={} funds=0:300", g.next_buyer);
            go!("upd shuf=1:300 nulls=0"); // refused
        }
        // 8. trading offset ----------------------------------------------------------------------------------------
        {
            let off = |secs: u64| secs as i128 * SEC as i128;
            create!(sg0, Some(10), 1, (0, 10_000), (0, 1000), Some(off(10)));
            create!(sg0, Some(10), 1, (0, 10_000), (0, 1000), Some(off(10) + 1));
            go!("upd off=5 nulls=0");
            create!(sg0, Some(10), 1, (0, 10_000), (0, 1000), Some(off(5) + 1));
            create!(sg0, Some(10), 1, (0, 10_000), (0, 1000), Some(off(5)));
            let m = g.next_slot - 1;
            let st = g.made.get(&m).map(|x| x.0).unwrap_or(g.now);
            go!("ustt m={} now={} t={}", m, g.now, st + 5 * SEC + 1);
            go!("ustt m={} now={} t={}", m, g.now, st + 5 * SEC);
            go!("upd off=6 nulls=0");
            go!("ustt m={} now={} t={}", m, g.now, st + 5 * SEC + 1);
            go!("ustt m={} now={} t=-", m, g.now);
        }
        // 9. the open-edition cap is captured at creation (not by the wl-flex variant) ------------------------------
        if f == FactoryKind::OpenEdition {
            create!(sg0, None, 1, (0, 10_000), (0, 1000), None);
            let m = g.next_slot - 1;
            go!("upd mtl=5 nulls=0");
            go!("qm m={}", m);
            go!("upd adp=0:0 nulls=0");
            create!(sg0, None, 1, (0, 10_000), (0, 1000), None); // zero airdrop price needs a token limit
            go!("airdrop m={} funds=-", m);
            go!("upd adp=0:700 mtl=100 nulls=0");
        }
        // 10. code id: the NEXT creation instantiates the new minter code --------------------------------------------
        let fam = family_codes(f, codes);
        let next_code = fam[(fam.iter().position(|c| *c == codes.minters[kind.idx()]).unwrap() + 1) % fam.len()];
        go!("upd code={} nulls=0", next_code);
        create!(sg0, Some(100), 3, (0, 10_000), (0, 1000), None);
        let m = g.next_slot - 1;
        go!("qm m={}", m);
        if f != FactoryKind::TokenMerge && !base {
            let st = g.made.get(&m).map(|x| x.0).unwrap_or(g.now);
            g.now = g.now.max(st);
            g.next_buyer += 1;
            go!("mint m={} now={} buyer={} funds=0:10000", m, g.now, g.next_buyer);
            go!("upd bps=10001 nulls=0"); // fee above the price: the mint aborts
            go!("mint m={} now={} buyer={} funds=0:10000", m, g.now, g.next_buyer);
            go!("upd bps=10000 nulls=0");
            go!("mint m={} now={} buyer={} funds=0:10000", m, g.now, g.next_buyer);
        }
        go!("upd code=9999 nulls=0");
        create!(sg0, Some(10), 1, (0, 10_000), (0, 1000), None);
        go!("qp");
        ses.end_case();
    }
    ses.note("directed: one parameter changed between two creations / mints / admin calls at the boundary value, on all 11 minter kinds".to_string());
}
