//! C15 — splits. The REAL `sg-splits` + the REAL external `cw4-group` in a cw-multi-test `App` (real bank keeper)
//! vs the Lean model `LP.Splits` (driver `drv_c15`).
//!
//! Lines (see lean/LaunchpadModel/Driver/C15.lean):
//!   case mode=<addr|inst|bad> self=<id> group=<id> admin=<a|-> gadmin=<a|-> members=<a:w,..|->
//!   mint to=<a> coins=<d:n,..>            send from=<a> to=<a> coins=<d:n,..>
//!   update_members sender=<a> add=<a:w,..|-> remove=<a,..|->
//!   group_admin sender=<a> new=<a|->      splits_admin sender=<a> new=<a|->
//!   distribute sender=<a> funds=<d:n,..|-> denoms=<none|-|d,..>       (+ witness ` order=<d,..>` for the model)
//!   q_members start=<a|-> limit=<n|->     q_member addr=<a>
use std::collections::{BTreeMap, BTreeSet};

use cosmwasm_std::{to_json_binary, Addr, Coin};
use cw4::{Member, MemberListResponse, MemberResponse, TotalWeightResponse};
use cw_controllers::AdminResponse;
use cw_multi_test::{next_block, AppResponse, BankSudo, Executor, SudoMsg};
use lp_harness::boxes::{self, App};
use lp_harness::world::*;
use lp_harness::*;
use sg_controllers::ContractInstantiateMsg;
use sg_splits::msg::{ExecuteMsg, Group, InstantiateMsg, QueryMsg};

const CREATOR: u64 = 900;
/// the literal of the property text ("more than 25")
const PROP_MAX_MEMBERS: usize = 25;

// every message kind of the splits contract is constructed somewhere below; a new variant stops this compiling
#[allow(dead_code)]
fn message_surface(e: &ExecuteMsg, q: &QueryMsg) {
    match e {
        ExecuteMsg::UpdateAdmin { .. } => {}
        ExecuteMsg::Distribute { .. } => {}
    }
    match q {
        QueryMsg::Admin {} => {}
        QueryMsg::Group {} => {}
        QueryMsg::Member { .. } => {}
        QueryMsg::ListMembers { .. } => {}
    }
}

type Bal = BTreeMap<(u64, u64), u128>;

#[derive(Clone, Debug, Default, PartialEq)]
struct Snap {
    sadmin: Option<u64>,
    gadmin: Option<u64>,
    total: u64,
    members: Vec<(u64, u64)>,
    bank: Bal,
}

impl Snap {
    fn render(&self) -> String {
        let bank: Vec<String> = self.bank.iter().filter(|(_, v)| **v != 0).map(|((a, d), n)| format!("{a}:{d}:{n}")).collect();
        format!(
            "sadmin={} gadmin={} total={} members={} bank={}",
            fmt_opt(&self.sadmin),
            fmt_opt(&self.gadmin),
            self.total,
            fmt_pairs(&self.members),
            if bank.is_empty() { "-".to_string() } else { bank.join(",") }
        )
    }
    fn bal(&self, a: u64, d: u64) -> u128 {
        *self.bank.get(&(a, d)).unwrap_or(&0)
    }
    fn weight(&self, a: u64) -> Option<u64> {
        self.members.iter().find(|m| m.0 == a).map(|m| m.1)
    }
    fn supply(&self, d: u64) -> u128 {
        self.bank.iter().filter(|((_, dd), _)| *dd == d).map(|(_, n)| *n).sum()
    }
    fn denoms(&self) -> BTreeSet<u64> {
        self.bank.keys().map(|k| k.1).collect()
    }
}

struct World {
    app: App,
    splits: Addr,
    group: Addr,
    splits_id: u64,
    tracked: BTreeSet<u64>,
}

impl World {
    fn snapshot(&self) -> Snap {
        let q = self.app.wrap();
        let sadmin: AdminResponse = q.query_wasm_smart(&self.splits, &QueryMsg::Admin {}).expect("splits admin");
        let gadmin: AdminResponse = q.query_wasm_smart(&self.group, &cw4_group::msg::QueryMsg::Admin {}).expect("group admin");
        let total: TotalWeightResponse = q.query_wasm_smart(&self.group, &cw4_group::msg::QueryMsg::TotalWeight { at_height: None }).expect("total");
        let mut members: Vec<(u64, u64)> = vec![];
        let mut start: Option<String> = None;
        loop {
            let page: MemberListResponse = q
                .query_wasm_smart(&self.group, &cw4_group::msg::QueryMsg::ListMembers { start_after: start.clone(), limit: Some(30) })
                .expect("list members");
            if page.members.is_empty() {
                break;
            }
            start = Some(page.members.last().unwrap().addr.clone());
            for m in page.members {
                members.push((addr_id(&m.addr), m.weight));
            }
        }
        let mut bank = Bal::new();
        for id in &self.tracked {
            for c in q.query_all_balances(addr(*id)).expect("balances") {
                bank.insert((*id, denom_id(&c.denom)), c.amount.u128());
            }
        }
        Snap { sadmin: sadmin.admin.map(|s| addr_id(&s)), gadmin: gadmin.admin.map(|s| addr_id(&s)), total: total.weight, members, bank }
    }
}

/// what the monitor looks at: one executed op with the implementation's own before/after observations
#[derive(Clone, Debug)]
struct Trace {
    line: String,
    ok: bool,
    pre: Snap,
    post: Snap,
    /// bank transfers out of the splits contract, in order: (recipient, denom, amount)
    transfers: Vec<(u64, u64, u128)>,
    splits_id: u64,
}

struct S {
    w: Option<World>,
    header: String,
    log: Vec<String>,
    cur: Snap,
    last: Option<Trace>,
}

fn ids_in_line(line: &str) -> Vec<u64> {
    let mut v = vec![];
    for k in ["to", "from", "sender", "new", "addr", "start", "admin", "gadmin", "self", "group"] {
        if let Some(Some(x)) = kv_opt_u64(line, k) {
            v.push(x);
        }
    }
    for k in ["add", "members"] {
        if let Some(ps) = kv_pairs(line, k) {
            v.extend(ps.iter().map(|p| p.0 as u64));
        }
    }
    if let Some(l) = kv_list(line, "remove") {
        v.extend(l.iter().map(|x| *x as u64));
    }
    v
}

fn members_of(ps: &[(u128, u128)]) -> Vec<Member> {
    ps.iter().map(|(a, w)| Member { addr: addr(*a as u64), weight: *w as u64 }).collect()
}

fn parse_transfers(res: &AppResponse, from: &Addr) -> Vec<(u64, u64, u128)> {
    let mut out = vec![];
    for e in &res.events {
        if e.ty != "transfer" {
            continue;
        }
        let get = |k: &str| e.attributes.iter().find(|a| a.key == k).map(|a| a.value.clone()).unwrap_or_default();
        if get("sender") != from.as_str() {
            continue;
        }
        let to = addr_id(&get("recipient"));
        for part in get("amount").split(',') {
            let i = part.find(|c: char| !c.is_ascii_digit()).unwrap_or(part.len());
            let amt: u128 = part[..i].parse().unwrap_or(u128::MAX);
            out.push((to, denom_id(&part[i..]), amt));
        }
    }
    out
}

impl S {
    fn build_world(header: &str) -> Option<World> {
        let mode = kv(header, "mode")?;
        let self_id = kv_u64(header, "self")?;
        let group_id = kv_u64(header, "group")?;
        let admin = kv_opt_u64(header, "admin")?.map(addr);
        let gadmin = kv_opt_u64(header, "gadmin")?.map(addr);
        let members = members_of(&kv_pairs(header, "members")?);
        let mut app = boxes::custom_mock_app();
        let group_code = app.store_code(boxes::cw4_group());
        let splits_code = app.store_code(boxes::splits());
        let gmsg = cw4_group::msg::InstantiateMsg { admin: gadmin, members };
        let (splits, group) = match mode {
            "addr" => {
                let group = app.instantiate_contract(group_code, a(CREATOR), &gmsg, &[], "group", None).ok()?;
                app.update_block(next_block);
                let msg = InstantiateMsg { admin, group: Group::Cw4Address(group.to_string()) };
                let splits = app.instantiate_contract(splits_code, a(CREATOR), &msg, &[], "splits", None).ok()?;
                (splits, group)
            }
            "inst" => {
                let msg = InstantiateMsg {
                    admin,
                    group: Group::Cw4Instantiate(ContractInstantiateMsg {
                        code_id: group_code,
                        msg: to_json_binary(&gmsg).unwrap(),
                        admin: None,
                        label: "cw4-group".into(),
                    }),
                };
                let splits = app.instantiate_contract(splits_code, a(CREATOR), &msg, &[], "splits", None).ok()?;
                let group: Addr = app.wrap().query_wasm_smart(&splits, &QueryMsg::Group {}).ok()?;
                (splits, group)
            }
            "bad" => {
                // a plain account is not a cw4 contract
                let msg = InstantiateMsg { admin, group: Group::Cw4Address(addr(group_id)) };
                let splits = app.instantiate_contract(splits_code, a(CREATOR), &msg, &[], "splits", None).ok()?;
                (splits, a(group_id))
            }
            _ => return None,
        };
        app.update_block(next_block);
        // the header names the addresses the model uses; they must be the real ones
        assert_eq!(addr_id(splits.as_str()), self_id, "header self= does not match the instantiated splits address {splits}");
        assert_eq!(addr_id(group.as_str()), group_id, "header group= does not match the group address {group}");
        let mut tracked: BTreeSet<u64> = ids_in_line(header).into_iter().collect();
        tracked.insert(self_id);
        tracked.insert(group_id);
        tracked.insert(CREATOR);
        Some(World { app, splits, group, splits_id: self_id, tracked })
    }

    fn exec_inner(&mut self, line: &str) -> (String, String) {
        let Some(w) = self.w.as_mut() else { return (line.to_string(), "err".into()) };
        for id in ids_in_line(line) {
            w.tracked.insert(id);
        }
        let op = line.split_whitespace().next().unwrap_or("");
        let pre = self.cur.clone();
        let mut model_line = line.to_string();
        let mut transfers = vec![];
        // queries do not change anything
        match op {
            "q_members" => {
                let start = kv_opt_u64(line, "start").unwrap().map(addr);
                let limit = kv_opt_u64(line, "limit").unwrap().map(|x| x as u32);
                let r: Result<MemberListResponse, _> = w.app.wrap().query_wasm_smart(&w.splits, &QueryMsg::ListMembers { start_after: start, limit });
                let out = match r {
                    Ok(l) => format!("ok {}", fmt_pairs(&l.members.iter().map(|m| (addr_id(&m.addr), m.weight)).collect::<Vec<_>>())),
                    Err(_) => "err".into(),
                };
                self.last = None;
                return (model_line, out);
            }
            "q_member" => {
                let r: Result<MemberResponse, _> = w.app.wrap().query_wasm_smart(&w.splits, &QueryMsg::Member { address: addr(kv_u64(line, "addr").unwrap()) });
                let out = match r {
                    Ok(m) => format!("ok {}", fmt_opt(&m.weight)),
                    Err(_) => "err".into(),
                };
                self.last = None;
                return (model_line, out);
            }
            _ => {}
        }
        let res: Result<AppResponse, String> = match op {
            "mint" => {
                let to = addr(kv_u64(line, "to").unwrap());
                let coins = coins_of(&kv_pairs(line, "coins").unwrap());
                w.app.sudo(SudoMsg::Bank(BankSudo::Mint { to_address: to, amount: coins })).map_err(|e| e.to_string())
            }
            "send" => {
                let from = a(kv_u64(line, "from").unwrap());
                let to = a(kv_u64(line, "to").unwrap());
                let coins = coins_of(&kv_pairs(line, "coins").unwrap());
                w.app.send_tokens(from, to, &coins).map_err(|e| e.to_string())
            }
            "update_members" => {
                let sender = a(kv_u64(line, "sender").unwrap());
                let add = members_of(&kv_pairs(line, "add").unwrap());
                let remove: Vec<String> = kv_list(line, "remove").unwrap().iter().map(|x| addr(*x as u64)).collect();
                w.app.execute_contract(sender, w.group.clone(), &cw4_group::msg::ExecuteMsg::UpdateMembers { remove, add }, &[]).map_err(|e| e.to_string())
            }
            "group_admin" => {
                let sender = a(kv_u64(line, "sender").unwrap());
                let new = kv_opt_u64(line, "new").unwrap().map(addr);
                w.app.execute_contract(sender, w.group.clone(), &cw4_group::msg::ExecuteMsg::UpdateAdmin { admin: new }, &[]).map_err(|e| e.to_string())
            }
            "splits_admin" => {
                let sender = a(kv_u64(line, "sender").unwrap());
                let new = kv_opt_u64(line, "new").unwrap().map(addr);
                w.app.execute_contract(sender, w.splits.clone(), &ExecuteMsg::UpdateAdmin { admin: new }, &[]).map_err(|e| e.to_string())
            }
            "distribute" => {
                let sender = a(kv_u64(line, "sender").unwrap());
                let funds_ids = kv_pairs(line, "funds").unwrap();
                let funds: Vec<Coin> = coins_of(&funds_ids);
                let dn = kv(line, "denoms").unwrap();
                let denom_list: Option<Vec<String>> = if dn == "none" { None } else { Some(kv_list(line, "denoms").unwrap().iter().map(|d| denom(*d as u64)).collect()) };
                // witness: what `query_all_balances(contract)` returns inside the transaction = the non-zero
                // balances after the attached funds arrived, in the bank's order (denom strings ascending)
                let mut held: BTreeMap<String, (u64, u128)> = BTreeMap::new();
                for c in w.app.wrap().query_all_balances(&w.splits).unwrap() {
                    held.insert(c.denom.clone(), (denom_id(&c.denom), c.amount.u128()));
                }
                for (d, n) in &funds_ids {
                    if sender == w.splits {
                        break; // a transfer to oneself adds nothing
                    }
                    let e = held.entry(denom(*d as u64)).or_insert((*d as u64, 0));
                    e.1 += *n;
                }
                let order: Vec<u64> = held.values().filter(|v| v.1 != 0).map(|v| v.0).collect();
                model_line = format!("{line} order={}", fmt_list(&order));
                let r = w.app.execute_contract(sender, w.splits.clone(), &ExecuteMsg::Distribute { denom_list }, &funds);
                if let Ok(resp) = &r {
                    transfers = parse_transfers(resp, &w.splits);
                }
                r.map_err(|e| e.to_string())
            }
            _ => return (model_line, "bad-op".into()),
        };
        w.app.update_block(next_block);
        let post = w.snapshot();
        let ok = res.is_ok();
        let out = if ok {
            if op == "distribute" {
                let ms: Vec<String> = transfers.iter().map(|(t, d, n)| format!("{t}:{d}:{n}")).collect();
                format!("ok msgs={} {}", if ms.is_empty() { "-".to_string() } else { ms.join(",") }, post.render())
            } else {
                format!("ok {}", post.render())
            }
        } else {
            "err".to_string()
        };
        self.last = Some(Trace { line: line.to_string(), ok, pre, post: post.clone(), transfers, splits_id: w.splits_id });
        self.cur = post;
        (model_line, out)
    }
}

impl Sut for S {
    fn begin(&mut self, header: &str) -> (String, String) {
        self.header = header.to_string();
        self.log.clear();
        self.last = None;
        self.w = catch(|| S::build_world(header)).unwrap_or(None);
        match &self.w {
            Some(w) => {
                self.cur = w.snapshot();
                (header.to_string(), format!("case ok {}", self.cur.render()))
            }
            None => {
                self.cur = Snap::default();
                (header.to_string(), "case err".into())
            }
        }
    }

    fn exec(&mut self, line: &str) -> (String, String) {
        let r = catch(|| self.exec_inner(line));
        match r {
            Ok(x) => {
                self.log.push(line.to_string());
                x
            }
            Err(_) => {
                // a panic inside the contracts = failed transaction; the App may be half-written: rebuild it
                let header = self.header.clone();
                let log = std::mem::take(&mut self.log);
                self.begin(&header);
                for l in &log {
                    let _ = catch(|| self.exec_inner(l));
                    self.log.push(l.clone());
                }
                self.last = None;
                (line.to_string(), "err".into())
            }
        }
    }

    /// The property, transcribed on the implementation's own observations (independent of the Lean model).
    fn monitor(&mut self) -> Option<(String, String)> {
        let t = self.last.clone()?;
        let op = t.line.split_whitespace().next()?.to_string();
        let bad = |p: &str, w: String| Some((format!("splits/{op}/{p}"), format!("{w} on `{}`", t.line)));
        // --- the contract (and every other op here) never creates or loses coins: only `mint` changes a supply
        let (d_pre, d_post) = (t.pre.denoms(), t.post.denoms());
        let denoms: BTreeSet<u64> = d_pre.union(&d_post).cloned().collect();
        for d in &denoms {
            let mut want = t.pre.supply(*d);
            if op == "mint" && t.ok {
                want += kv_pairs(&t.line, "coins").unwrap().iter().filter(|c| c.0 as u64 == *d).map(|c| c.1).sum::<u128>();
            }
            if t.post.supply(*d) != want {
                return bad("supply", format!("supply of denom {d} went {} -> {} (expected {want})", t.pre.supply(*d), t.post.supply(*d)));
            }
        }
        if !t.ok && t.pre != t.post {
            return bad("failed-but-changed", "a refused operation changed balances or the group".into());
        }
        if op != "distribute" {
            return None;
        }
        let me = t.splits_id;
        let sender = kv_u64(&t.line, "sender").unwrap();
        let funds = kv_pairs(&t.line, "funds").unwrap();
        // coins attached by the contract to a call to itself would not add anything (never generated; a contract cannot do it)
        let fund_of = |d: u64| -> u128 { if sender == me { 0 } else { funds.iter().filter(|f| f.0 as u64 == d).map(|f| f.1).sum() } };
        let explicit: Option<Vec<u64>> = if kv(&t.line, "denoms").unwrap() == "none" { None } else { Some(kv_list(&t.line, "denoms").unwrap().iter().map(|x| *x as u64).collect()) };
        let total = t.pre.total as u128;
        let members = &t.pre.members;
        // balance of the contract the distribution sees
        let held = |d: u64| -> u128 { t.pre.bal(me, d) + fund_of(d) };
        let all_denoms: BTreeSet<u64> = denoms.iter().cloned().chain(funds.iter().map(|f| f.0 as u64)).chain(explicit.clone().unwrap_or_default()).collect();
        let selected = |d: u64| -> bool { explicit.as_ref().map(|l| l.contains(&d)).unwrap_or(true) };
        let entitled = match t.pre.sadmin {
            Some(adm) => adm == sender,
            None => t.pre.weight(sender).is_some(),
        };
        let something = total != 0 && all_denoms.iter().any(|d| selected(*d) && held(*d) / total >= 1);
        if t.ok {
            if !entitled {
                return bad("unentitled-accepted", format!("sender {sender} is neither the admin nor (without admin) a member"));
            }
            if total == 0 {
                return bad("zero-weight-accepted", "group has no weight".into());
            }
            if members.is_empty() || members.len() > PROP_MAX_MEMBERS {
                return bad("member-count-accepted", format!("group has {} members", members.len()));
            }
            if !something {
                return bad("nothing-accepted", "no selected denom has balance >= total weight".into());
            }
            // every transfer is `weight x floor(balance / total)` of a selected denom to a member with weight > 0
            let mut want: Vec<(u64, u64, u128)> = vec![];
            let occurrences: Vec<u64> = match &explicit {
                Some(l) => l.iter().cloned().filter(|d| held(*d) != 0).collect(),
                None => all_denoms.iter().cloned().filter(|d| held(*d) != 0).collect(),
            };
            for (a_, w_) in members {
                for d in &occurrences {
                    let q = held(*d) / total;
                    if *w_ > 0 && q >= 1 {
                        want.push((*a_, *d, *w_ as u128 * q));
                    }
                }
            }
            let mut got = t.transfers.clone();
            got.sort();
            want.sort();
            if got != want {
                return bad("transfer-shape", format!("transfers {:?} are not weight x floor(balance/total) per member and denom {:?}", t.transfers, want));
            }
            for d in &all_denoms {
                let paid: u128 = t.transfers.iter().filter(|x| x.1 == *d).map(|x| x.2).sum();
                if paid > held(*d) && !members.iter().any(|m| m.0 == me && m.1 > 0) {
                    return bad("overpaid", format!("paid {paid} of denom {d}, held {}", held(*d)));
                }
            }
            let self_member = members.iter().any(|m| m.0 == me && m.1 > 0);
            if !self_member {
                for d in &all_denoms {
                    let q = if selected(*d) { held(*d) / total } else { 0 };
                    for (a_, w_) in members {
                        if *a_ == me {
                            continue;
                        }
                        let before = t.pre.bal(*a_, *d) - if *a_ == sender { fund_of(*d) } else { 0 };
                        let delta = t.post.bal(*a_, *d) as i128 - before as i128;
                        if *w_ == 0 && delta != 0 {
                            return bad("zero-weight-paid", format!("zero-weight member {a_} received {delta} of denom {d}"));
                        }
                        if delta != (*w_ as u128 * q) as i128 {
                            return bad("member-amount", format!("member {a_} (weight {w_}) received {delta} of denom {d}, expected {} = weight x floor({}/{total})", *w_ as u128 * q, held(*d)));
                        }
                    }
                    let rest = t.post.bal(me, *d);
                    if selected(*d) {
                        if rest != held(*d) % total || rest >= total {
                            return bad("remainder", format!("contract keeps {rest} of denom {d}; expected {} (< total weight {total})", held(*d) % total));
                        }
                    } else if rest != held(*d) {
                        return bad("unselected-touched", format!("denom {d} was not selected but the contract balance changed"));
                    }
                }
                // nobody else is touched
                for ((a_, d), n) in t.post.bank.iter().chain(t.pre.bank.iter()) {
                    let _ = n;
                    if *a_ == me || members.iter().any(|m| m.0 == *a_) {
                        continue;
                    }
                    let before = t.pre.bal(*a_, *d) - if *a_ == sender { fund_of(*d) } else { 0 };
                    if t.post.bal(*a_, *d) != before {
                        return bad("nonmember-changed", format!("non-member {a_} balance of denom {d} changed"));
                    }
                }
            }
        } else {
            // refusals the property demands are implied by `ok ⇒ …` above; here: a refusal must not be spurious
            // when everything is in order and the bank can cover it (exactness claim of section 3.4)
            let self_in_group = members.iter().any(|m| m.0 == me);
            let funds_ok = funds.iter().all(|f| f.1 > 0 && t.pre.bal(sender, f.0 as u64) >= fund_of(f.0 as u64)) && {
                let ds: BTreeSet<u128> = funds.iter().map(|f| f.0).collect();
                ds.len() == funds.len()
            };
            let dup_selected = explicit.as_ref().map(|l| l.iter().any(|d| l.iter().filter(|x| *x == d).count() > 1 && held(*d) / total.max(1) >= 1)).unwrap_or(false);
            if entitled && total != 0 && !members.is_empty() && members.len() <= PROP_MAX_MEMBERS && something && funds_ok && !dup_selected && !self_in_group && sender != me {
                return bad("spurious-refusal", "entitled caller, valid group, distributable balance — but refused".into());
            }
        }
        None
    }
}

// ------------------------------------------------------------------------------------------------ generators

const ADMIN: u64 = 5;
const GADMIN: u64 = 6;
const STRANGER: u64 = 7;
const DEPOSITOR: u64 = 8;

fn pick_weight(rng: &mut Rng, profile: u64) -> u64 {
    match profile {
        0 => rng.range(0, 3),                                          // tiny incl. zero
        1 => 1,                                                        // all equal
        2 => *rng.pick(&[0u64, 1, 2, 3, 5, 10, 100, 1000]),           // small mixed
        3 => *rng.pick(&[0u64, 1, 1 << 32, (1 << 32) + 1, 1 << 40]),  // mixed with large
        4 => *rng.pick(&[1u64 << 62, (1 << 62) - 1, 1 << 59, 1, 0]),  // sums near / over u64::MAX
        5 => 0,                                                        // no weight at all
        _ => rng.sized_u128(48) as u64,
    }
}

fn gen_members(rng: &mut Rng, size: usize, profile: u64, extra: Option<(u64, u64)>) -> Vec<(u64, u64)> {
    let mut ids: Vec<u64> = (10..=80).collect();
    rng.shuffle(&mut ids);
    let mut v: Vec<(u64, u64)> = ids[..size.min(ids.len())].iter().map(|i| (*i, pick_weight(rng, profile))).collect();
    if let Some(e) = extra {
        v.push(e);
    }
    rng.shuffle(&mut v);
    v
}

fn size_class(n: usize) -> &'static str {
    match n {
        0 => "0",
        1 => "1",
        2..=23 => "2-23",
        24 => "24",
        25 => "25",
        26 => "26",
        27..=29 => "27-29",
        30 => "30",
        31 => "31",
        _ => ">31",
    }
}

fn bal_class(b: u128, t: u128) -> &'static str {
    if t == 0 {
        return "T0";
    }
    if b == 0 {
        "zero"
    } else if b < t - 1 {
        "below"
    } else if b == t - 1 {
        "T-1"
    } else if b == t {
        "T"
    } else if b == t + 1 {
        "T+1"
    } else if b % t == 0 {
        "kT"
    } else if b % t == t - 1 {
        "kT-1"
    } else {
        "kT+r"
    }
}

fn weight_class(w: Option<u64>) -> &'static str {
    match w {
        None => "none",
        Some(0) => "w0",
        Some(1) => "w1",
        Some(x) if x < (1 << 32) => "wsmall",
        Some(_) => "wlarge",
    }
}

struct G<'a> {
    ses: &'a mut Session,
    sut: &'a mut S,
    rng: Rng,
}

impl<'a> G<'a> {
    fn step(&mut self, line: String) -> String {
        self.ses.step(self.sut, &line)
    }
    fn alive(&self) -> bool {
        self.sut.w.is_some()
    }
    fn me(&self) -> u64 {
        self.sut.w.as_ref().map(|w| w.splits_id).unwrap_or(0)
    }

    /// header for a fresh world; returns whether instantiation succeeded
    fn start(&mut self, tag: &str, mode: &str, admin: Option<u64>, gadmin: Option<u64>, members: &[(u64, u64)]) -> bool {
        let (s, g) = match mode {
            "addr" => (1001, 1000),
            "inst" => (1000, 1001),
            _ => (1000, 999),
        };
        let h = format!("case {tag} mode={mode} self={s} group={g} admin={} gadmin={} members={}", fmt_opt(&admin), fmt_opt(&gadmin), fmt_pairs(members));
        self.ses.begin_case(self.sut, &h);
        let ok = self.alive();
        let total: u128 = members.iter().map(|m| m.1 as u128).sum();
        self.ses.mark(format!("inst:{mode}:{}:n{}:{}:{}", if ok { "ok" } else { "err" }, size_class(members.len()), if total == 0 { "T0" } else if total > u64::MAX as u128 { "Tover" } else { "Tpos" }, admin.is_some()));
        ok
    }

    /// amount that brings the contract's balance of `d` to a chosen relation with the total weight
    fn deposit_amount(&mut self, d: u64) -> u128 {
        let t = self.sut.cur.total as u128;
        let cur = self.sut.cur.bal(self.me(), d);
        if t == 0 {
            return self.rng.range(1, 1000) as u128;
        }
        let k = match self.rng.below(4) {
            0 => 1,
            1 => 2,
            2 => self.rng.range(3, 1000) as u128,
            _ => self.rng.sized_u128(30).max(1),
        };
        let target = match self.rng.below(9) {
            0 => t - 1,
            1 => t,
            2 => t + 1,
            3 => k * t,
            4 => k * t + (t - 1),
            5 => k * t + self.rng.next_u128() % t,
            6 => t / 2,
            7 => 2 * t - 1,
            _ => self.rng.sized_u128(100),
        };
        if target > cur {
            target - cur
        } else {
            self.rng.range(1, 50) as u128
        }
    }

    fn deposit(&mut self, denoms: &[u64]) {
        let me = self.me();
        let mut coins: Vec<(u64, u128)> = vec![];
        for d in denoms {
            let n = self.deposit_amount(*d);
            coins.push((*d, n));
        }
        if self.rng.chance(1, 40) {
            coins.push((4, 0)); // a zero coin: dropped by the bank
        }
        if self.rng.chance(1, 3) {
            // a real transfer from a funded account
            self.step(format!("mint to={DEPOSITOR} coins={}", fmt_pairs(&coins.iter().filter(|c| c.1 > 0).cloned().collect::<Vec<_>>())));
            self.step(format!("send from={DEPOSITOR} to={me} coins={}", fmt_pairs(&coins)));
            self.ses.mark("deposit:send");
        } else {
            self.step(format!("mint to={me} coins={}", fmt_pairs(&coins)));
            self.ses.mark("deposit:mint");
        }
    }

    fn pick_sender(&mut self, valid: bool) -> (u64, &'static str) {
        let cur = self.sut.cur.clone();
        let members = &cur.members;
        // the contract itself never signs transactions
        let me = self.me();
        let pos: Vec<u64> = members.iter().filter(|m| m.1 > 0 && m.0 != me).map(|m| m.0).collect();
        let zero: Vec<u64> = members.iter().filter(|m| m.1 == 0 && m.0 != me).map(|m| m.0).collect();
        if valid {
            match cur.sadmin {
                Some(adm) => (adm, "admin"),
                None => {
                    if !zero.is_empty() && self.rng.chance(1, 4) {
                        (*self.rng.pick(&zero), "member0")
                    } else if !pos.is_empty() {
                        (*self.rng.pick(&pos), "member+")
                    } else if !zero.is_empty() {
                        (*self.rng.pick(&zero), "member0")
                    } else {
                        (STRANGER, "stranger")
                    }
                }
            }
        } else {
            match (cur.sadmin, self.rng.below(4)) {
                (Some(_), 0) if !pos.is_empty() => (*self.rng.pick(&pos), "member-while-admin"),
                (Some(_), 1) if !zero.is_empty() => (*self.rng.pick(&zero), "member0-while-admin"),
                (None, 0) => (ADMIN, "former-admin"),
                (_, 2) => (cur.gadmin.unwrap_or(GADMIN), "group-admin"),
                _ => (STRANGER, "stranger"),
            }
        }
    }

    fn distribute(&mut self, valid_sender: bool) -> bool {
        let me = self.me();
        let cur = self.sut.cur.clone();
        let (sender, sclass) = self.pick_sender(valid_sender);
        let held: Vec<u64> = cur.bank.iter().filter(|((a_, _), n)| *a_ == me && **n != 0).map(|((_, d), _)| *d).collect();
        let (denoms, dclass): (String, &str) = match self.rng.below(12) {
            0..=3 => ("none".into(), "implicit"),
            4 | 5 => (fmt_list(&held), "explicit-all"),
            6 => {
                let mut h = held.clone();
                self.rng.shuffle(&mut h);
                h.truncate((h.len() + 1) / 2);
                (fmt_list(&h), "explicit-subset")
            }
            7 => {
                let mut h = held.clone();
                h.push(9);
                h.insert(0, 8);
                (fmt_list(&h), "explicit-with-empty-denoms")
            }
            8 => {
                let mut h = held.clone();
                if let Some(x) = h.first().cloned() {
                    h.push(x);
                }
                (fmt_list(&h), "explicit-duplicate")
            }
            9 => ("-".into(), "explicit-empty"),
            10 => ("9".into(), "explicit-unknown"),
            _ => {
                let mut h = held.clone();
                h.reverse();
                (fmt_list(&h), "explicit-reversed")
            }
        };
        // sometimes coins ride along with the call itself
        let mut funds: Vec<(u64, u128)> = vec![];
        let mut fclass = "nofunds";
        if self.rng.chance(1, 8) {
            let d = self.rng.below(3);
            let n = if cur.total > 0 && self.rng.chance(1, 2) { cur.total as u128 } else { self.rng.range(1, 500) as u128 };
            funds.push((d, n));
            if self.rng.chance(5, 6) {
                self.step(format!("mint to={sender} coins={d}:{n}"));
                fclass = "funds";
            } else {
                fclass = "funds-uncovered";
            }
        }
        let t = cur.total as u128;
        let sel: Vec<u64> = if denoms == "none" { held.clone() } else { kv_list(&format!("x={denoms}"), "x").unwrap().iter().map(|x| *x as u64).collect() };
        let best = sel.iter().map(|d| cur.bal(me, *d) + funds.iter().filter(|f| f.0 == *d).map(|f| f.1).sum::<u128>()).max().unwrap_or(0);
        let out = self.step(format!("distribute sender={sender} funds={} denoms={denoms}", fmt_pairs(&funds)));
        let ok = out.starts_with("ok");
        self.ses.mark(format!(
            "dist:{}:{sclass}:n{}:{dclass}:{}:{fclass}:{}",
            if ok { "ok" } else { "err" },
            size_class(cur.members.len()),
            bal_class(best, t),
            weight_class(cur.weight(sender))
        ));
        self.ses.count(if ok { "distribute:ok" } else { "distribute:err" });
        if !ok {
            let entitled = match cur.sadmin {
                Some(adm) => adm == sender,
                None => cur.weight(sender).is_some(),
            };
            let why = if !entitled {
                "not-entitled"
            } else if t == 0 {
                "no-weight"
            } else if cur.members.is_empty() {
                "no-members"
            } else if cur.members.len() > PROP_MAX_MEMBERS {
                "too-many"
            } else if fclass == "funds-uncovered" {
                "funds-uncovered"
            } else if best < t {
                "nothing"
            } else {
                "bank-or-other"
            };
            self.ses.count(&format!("refused:{why}"));
        }
        ok
    }

    fn update_members(&mut self, valid: bool) {
        let cur = self.sut.cur.clone();
        let sender = if valid { cur.gadmin.unwrap_or(GADMIN) } else { *self.rng.pick(&[STRANGER, ADMIN, cur.members.first().map(|m| m.0).unwrap_or(STRANGER)]) };
        let mut add: Vec<(u64, u64)> = vec![];
        let mut remove: Vec<u64> = vec![];
        let profile = self.rng.below(5);
        let kind = self.rng.below(10);
        let kclass = match kind {
            0 | 1 => {
                // change weights of existing members (incl. to / from zero)
                for _ in 0..self.rng.range(1, 3) {
                    if let Some(m) = cur.members.get(self.rng.below(cur.members.len().max(1) as u64) as usize) {
                        if !add.iter().any(|x| x.0 == m.0) {
                            add.push((m.0, pick_weight(&mut self.rng, profile)));
                        }
                    }
                }
                "reweight"
            }
            2 | 3 => {
                for _ in 0..self.rng.range(1, 4) {
                    let id = self.rng.range(10, 99);
                    if !add.iter().any(|x| x.0 == id) {
                        add.push((id, pick_weight(&mut self.rng, profile)));
                    }
                }
                "add"
            }
            4 | 5 => {
                for _ in 0..self.rng.range(1, 3) {
                    if let Some(m) = cur.members.get(self.rng.below(cur.members.len().max(1) as u64) as usize) {
                        remove.push(m.0);
                    }
                }
                if self.rng.chance(1, 3) {
                    remove.push(self.rng.range(10, 99)); // possibly not a member
                }
                "remove"
            }
            6 => {
                // add and remove the same address: remove wins
                let id = self.rng.range(10, 99);
                add.push((id, pick_weight(&mut self.rng, profile)));
                remove.push(id);
                "add+remove-same"
            }
            7 => {
                let id = self.rng.range(10, 99);
                add.push((id, 1));
                add.push((id, 2));
                "duplicate-add"
            }
            8 => {
                // grow towards / across the 25 / 30 boundaries
                let want = *self.rng.pick(&[24usize, 25, 26, 30, 31]);
                let mut id = 100;
                while cur.members.len() + add.len() < want {
                    if !cur.members.iter().any(|m| m.0 == id) {
                        add.push((id, pick_weight(&mut self.rng, 2)));
                    }
                    id += 1;
                }
                "grow"
            }
            _ => {
                // shrink to a boundary
                let want = *self.rng.pick(&[0usize, 1, 25]);
                for m in cur.members.iter().skip(want) {
                    remove.push(m.0);
                }
                "shrink"
            }
        };
        self.rng.shuffle(&mut add);
        let out = self.step(format!("update_members sender={sender} add={} remove={}", fmt_pairs(&add), fmt_list(&remove)));
        self.ses.mark(format!("upd:{kclass}:{}:{}", if valid { "admin" } else { "other" }, if out.starts_with("ok") { "ok" } else { "err" }));
    }

    fn admin_change(&mut self) {
        let cur = self.sut.cur.clone();
        let which = self.rng.below(2);
        let valid = self.rng.chance(3, 4);
        let new: Option<u64> = match self.rng.below(4) {
            0 => None,
            1 => Some(ADMIN),
            2 => cur.members.first().map(|m| m.0),
            _ => Some(GADMIN),
        };
        if which == 0 {
            let sender = if valid { cur.sadmin.unwrap_or(ADMIN) } else { STRANGER };
            let out = self.step(format!("splits_admin sender={sender} new={}", fmt_opt(&new)));
            self.ses.mark(format!("sadmin:{}:{}:{}", cur.sadmin.is_some(), new.is_some(), out.starts_with("ok")));
        } else {
            let sender = if valid { cur.gadmin.unwrap_or(GADMIN) } else { STRANGER };
            let out = self.step(format!("group_admin sender={sender} new={}", fmt_opt(&new)));
            self.ses.mark(format!("gadmin:{}:{}:{}", cur.gadmin.is_some(), new.is_some(), out.starts_with("ok")));
        }
    }

    fn queries(&mut self) {
        let cur = self.sut.cur.clone();
        let start: Option<u64> = match self.rng.below(3) {
            0 => None,
            1 => cur.members.get(self.rng.below(cur.members.len().max(1) as u64) as usize).map(|m| m.0),
            _ => Some(self.rng.range(5, 120)),
        };
        let limit: Option<u64> = match self.rng.below(6) {
            0 => None,
            1 => Some(0),
            2 => Some(30),
            3 => Some(31),
            4 => Some(1000),
            _ => Some(self.rng.range(1, 29)),
        };
        self.step(format!("q_members start={} limit={}", fmt_opt(&start), fmt_opt(&limit)));
        self.ses.mark(format!("q_members:{}:{}:n{}", start.is_some(), fmt_opt(&limit.map(|l| l.min(32))), size_class(cur.members.len())));
        let who = if self.rng.chance(1, 2) { cur.members.first().map(|m| m.0).unwrap_or(STRANGER) } else { self.rng.range(5, 99) };
        self.step(format!("q_member addr={who}"));
        self.ses.mark(format!("q_member:{}", weight_class(cur.weight(who))));
    }
}

fn main() {
    let mut ses = Session::new("C15");
    let mut sut = S { w: None, header: String::new(), log: vec![], cur: Snap::default(), last: None };
    if ses.maybe_replay(&mut sut) {
        ses.finish(&mut sut);
    }
    let rng = ses.rng.fork();
    let n_grid = ses.scale(2, 60);
    let n_hist = ses.scale(1200, 45_000);
    let mut g = G { ses: &mut ses, sut: &mut sut, rng };

    // ---- 1. the size × mode × weight-profile grid: instantiate, deposit at a chosen relation to the total weight,
    //         distribute (entitled and not), distribute again (now only the remainder is left), deposit, distribute
    for _round in 0..n_grid {
        for &size in &[0usize, 1, 2, 3, 7, 24, 25, 26, 29, 30, 31, 35] {
            for mode in ["addr", "inst"] {
                for profile in [0u64, 1, 2, 3, 4, 5] {
                    let members = gen_members(&mut g.rng, size, profile, None);
                    let admin = if g.rng.chance(1, 3) { Some(ADMIN) } else { None };
                    if !g.start("grid", mode, admin, Some(GADMIN), &members) {
                        g.ses.end_case();
                        continue;
                    }
                    let nd = g.rng.range(1, 3);
                    let ds: Vec<u64> = (0..nd).collect();
                    g.deposit(&ds);
                    g.distribute(false);
                    g.distribute(true);
                    g.distribute(true);
                    g.queries();
                    let d3 = g.rng.below(3);
                    g.deposit(&[d3]);
                    g.distribute(true);
                    g.ses.end_case();
                }
            }
        }
    }

    // ---- 2. instantiate corner cases
    {
        // the group address is not a contract
        g.start("bad-group", "bad", None, None, &[]);
        g.ses.end_case();
        // duplicate members in the group's instantiate message
        g.start("dup-members", "addr", None, Some(GADMIN), &[(10, 1), (11, 2), (10, 3)]);
        g.ses.end_case();
        g.start("dup-members", "inst", None, Some(GADMIN), &[(10, 1), (11, 2), (10, 3)]);
        g.ses.end_case();
        // total weight exactly u64::MAX and one above
        g.start("u64max", "addr", None, Some(GADMIN), &[(10, u64::MAX - 1), (11, 1)]);
        if g.alive() {
            g.deposit(&[0]);
            g.distribute(true);
            g.step(format!("update_members sender={GADMIN} add=12:1 remove=-"));
            g.step(format!("update_members sender={GADMIN} add=10:5,12:1 remove=-"));
            g.step(format!("update_members sender={GADMIN} add=12:1,10:5 remove=-"));
            g.distribute(true);
        }
        g.ses.end_case();
        g.start("u64over", "addr", None, Some(GADMIN), &[(10, u64::MAX), (11, 1)]);
        g.ses.end_case();
        g.start("u64over", "inst", None, Some(GADMIN), &[(10, u64::MAX), (11, 1)]);
        g.ses.end_case();
    }

    // ---- 3. the splits contract is a member of its own group (it pays itself)
    for i in 0..g.ses.scale(12, 600) {
        let w_self = *g.rng.pick(&[0u64, 1, 9, 1000]);
        let size = g.rng.range(1, 4) as usize;
        let profile = g.rng.below(4);
        let members = gen_members(&mut g.rng, size, profile, Some((1001, w_self)));
        let admin = if i % 2 == 0 { Some(ADMIN) } else { None };
        if g.start("self-member", "addr", admin, Some(GADMIN), &members) {
            g.deposit(&[0, 1]);
            g.distribute(true);
            g.deposit(&[0]);
            g.distribute(true);
            g.distribute(true);
            g.ses.mark(format!("self-member:w{}", w_self.min(2)));
        }
        g.ses.end_case();
    }

    // ---- 3b. … and is paid FIRST (inst mode: splits = contract0 < group = contract1, the group contract being the
    //          other member): with a denom listed twice the self-payments are no-ops and the duplicate goes through
    for i in 0..g.ses.scale(6, 300) {
        let w_self = *g.rng.pick(&[9u64, 1, 1000]);
        let w_other = g.rng.range(1, 3);
        let members = vec![(1000u64, w_self), (1001u64, w_other)];
        if g.start("self-member-first", "inst", Some(ADMIN), Some(GADMIN), &members) {
            let me = g.me();
            let t = (w_self + w_other) as u128;
            let amt = t * g.rng.range(1, 20) as u128 + g.rng.below(t as u64) as u128;
            g.step(format!("mint to={me} coins=0:{amt}"));
            let dl = if i % 3 == 0 { "0" } else { "0,0" };
            let out = g.step(format!("distribute sender={ADMIN} funds=- denoms={dl}"));
            g.ses.mark(format!("self-member-first:{dl}:{}", out.starts_with("ok")));
            g.distribute(true);
        }
        g.ses.end_case();
    }

    // ---- 4. histories: deposits, weight changes, admin changes and distributions interleaved
    for _ in 0..n_hist {
        let size = match g.rng.below(20) {
            0 => 1,
            1 => 24,
            2 | 3 => 25,
            4 => 26,
            5 => 30,
            6 => 31,
            _ => g.rng.range(1, 12) as usize,
        };
        let profile = g.rng.below(7);
        let mode = if g.rng.chance(1, 2) { "addr" } else { "inst" };
        let members = gen_members(&mut g.rng, size, profile, None);
        let admin = match g.rng.below(4) {
            0 => Some(ADMIN),
            1 => members.first().map(|m| m.0),
            _ => None,
        };
        let gadmin = if g.rng.chance(1, 12) { None } else { Some(GADMIN) };
        if !g.start("history", mode, admin, gadmin, &members) {
            g.ses.end_case();
            continue;
        }
        let len = g.rng.range(6, 22);
        for _ in 0..len {
            match g.rng.below(20) {
                0..=5 => {
                    let nd = g.rng.range(1, 3);
                    let mut ds: Vec<u64> = vec![0, 1, 2, 3];
                    g.rng.shuffle(&mut ds);
                    ds.truncate(nd as usize);
                    g.deposit(&ds);
                }
                6..=12 => {
                    if g.rng.chance(3, 5) {
                        let mut ds: Vec<u64> = vec![0, 1, 2, 3];
                        g.rng.shuffle(&mut ds);
                        ds.truncate(g.rng.range(1, 2) as usize);
                        g.deposit(&ds);
                    }
                    let valid = g.rng.chance(7, 8);
                    g.distribute(valid);
                }
                13..=16 => {
                    let valid = g.rng.chance(5, 6);
                    g.update_members(valid);
                }
                17 => g.admin_change(),
                18 => g.queries(),
                _ => {
                    // a member moves its own coins around (not a deposit)
                    let cur = g.sut.cur.clone();
                    if let Some(((a_, d), n)) = cur.bank.iter().find(|((a_, _), n)| *a_ != g.me() && **n > 0).map(|(k, v)| (*k, *v)) {
                        let amt = if g.rng.chance(1, 5) { n + 1 } else { g.rng.range(1, n.min(1 << 60) as u64) as u128 };
                        let to = if g.rng.chance(1, 2) { g.me() } else { STRANGER };
                        let out = g.step(format!("send from={a_} to={to} coins={d}:{amt}"));
                        g.ses.mark(format!("send:{}:{}", amt > n, out.starts_with("ok")));
                    }
                }
            }
        }
        // always end on a funded distribution by an entitled caller
        g.deposit(&[0]);
        g.distribute(true);
        g.ses.end_case();
    }

    ses.note("groups of 0..35 members; weights 0, 1, small, 2^32.., near 2^62 (sums up to and over u64::MAX); balances T-1, T, T+1, kT, kT+T-1, kT+r, T/2, 2T-1, random up to 2^100; denoms 0..3 (+ unknown 8, 9); explicit / implicit / duplicate / empty denom lists; funds attached to the call; admin set / unset; the contract as a member of its own group");
    ses.finish(&mut sut);
}
