//! C15 — splits. The REAL `sg-splits` + the REAL external `cw4-group` in a cw-multi-test `App` (real bank keeper)
//! vs the Lean model `LP.Splits` (driver `drv_c15`).
//!
//! Lines (see lean/LaunchpadModel/Driver/C15.lean):
//!   case mode=<addr|inst|bad> self=<id> group=<id> admin=<a|-> gadmin=<a|-> members=<a:w,..|->
//!   mint to=<a> coins=<d:n,..>            send from=<a> to=<a> coins=<d:n,..>
//!   update_members sender=<a> add=<a:w,..|-> remove=<a,..|->
//!   group_admin sender=<a> new=<a|->      splits_admin sender=<a> new=<a|->
//!   distribute sender=<a> funds=<d:n,..|-> denoms=<none|-|d,..>       (+ witness ` order=<d,..>` for the model)
//!   q_members start=<a|-> limit=<n|->     q_member addr=<a>
//!   exec_raw sender=<a> funds=<d:n,..|-> v=<variant name> k=<n>       (an execute message the contract does not have — or has
//!                                                                      only since a change: built from the crate's JSON schema)
//!   migrate sender=<a> from=<same|old|newer|other>
//!   any line may end in ` hold=1`: the block is NOT advanced after it (the next op runs in the same block)
//!
//! All messages to the splits contract are raw JSON (`serde_json::json!`): a changed Rust type changes behaviour, not compilation.
//! The message surface is enumerated at RUN TIME from `schema_for!(sg_splits::msg::ExecuteMsg)`; variants without a named op here
//! are sent through `exec_raw` under the same monitors.
//!
//! Output = `primary ## drift` (docs/HARNESS.md): primary = ok/err, `paid=` (net gain of every account other than the contract,
//! from BANK BALANCES, sorted), splits admin, group total + members, all balances. Drift = cw4-group's admin, the bank messages in
//! emission order (parsed from cw-multi-test's `transfer` events), ok/err of `exec_raw`/`migrate`, `q_members` pages other than the
//! one `execute_distribute` asks for.
use std::collections::{BTreeMap, BTreeSet};

use cosmwasm_std::{to_json_binary, Addr, Coin};
use cw4::{Member, MemberListResponse, TotalWeightResponse};
use cw_controllers::AdminResponse;
use cw_multi_test::{next_block, AppResponse, BankSudo, Executor, SudoMsg};
use lp_harness::boxes::{self, App};
use lp_harness::world::*;
use lp_harness::*;
use serde_json::{json, Map, Value};

const CREATOR: u64 = 900;
/// the literal of the property text ("more than 25")
const PROP_MAX_MEMBERS: usize = 25;
/// the page `execute_distribute` asks cw4-group for (only used to decide which `q_members` answers are inside the projection)
const SPLITS_PAGE: u64 = sg_splits::contract::PAGINATION_LIMIT as u64;

// ------------------------------------------------------------------------------------------------ run-time message surface

/// execute variants this file has a NAMED op for; everything else found in the schema goes through `exec_raw`
const KNOWN_EXEC: [&str; 2] = ["update_admin", "distribute"];
/// messages the contract does NOT have (today they fail at parsing); kept in the generator so that the monitors are already in
/// place when one of them — or anything else — becomes a real message
const HYPOTHETICAL: [&str; 10] = ["withdraw", "burn", "sweep", "send", "transfer", "claim", "update_group", "set_group", "update_members", "receive"];

fn exec_schema() -> Value {
    serde_json::to_value(cosmwasm_schema::schema_for!(sg_splits::msg::ExecuteMsg)).expect("schema to json")
}

/// (variant name in snake case, schema of its payload; None for a unit variant serialised as a bare string)
fn schema_variants(root: &Value) -> Vec<(String, Option<Value>)> {
    let mut out = vec![];
    let mut alts: Vec<Value> = vec![];
    for k in ["oneOf", "anyOf"] {
        if let Some(a) = root[k].as_array() {
            alts.extend(a.iter().cloned());
        }
    }
    if alts.is_empty() {
        alts.push(root.clone());
    }
    for alt in alts {
        if let Some(en) = alt["enum"].as_array() {
            for e in en {
                if let Some(s) = e.as_str() {
                    out.push((s.to_string(), None));
                }
            }
        } else if let Some(req) = alt["required"].as_array() {
            if let Some(name) = req.first().and_then(|x| x.as_str()) {
                out.push((name.to_string(), Some(alt["properties"][name].clone())));
            }
        }
    }
    out.sort_by(|a, b| a.0.cmp(&b.0));
    out.dedup_by(|a, b| a.0 == b.0);
    out
}

/// minimal JSON value for a schema: integers = k, numeric strings = k, addresses = `who`, denoms = ustars, options = null,
/// arrays = one element
fn fill(s: &Value, defs: &Value, k: u128, who: &str, hint: &str, depth: u32) -> Value {
    if depth > 8 {
        return Value::Null;
    }
    if let Some(r) = s["$ref"].as_str() {
        let name = r.rsplit('/').next().unwrap_or("");
        return fill(&defs[name], defs, k, who, hint, depth + 1);
    }
    if let Some(a) = s["allOf"].as_array() {
        if let Some(f) = a.first() {
            return fill(f, defs, k, who, hint, depth + 1);
        }
    }
    for key in ["anyOf", "oneOf"] {
        if let Some(a) = s[key].as_array() {
            if a.iter().any(|x| x["type"] == "null") {
                return Value::Null;
            }
            if let Some(f) = a.first() {
                if let Some(req) = f["required"].as_array().and_then(|r| r.first()).and_then(|x| x.as_str()) {
                    let mut m = Map::new();
                    m.insert(req.to_string(), fill(&f["properties"][req], defs, k, who, req, depth + 1));
                    return Value::Object(m);
                }
                return fill(f, defs, k, who, hint, depth + 1);
            }
        }
    }
    if let Some(en) = s["enum"].as_array() {
        return en.first().cloned().unwrap_or(Value::Null);
    }
    let ty: String = match &s["type"] {
        Value::String(t) => t.clone(),
        Value::Array(ts) => {
            if ts.iter().any(|t| t == "null") {
                return Value::Null;
            }
            ts.first().and_then(|t| t.as_str()).unwrap_or("").to_string()
        }
        _ => String::new(),
    };
    match ty.as_str() {
        "integer" | "number" => json!(k.min(u32::MAX as u128) as u64),
        "string" => {
            let h = hint.to_lowercase();
            if ["addr", "recipient", "to", "contract", "owner", "sender", "admin", "member", "group"].iter().any(|w| h == *w || (w.len() > 2 && h.contains(w))) {
                json!(who)
            } else if h.contains("denom") {
                json!(dn(0))
            } else {
                json!(k.to_string())
            }
        }
        "boolean" => json!(k % 2 == 1),
        "array" => {
            if s["items"].is_object() {
                json!([fill(&s["items"], defs, k, who, hint, depth + 1)])
            } else {
                json!([])
            }
        }
        "object" => {
            let mut m = Map::new();
            if let Some(req) = s["required"].as_array() {
                for r in req.iter().filter_map(|x| x.as_str()) {
                    m.insert(r.to_string(), fill(&s["properties"][r], defs, k, who, r, depth + 1));
                }
            }
            Value::Object(m)
        }
        _ => Value::Null,
    }
}

/// the raw message for `exec_raw v=<name> k=<k>`: from the schema when the crate has such a variant, `{"<name>":{}}` otherwise
fn raw_msg(root: &Value, name: &str, k: u128, who: &str) -> Value {
    let defs = &root["definitions"];
    for (n, payload) in schema_variants(root) {
        if n == name {
            return match payload {
                None => json!(name),
                Some(p) => {
                    let mut m = Map::new();
                    m.insert(name.to_string(), fill(&p, defs, k, who, name, 0));
                    Value::Object(m)
                }
            };
        }
    }
    let mut m = Map::new();
    m.insert(name.to_string(), json!({}));
    Value::Object(m)
}


// ------------------------------------------------------------------------------------------------ denoms (local naming)

/// Bank denoms are case-sensitive byte strings. Besides the shared `ustars` / `denom{n}` names this file uses
/// * 20 = an IBC voucher denom (`ibc/<UPPER-CASE SHA-256 hex>`), 21 = a token-factory denom with a mixed-case subdenom,
///   22 = the lower-cased twin of 20 (a DIFFERENT denom) — all three can be minted, held, attached and listed;
/// * 30 = `" ustars"`, 31 = `"ustars "`, 32 = `"USTARS"`, 33 = `" ibc/<UPPER> "`: strings that only ever appear as ENTRIES of a
///   `denom_list`. Nobody holds them, so listing them selects nothing — they are not `ustars` / denom 20.
/// The model sees the ids only (distinct naturals = distinct denoms).
const DN_IBC_UP: u64 = 20;
const DN_FACTORY_MIXED: u64 = 21;
const DN_IBC_LOW: u64 = 22;
const DN_ALIASES: [u64; 4] = [30, 31, 32, 33];
const IBC_UP: &str = "ibc/27394FB092D2ECCD56123C74F36E4C1F926001CEADA9CA97EA622B25F41E5EB2";
const FACTORY_MIXED: &str = "factory/acct00900/uSplitLP";

fn dn(id: u64) -> String {
    match id {
        20 => IBC_UP.to_string(),
        21 => FACTORY_MIXED.to_string(),
        22 => IBC_UP.to_lowercase(),
        30 => format!(" {}", denom(0)),
        31 => format!("{} ", denom(0)),
        32 => denom(0).to_uppercase(),
        33 => format!(" {IBC_UP} "),
        n => denom(n),
    }
}
fn dn_id(s: &str) -> u64 {
    for id in [20u64, 21, 22, 30, 31, 32, 33] {
        if s == dn(id) {
            return id;
        }
    }
    denom_id(s)
}
fn coins15(pairs: &[(u128, u128)]) -> Vec<Coin> {
    pairs.iter().map(|(d, a)| cosmwasm_std::coin(*a, dn(*d as u64))).collect()
}

// ------------------------------------------------------------------------------------------------ observations

type Bal = BTreeMap<(u64, u64), u128>;

#[derive(Clone, Debug, Default, PartialEq)]
struct Snap {
    sadmin: Option<u64>,
    gadmin: Option<u64>,
    total: u64,
    members: Vec<(u64, u64)>,
    bank: Bal,
}

impl Snap {
    /// inside the projection
    fn render(&self) -> String {
        let bank: Vec<String> = self.bank.iter().filter(|(_, v)| **v != 0).map(|((a, d), n)| format!("{a}:{d}:{n}")).collect();
        format!(
            "sadmin={} total={} members={} bank={}",
            fmt_opt(&self.sadmin),
            self.total,
            fmt_pairs(&self.members),
            if bank.is_empty() { "-".to_string() } else { bank.join(",") }
        )
    }
    /// outside the projection
    fn render_drift(&self) -> String {
        format!("gadmin={}", fmt_opt(&self.gadmin))
    }
    fn bal(&self, a: u64, d: u64) -> u128 {
        *self.bank.get(&(a, d)).unwrap_or(&0)
    }
    fn weight(&self, a: u64) -> Option<u64> {
        self.members.iter().find(|m| m.0 == a).map(|m| m.1)
    }
    /// total of denom `d` over all tracked accounts as (number of u128 overflows, wrapped sum): balances go up to u128::MAX
    fn supply(&self, d: u64) -> (u32, u128) {
        let mut hi = 0u32;
        let mut lo = 0u128;
        for ((_, dd), n) in &self.bank {
            if *dd == d {
                let (s, o) = lo.overflowing_add(*n);
                lo = s;
                if o {
                    hi += 1;
                }
            }
        }
        (hi, lo)
    }
    fn denoms(&self) -> BTreeSet<u64> {
        self.bank.keys().map(|k| k.1).collect()
    }
}

fn add_wide(x: (u32, u128), n: u128) -> (u32, u128) {
    let (s, o) = x.1.overflowing_add(n);
    (x.0 + o as u32, s)
}

struct World {
    app: App,
    splits: Addr,
    group: Addr,
    splits_id: u64,
    group_id: u64,
    tracked: BTreeSet<u64>,
    /// cw2 record the contract wrote at instantiation (name, version)
    cw2: (String, String),
}

impl World {
    fn snapshot(&self) -> Snap {
        let q = self.app.wrap();
        // the splits contract's own admin (code under test) — the monitors compare it with the harness's ledger of accepted
        // UpdateAdmin calls instead of trusting it
        let sadmin: Value = q.query_wasm_smart(&self.splits, &json!({"admin": {}})).expect("splits admin");
        let sadmin: Option<u64> = sadmin["admin"].as_str().map(addr_id);
        // the group is read from cw4-group directly (external crate, not the code under test), page by page
        let gadmin: AdminResponse = q.query_wasm_smart(&self.group, &cw4_group::msg::QueryMsg::Admin {}).expect("group admin");
        let total: TotalWeightResponse = q.query_wasm_smart(&self.group, &cw4_group::msg::QueryMsg::TotalWeight { at_height: None }).expect("total");
        let mut members: Vec<(u64, u64)> = vec![];
        let mut start: Option<String> = None;
        loop {
            let page: MemberListResponse = q
                .query_wasm_smart(&self.group, &cw4_group::msg::QueryMsg::ListMembers { start_after: start.clone(), limit: Some(30) })
                .expect("list members");
            if page.members.is_empty() {
                break;
            }
            start = Some(page.members.last().unwrap().addr.clone());
            for m in page.members {
                members.push((addr_id(&m.addr), m.weight));
            }
        }
        let mut bank = Bal::new();
        for id in &self.tracked {
            for c in q.query_all_balances(addr(*id)).expect("balances") {
                bank.insert((*id, dn_id(&c.denom)), c.amount.u128());
            }
        }
        Snap { sadmin, gadmin: gadmin.admin.map(|s| addr_id(&s)), total: total.weight, members, bank }
    }
}

/// what the monitor looks at: one executed op with before/after observations and what the harness itself knows
#[derive(Clone, Debug)]
struct Trace {
    line: String,
    ok: bool,
    pre: Snap,
    post: Snap,
    /// bank transfers out of the splits contract as cw-multi-test's events report them, in order: (recipient, denom, amount);
    /// None when the events could not be parsed (then only the balance-based monitors run)
    events: Option<Vec<(u64, u64, u128)>>,
    splits_id: u64,
    /// the admin of the splits contract according to the harness's own ledger (header + accepted UpdateAdmin), before the op
    ledger_admin: Option<u64>,
}

struct S {
    w: Option<World>,
    header: String,
    log: Vec<String>,
    cur: Snap,
    last: Option<Trace>,
    schema: Value,
    /// admin ledger: what the harness sent, never what the contract answers
    ledger_admin: Option<u64>,
    /// how often the event list and the balance deltas told different stories (events are then ignored)
    events_unreliable: u64,
}

fn ids_in_line(line: &str) -> Vec<u64> {
    let mut v = vec![];
    for k in ["to", "from", "sender", "new", "addr", "start", "admin", "gadmin", "self", "group"] {
        if let Some(Some(x)) = kv_opt_u64(line, k) {
            v.push(x);
        }
    }
    for k in ["add", "members"] {
        if let Some(ps) = kv_pairs(line, k) {
            v.extend(ps.iter().map(|p| p.0 as u64));
        }
    }
    if let Some(l) = kv_list(line, "remove") {
        v.extend(l.iter().map(|x| *x as u64));
    }
    v
}

fn members_of(ps: &[(u128, u128)]) -> Vec<Member> {
    ps.iter().map(|(a, w)| Member { addr: addr(*a as u64), weight: *w as u64 }).collect()
}

/// cw-multi-test bank events (`transfer` with `sender`/`recipient`/`amount`); None if anything looks unfamiliar
fn parse_transfers(res: &AppResponse, from: &Addr) -> Option<Vec<(u64, u64, u128)>> {
    let mut out = vec![];
    for e in &res.events {
        if e.ty != "transfer" {
            continue;
        }
        let get = |k: &str| e.attributes.iter().find(|a| a.key == k).map(|a| a.value.clone());
        let (sender, recipient, amount) = (get("sender")?, get("recipient")?, get("amount")?);
        if sender != from.as_str() {
            continue;
        }
        let to = addr_id(&recipient);
        for part in amount.split(',') {
            let i = part.find(|c: char| !c.is_ascii_digit()).unwrap_or(part.len());
            let amt: u128 = part[..i].parse().ok()?;
            out.push((to, dn_id(&part[i..]), amt));
        }
    }
    Some(out)
}

fn explicit_denoms(line: &str) -> Option<Vec<u64>> {
    if kv(line, "denoms").unwrap() == "none" {
        None
    } else {
        Some(kv_list(line, "denoms").unwrap().iter().map(|x| *x as u64).collect())
    }
}

impl S {
    fn new() -> S {
        S { w: None, header: String::new(), log: vec![], cur: Snap::default(), last: None, schema: exec_schema(), ledger_admin: None, events_unreliable: 0 }
    }

    fn build_world(header: &str) -> Option<World> {
        let mode = kv(header, "mode")?;
        let group_id = kv_u64(header, "group")?;
        let admin = kv_opt_u64(header, "admin")?.map(addr);
        let gadmin = kv_opt_u64(header, "gadmin")?.map(addr);
        let members = members_of(&kv_pairs(header, "members")?);
        let mut app = boxes::custom_mock_app();
        let group_code = app.store_code(boxes::cw4_group());
        let splits_code = app.store_code(boxes::splits());
        let gmsg = cw4_group::msg::InstantiateMsg { admin: gadmin, members };
        // the wasm-level admin (who may migrate) is the creator
        let wasm_admin = Some(addr(CREATOR));
        let (splits, group) = match mode {
            "addr" => {
                let group = app.instantiate_contract(group_code, a(CREATOR), &gmsg, &[], "group", None).ok()?;
                app.update_block(next_block);
                let msg = json!({"admin": admin, "group": {"cw4_address": group.to_string()}});
                let splits = app.instantiate_contract(splits_code, a(CREATOR), &msg, &[], "splits", wasm_admin).ok()?;
                (splits, group)
            }
            "inst" => {
                let msg = json!({"admin": admin, "group": {"cw4_instantiate": {
                    "code_id": group_code, "msg": to_json_binary(&gmsg).unwrap(), "admin": null, "label": "cw4-group"}}});
                let splits = app.instantiate_contract(splits_code, a(CREATOR), &msg, &[], "splits", wasm_admin).ok()?;
                let group: Addr = app.wrap().query_wasm_smart(&splits, &json!({"group": {}})).ok()?;
                (splits, group)
            }
            "bad" => {
                // a plain account is not a cw4 contract
                let msg = json!({"admin": admin, "group": {"cw4_address": addr(group_id)}});
                let splits = app.instantiate_contract(splits_code, a(CREATOR), &msg, &[], "splits", wasm_admin).ok()?;
                (splits, a(group_id))
            }
            _ => return None,
        };
        app.update_block(next_block);
        // the header names the addresses the generator expected (cw-multi-test's `contract{n}` numbering); the model is told
        // the REAL ones (see `begin`), so a different numbering does not desynchronise the two sides
        let (self_id, group_id) = (addr_id(splits.as_str()), addr_id(group.as_str()));
        let mut tracked: BTreeSet<u64> = ids_in_line(header).into_iter().collect();
        tracked.insert(self_id);
        tracked.insert(group_id);
        tracked.insert(CREATOR);
        let cw2 = cw2::get_contract_version(&*app.contract_storage(&splits)).map(|v| (v.contract, v.version)).unwrap_or_default();
        Some(World { app, splits, group, splits_id: self_id, group_id, tracked, cw2 })
    }

    fn exec_inner(&mut self, line: &str) -> (String, String) {
        let schema = self.schema.clone();
        let ledger_admin = self.ledger_admin;
        let Some(w) = self.w.as_mut() else { return (line.to_string(), "err".into()) };
        for id in ids_in_line(line) {
            w.tracked.insert(id);
        }
        let op = line.split_whitespace().next().unwrap_or("");
        let mut model_line = line.to_string();
        let mut events: Option<Vec<(u64, u64, u128)>> = Some(vec![]);
        // queries do not change anything
        match op {
            "q_members" => {
                let start = kv_opt_u64(line, "start").unwrap();
                let limit = kv_opt_u64(line, "limit").unwrap();
                let r: Result<Value, _> = w.app.wrap().query_wasm_smart(&w.splits, &json!({"list_members": {"start_after": start.map(addr), "limit": limit}}));
                let out = match r.ok().and_then(|v| {
                    v["members"].as_array().map(|ms| ms.iter().map(|m| (addr_id(m["addr"].as_str().unwrap_or("")), m["weight"].as_u64().unwrap_or(u64::MAX))).collect::<Vec<_>>())
                }) {
                    // only the page `execute_distribute` itself asks for is inside the projection
                    Some(l) if start.is_none() && limit == Some(SPLITS_PAGE) => format!("ok {}", fmt_pairs(&l)),
                    Some(l) => format!("ok ## {}", fmt_pairs(&l)),
                    None => "err".into(),
                };
                self.last = None;
                return (model_line, out);
            }
            "q_member" => {
                let r: Result<Value, _> = w.app.wrap().query_wasm_smart(&w.splits, &json!({"member": {"address": addr(kv_u64(line, "addr").unwrap())}}));
                let out = match r {
                    Ok(m) => format!("ok {}", fmt_opt(&m["weight"].as_u64())),
                    Err(_) => "err".into(),
                };
                self.last = None;
                return (model_line, out);
            }
            _ => {}
        }
        let pre = self.cur.clone();
        let res: Result<AppResponse, String> = match op {
            "mint" => {
                let to = addr(kv_u64(line, "to").unwrap());
                let coins = coins15(&kv_pairs(line, "coins").unwrap());
                w.app.sudo(SudoMsg::Bank(BankSudo::Mint { to_address: to, amount: coins })).map_err(|e| e.to_string())
            }
            "send" => {
                let from = a(kv_u64(line, "from").unwrap());
                let to = a(kv_u64(line, "to").unwrap());
                let coins = coins15(&kv_pairs(line, "coins").unwrap());
                w.app.send_tokens(from, to, &coins).map_err(|e| e.to_string())
            }
            "update_members" => {
                let sender = a(kv_u64(line, "sender").unwrap());
                let add = members_of(&kv_pairs(line, "add").unwrap());
                let remove: Vec<String> = kv_list(line, "remove").unwrap().iter().map(|x| addr(*x as u64)).collect();
                w.app.execute_contract(sender, w.group.clone(), &cw4_group::msg::ExecuteMsg::UpdateMembers { remove, add }, &[]).map_err(|e| e.to_string())
            }
            "group_admin" => {
                let sender = a(kv_u64(line, "sender").unwrap());
                let new = kv_opt_u64(line, "new").unwrap().map(addr);
                w.app.execute_contract(sender, w.group.clone(), &cw4_group::msg::ExecuteMsg::UpdateAdmin { admin: new }, &[]).map_err(|e| e.to_string())
            }
            "splits_admin" => {
                let sender = a(kv_u64(line, "sender").unwrap());
                let new = kv_opt_u64(line, "new").unwrap().map(addr);
                w.app.execute_contract(sender, w.splits.clone(), &json!({"update_admin": {"admin": new}}), &[]).map_err(|e| e.to_string())
            }
            "distribute" => {
                let sender = a(kv_u64(line, "sender").unwrap());
                let funds_ids = kv_pairs(line, "funds").unwrap();
                let funds: Vec<Coin> = coins15(&funds_ids);
                let denom_list: Option<Vec<String>> = explicit_denoms(line).map(|l| l.iter().map(|d| dn(*d)).collect());
                // witness: what `query_all_balances(contract)` returns inside the transaction = the non-zero
                // balances after the attached funds arrived, in the bank's order (denom strings ascending)
                let mut held: BTreeMap<String, (u64, u128)> = BTreeMap::new();
                for c in w.app.wrap().query_all_balances(&w.splits).unwrap() {
                    held.insert(c.denom.clone(), (dn_id(&c.denom), c.amount.u128()));
                }
                for (d, n) in &funds_ids {
                    if sender == w.splits {
                        break; // a transfer to oneself adds nothing
                    }
                    let e = held.entry(dn(*d as u64)).or_insert((*d as u64, 0));
                    e.1 = e.1.saturating_add(*n);
                }
                let order: Vec<u64> = held.values().filter(|v| v.1 != 0).map(|v| v.0).collect();
                model_line = format!("{line} order={}", fmt_list(&order));
                let r = w.app.execute_contract(sender, w.splits.clone(), &json!({"distribute": {"denom_list": denom_list}}), &funds);
                if let Ok(resp) = &r {
                    events = parse_transfers(resp, &w.splits);
                }
                r.map_err(|e| e.to_string())
            }
            "exec_raw" => {
                let sender_id = kv_u64(line, "sender").unwrap();
                let funds: Vec<Coin> = coins15(&kv_pairs(line, "funds").unwrap());
                let name = kv(line, "v").unwrap();
                let k = kv_u128(line, "k").unwrap_or(1);
                let msg = raw_msg(&schema, name, k, &addr(sender_id));
                w.app.execute_contract(a(sender_id), w.splits.clone(), &msg, &funds).map_err(|e| e.to_string())
            }
            "migrate" => {
                let sender = a(kv_u64(line, "sender").unwrap());
                // environment: which version the stored contract claims to be (cw2), set from outside before the call
                let (name0, ver0) = w.cw2.clone();
                let (name, ver) = match kv(line, "from").unwrap_or("same") {
                    "old" => (name0, "0.0.1".to_string()),
                    "newer" => (name0, "999.0.0".to_string()),
                    "other" => ("crates.io:something-else".to_string(), ver0),
                    _ => (name0, ver0),
                };
                {
                    let mut st = w.app.contract_storage_mut(&w.splits);
                    cw2::set_contract_version(&mut *st, name, ver).expect("cw2");
                }
                let code_id = w.app.wrap().query_wasm_contract_info(&w.splits).map(|i| i.code_id).unwrap_or(2);
                w.app.migrate_contract(sender, w.splits.clone(), &json!({}), code_id).map_err(|e| e.to_string())
            }
            _ => return (model_line, "bad-op".into()),
        };
        if kv(line, "hold") != Some("1") {
            w.app.update_block(next_block);
        }
        let post = w.snapshot();
        let ok = res.is_ok();
        let me = w.splits_id;
        let out = match op {
            // ok/err of these two is the environment's business (parsing of a message nobody has / wasm admin + cw2);
            // what C15 constrains is that nothing observable changes
            "exec_raw" => format!("raw {} ## {} {}", post.render(), if ok { "ok" } else { "err" }, post.render_drift()),
            "migrate" => format!("mig {} ## {} {}", post.render(), if ok { "ok" } else { "err" }, post.render_drift()),
            _ if !ok => "err".to_string(),
            "distribute" => {
                // net gain of every account other than the contract, from the bank's balances
                let sender = kv_u64(line, "sender").unwrap();
                let funds = kv_pairs(line, "funds").unwrap();
                let mut paid: Vec<String> = vec![];
                let keys: BTreeSet<(u64, u64)> = pre.bank.keys().chain(post.bank.keys()).cloned().collect();
                for (a_, d) in keys {
                    if a_ == me {
                        continue;
                    }
                    let attached: u128 = if a_ == sender { funds.iter().filter(|f| f.0 as u64 == d).map(|f| f.1).sum() } else { 0 };
                    let base = pre.bal(a_, d).saturating_sub(attached);
                    if post.bal(a_, d) > base {
                        paid.push(format!("{a_}:{d}:{}", post.bal(a_, d) - base));
                    }
                }
                let ms: String = match &events {
                    Some(ev) if ev.is_empty() => "-".into(),
                    Some(ev) => ev.iter().map(|(t, d, n)| format!("{t}:{d}:{n}")).collect::<Vec<_>>().join(","),
                    None => "?".into(),
                };
                format!("ok paid={} {} ## {} msgs={ms}", if paid.is_empty() { "-".to_string() } else { paid.join(",") }, post.render(), post.render_drift())
            }
            _ => format!("ok {} ## {}", post.render(), post.render_drift()),
        };
        self.last = Some(Trace { line: line.to_string(), ok, pre, post: post.clone(), events, splits_id: me, ledger_admin });
        self.cur = post;
        // the harness's own ledger of who administers the splits contract: only what it SENT and saw accepted
        if op == "splits_admin" && ok {
            self.ledger_admin = kv_opt_u64(line, "new").unwrap();
        }
        (model_line, out)
    }
}

fn checked_prod(xs: &[u128]) -> Option<u128> {
    let mut r: u128 = 1;
    for x in xs {
        r = r.checked_mul(*x)?;
    }
    Some(r)
}

impl Sut for S {
    fn begin(&mut self, header: &str) -> (String, String) {
        self.header = header.to_string();
        self.log.clear();
        self.last = None;
        self.ledger_admin = kv_opt_u64(header, "admin").unwrap_or(None);
        self.w = catch(|| S::build_world(header)).unwrap_or(None);
        match &self.w {
            Some(w) => {
                self.cur = w.snapshot();
                // the model gets the addresses the contracts really have
                let model_header: String = header
                    .split(' ')
                    .map(|wd| {
                        if wd.starts_with("self=") {
                            format!("self={}", w.splits_id)
                        } else if wd.starts_with("group=") && kv(header, "mode") != Some("bad") {
                            format!("group={}", w.group_id)
                        } else {
                            wd.to_string()
                        }
                    })
                    .collect::<Vec<_>>()
                    .join(" ");
                (model_header, format!("case ok {} ## {}", self.cur.render(), self.cur.render_drift()))
            }
            None => {
                self.cur = Snap::default();
                (header.to_string(), "case err".into())
            }
        }
    }

    fn exec(&mut self, line: &str) -> (String, String) {
        let r = catch(|| self.exec_inner(line));
        match r {
            Ok(x) => {
                self.log.push(line.to_string());
                x
            }
            Err(_) => {
                // a panic inside the contracts = failed transaction; the App may be half-written: rebuild it
                let header = self.header.clone();
                let log = std::mem::take(&mut self.log);
                self.begin(&header);
                for l in &log {
                    let _ = catch(|| self.exec_inner(l));
                    self.log.push(l.clone());
                }
                self.last = None;
                (line.to_string(), "err".into())
            }
        }
    }

    /// The property, transcribed on observations that do not come from the code under test: the bank's balances (cw-multi-test),
    /// the group as cw4-group itself reports it, what the harness SENT (sender, funds, denom list, coins minted / moved) and its own
    /// ledger of the splits admin. Independent of the Lean model.
    fn monitor(&mut self) -> Option<(String, String)> {
        let t = self.last.clone()?;
        let op = t.line.split_whitespace().next()?.to_string();
        let bad = |p: &str, w: String| Some((format!("splits/{op}/{p}"), format!("{w} on `{}`", t.line)));
        let me = t.splits_id;
        // --- "never creates or loses coins": only the environment's `mint` changes a supply
        let (d_pre, d_post) = (t.pre.denoms(), t.post.denoms());
        let denoms: BTreeSet<u64> = d_pre.union(&d_post).cloned().collect();
        for d in &denoms {
            let mut want = t.pre.supply(*d);
            if op == "mint" && t.ok {
                for c in kv_pairs(&t.line, "coins").unwrap().iter().filter(|c| c.0 as u64 == *d) {
                    want = add_wide(want, c.1);
                }
            }
            if t.post.supply(*d) != want {
                return bad("supply", format!("supply of denom {d} went {:?} -> {:?} (expected {want:?})", t.pre.supply(*d), t.post.supply(*d)));
            }
        }
        // --- a refused operation changes nothing
        if !t.ok && t.pre != t.post {
            return bad("failed-but-changed", "a refused operation changed balances, the group or an admin".into());
        }
        // --- the admin of the splits contract changes only through an UpdateAdmin sent by the admin (the harness's own ledger)
        if op == "splits_admin" && t.ok && t.ledger_admin != Some(kv_u64(&t.line, "sender").unwrap()) {
            return bad("unauthorized-accepted", format!("UpdateAdmin accepted from a sender that is not the admin {:?}", t.ledger_admin));
        }
        let ledger_after = if op == "splits_admin" && t.ok { kv_opt_u64(&t.line, "new").unwrap() } else { t.ledger_admin };
        if t.post.sadmin != ledger_after {
            return bad("frame-admin", format!("the contract reports admin {:?}; every accepted UpdateAdmin so far leaves {:?}", t.post.sadmin, ledger_after));
        }
        // --- the group changes only through cw4-group's UpdateMembers
        if !(op == "update_members" && t.ok) && (t.pre.members != t.post.members || t.pre.total != t.post.total) {
            return bad("frame-group", "the group (members / total weight) changed without an accepted UpdateMembers".into());
        }
        // --- everything that is not an accepted Distribute moves exactly the coins the harness itself moved
        if op != "distribute" {
            let mut want: Bal = t.pre.bank.clone();
            want.retain(|_, v| *v != 0);
            let mut mv = |from: Option<u64>, to: u64, coins: &[(u128, u128)]| {
                for (d, n) in coins {
                    if let Some(f) = from {
                        let e = want.entry((f, *d as u64)).or_insert(0);
                        *e = e.saturating_sub(*n);
                    }
                    let e = want.entry((to, *d as u64)).or_insert(0);
                    *e = e.saturating_add(*n);
                }
            };
            if t.ok {
                match op.as_str() {
                    "mint" => mv(None, kv_u64(&t.line, "to").unwrap(), &kv_pairs(&t.line, "coins").unwrap()),
                    "send" => mv(Some(kv_u64(&t.line, "from").unwrap()), kv_u64(&t.line, "to").unwrap(), &kv_pairs(&t.line, "coins").unwrap()),
                    // a message this file has no name for was accepted: the funds attached to it arrive, nothing else may move
                    "exec_raw" => mv(Some(kv_u64(&t.line, "sender").unwrap()), me, &kv_pairs(&t.line, "funds").unwrap()),
                    _ => {}
                }
            }
            want.retain(|_, v| *v != 0);
            let mut got = t.post.bank.clone();
            got.retain(|_, v| *v != 0);
            if got != want {
                for d in &denoms {
                    if t.post.bal(me, *d) < *want.get(&(me, *d)).unwrap_or(&0) {
                        return bad("outflow", format!("the contract's balance of denom {d} fell from {} to {} without a Distribute", t.pre.bal(me, *d), t.post.bal(me, *d)));
                    }
                }
                return bad("frame-bank", "balances changed that this operation does not move".into());
            }
            return None;
        }
        // ------------------------------------------------------------------------------------ Distribute
        let sender = kv_u64(&t.line, "sender").unwrap();
        let funds = kv_pairs(&t.line, "funds").unwrap();
        // coins attached by the contract to a call to itself would not add anything (never generated; a contract cannot do it)
        let fund_of = |d: u64| -> u128 { if sender == me { 0 } else { funds.iter().filter(|f| f.0 as u64 == d).map(|f| f.1).sum() } };
        let explicit: Option<Vec<u64>> = explicit_denoms(&t.line);
        let total = t.pre.total as u128;
        let members = &t.pre.members;
        // balance of the contract the distribution sees
        let held = |d: u64| -> u128 { t.pre.bal(me, d).saturating_add(fund_of(d)) };
        let all_denoms: BTreeSet<u64> = denoms.iter().cloned().chain(funds.iter().map(|f| f.0 as u64)).chain(explicit.clone().unwrap_or_default()).collect();
        let selected = |d: u64| -> bool { explicit.as_ref().map(|l| l.contains(&d)).unwrap_or(true) };
        let occ = |d: u64| -> u128 { explicit.as_ref().map(|l| l.iter().filter(|x| **x == d).count() as u128).unwrap_or(1) };
        let entitled = match t.ledger_admin {
            Some(adm) => adm == sender,
            None => t.pre.weight(sender).is_some(),
        };
        let something = total != 0 && all_denoms.iter().any(|d| selected(*d) && held(*d) / total >= 1);
        let self_w: u128 = t.pre.weight(me).unwrap_or(0) as u128;
        if t.ok {
            if !entitled {
                return bad("unentitled-accepted", format!("sender {sender} is neither the admin nor (without admin) a member"));
            }
            if total == 0 {
                return bad("zero-weight-accepted", "group has no weight".into());
            }
            if members.is_empty() || members.len() > PROP_MAX_MEMBERS {
                return bad("member-count-accepted", format!("group has {} members", members.len()));
            }
            if !something {
                return bad("nothing-accepted", "no selected denom has balance >= total weight".into());
            }
            // a denom the harness listed VERBATIM, of which it funded at least the total weight, in an accepted call — and yet no
            // weighted member other than the contract received anything of it (judged on the list SENT, not on what the contract made of it)
            if let Some(l) = &explicit {
                for d in l {
                    if held(*d) / total >= 1 {
                        let others: Vec<&(u64, u64)> = members.iter().filter(|m| m.0 != me && m.1 > 0).collect();
                        let nobody_paid = others.iter().all(|m| {
                            let b0 = t.pre.bal(m.0, *d).saturating_sub(if m.0 == sender { fund_of(*d) } else { 0 });
                            t.post.bal(m.0, *d) <= b0
                        });
                        if !others.is_empty() && nobody_paid {
                            return bad("listed-denom-not-paid", format!("denom {d} (`{}`) was listed, the contract held {} >= total weight {total}, the call succeeded, but no member received weight x floor({}/{total}) of it", dn(*d), held(*d), held(*d)));
                        }
                    }
                }
            }
            // what every account other than the contract gained (bank balances; the sender's attached funds taken out first)
            let accounts: BTreeSet<u64> = t.pre.bank.keys().chain(t.post.bank.keys()).map(|k| k.0).chain(members.iter().map(|m| m.0)).collect();
            let base = |a_: u64, d: u64| -> Option<u128> { t.pre.bal(a_, d).checked_sub(if a_ == sender { fund_of(d) } else { 0 }) };
            for d in &all_denoms {
                let q = if selected(*d) { held(*d) / total } else { 0 };
                // the property: weight x floor(balance / total) — once. The code as it is pays a denom listed k times k times when the
                // bank lets it (only possible when the contract is a paid member of its own group: docs/C15.md), so there k = occ too
                let ks: Vec<u128> = if self_w > 0 && occ(*d) >= 2 { vec![1, occ(*d)] } else { vec![1] };
                let mut first_bad: Option<(String, String)> = None;
                let mut matched = false;
                for k in &ks {
                    let mut this_bad: Option<(String, String)> = None;
                    let mut paid_others: u128 = 0;
                    for a_ in accounts.iter().filter(|x| **x != me) {
                        let w_ = t.pre.weight(*a_);
                        let Some(b0) = base(*a_, *d) else { this_bad = bad("member-amount", format!("account {a_} cannot have attached the funds")); break };
                        let got = t.post.bal(*a_, *d);
                        if got < b0 {
                            this_bad = bad("lost-coins", format!("account {a_} lost {} of denom {d} in a distribution", b0 - got));
                            break;
                        }
                        let gain = got - b0;
                        let want = checked_prod(&[w_.unwrap_or(0) as u128, q, *k]);
                        paid_others = paid_others.saturating_add(gain);
                        if Some(gain) != want {
                            this_bad = match w_ {
                                None => bad("nonmember-changed", format!("non-member {a_} received {gain} of denom {d}")),
                                Some(0) => bad("zero-weight-paid", format!("zero-weight member {a_} received {gain} of denom {d}")),
                                Some(w) => bad("member-amount", format!("member {a_} (weight {w}) received {gain} of denom {d}, expected {want:?} = weight x floor({}/{total}){}", held(*d), if *k > 1 { format!(" x {k} occurrences") } else { String::new() })),
                            };
                            break;
                        }
                    }
                    if this_bad.is_none() {
                        // never more than is held, and the contract keeps the rest
                        if paid_others > held(*d) {
                            this_bad = bad("overpaid", format!("paid {paid_others} of denom {d}, held {}", held(*d)));
                        } else {
                            let rest = t.post.bal(me, *d);
                            if !selected(*d) {
                                if rest != held(*d) {
                                    this_bad = bad("unselected-touched", format!("denom {d} was not selected but the contract balance went {} -> {rest}", held(*d)));
                                }
                            } else if self_w == 0 {
                                if rest != held(*d) % total || rest >= total {
                                    this_bad = bad("remainder", format!("contract keeps {rest} of denom {d}; expected {} (< total weight {total})", held(*d) % total));
                                }
                            } else if Some(rest) != checked_prod(&[total - self_w.min(total), q, *k]).and_then(|x| held(*d).checked_sub(x)) {
                                // the contract is a paid member of its own group: the literal "remainder < total weight" does not hold on
                                // the code as it is (docs/C15.md); what must still hold: it loses exactly what the others are due
                                this_bad = bad("self-member-rest", format!("contract (own weight {self_w}) keeps {rest} of denom {d}, expected {} - (total - own weight) x floor", held(*d)));
                            }
                        }
                    }
                    match this_bad {
                        None => {
                            matched = true;
                            break;
                        }
                        Some(b) => {
                            if first_bad.is_none() {
                                first_bad = Some(b);
                            }
                        }
                    }
                }
                if !matched {
                    return first_bad;
                }
            }
            // message level (when cw-multi-test's events are readable and agree with the balances): every bank message is
            // weight x floor(balance/total) of a selected denom to a member with weight > 0
            if let Some(ev) = &t.events {
                let mut agg: BTreeMap<(u64, u64), u128> = BTreeMap::new();
                for (to, d, n) in ev.iter().filter(|e| e.0 != me) {
                    let e = agg.entry((*to, *d)).or_insert(0);
                    *e = e.saturating_add(*n);
                }
                let consistent = agg.iter().all(|((to, d), n)| base(*to, *d).map(|b| t.post.bal(*to, *d) == b.saturating_add(*n)).unwrap_or(false));
                if !consistent {
                    self.events_unreliable += 1;
                } else {
                    for (to, d, n) in ev {
                        let w_ = t.pre.weight(*to).unwrap_or(0) as u128;
                        let q = if selected(*d) { held(*d) / total } else { 0 };
                        if w_ == 0 || q == 0 || Some(*n) != checked_prod(&[w_, q]) {
                            return bad("transfer-shape", format!("bank message {to}:{d}:{n} is not weight x floor(balance/total) to a weighted member (weight {w_}, floor {q})"));
                        }
                    }
                }
            } else {
                self.events_unreliable += 1;
            }
        } else {
            // refusals the property demands are implied by `ok ⇒ …` above; here: a refusal must not be spurious
            // when everything is in order and the bank can cover it
            let self_in_group = members.iter().any(|m| m.0 == me);
            let fdenoms: BTreeSet<u64> = funds.iter().map(|f| f.0 as u64).collect();
            let funds_ok = funds.is_empty() || (funds.iter().any(|f| f.1 > 0) && fdenoms.iter().all(|d| t.pre.bal(sender, *d) >= fund_of(*d)));
            let dup_selected = explicit.as_ref().map(|l| l.iter().any(|d| l.iter().filter(|x| *x == d).count() > 1 && held(*d) / total.max(1) >= 1)).unwrap_or(false);
            if entitled && total != 0 && !members.is_empty() && members.len() <= PROP_MAX_MEMBERS && something && funds_ok && !dup_selected && !self_in_group && sender != me {
                return bad("spurious-refusal", "entitled caller, valid group, distributable balance — but refused".into());
            }
        }
        None
    }
}
// ------------------------------------------------------------------------------------------------ generators

const ADMIN: u64 = 5;
const GADMIN: u64 = 6;
const STRANGER: u64 = 7;
const DEPOSITOR: u64 = 8;

fn pick_weight(rng: &mut Rng, profile: u64) -> u64 {
    match profile {
        0 => rng.range(0, 3),                                          // tiny incl. zero
        1 => 1,                                                        // all equal
        2 => *rng.pick(&[0u64, 1, 2, 3, 5, 10, 100, 1000]),           // small mixed
        3 => *rng.pick(&[0u64, 1, 1 << 32, (1 << 32) + 1, 1 << 40]),  // mixed with large
        4 => *rng.pick(&[1u64 << 62, (1 << 62) - 1, 1 << 59, 1, 0]),  // sums near / over u64::MAX
        5 => 0,                                                        // no weight at all
        _ => rng.sized_u128(48) as u64,
    }
}

fn gen_members(rng: &mut Rng, size: usize, profile: u64, extra: Option<(u64, u64)>) -> Vec<(u64, u64)> {
    let mut ids: Vec<u64> = (10..=80).collect();
    rng.shuffle(&mut ids);
    let mut v: Vec<(u64, u64)> = ids[..size.min(ids.len())].iter().map(|i| (*i, pick_weight(rng, profile))).collect();
    if let Some(e) = extra {
        v.push(e);
    }
    rng.shuffle(&mut v);
    v
}

fn size_class(n: usize) -> &'static str {
    match n {
        0 => "0",
        1 => "1",
        2..=23 => "2-23",
        24 => "24",
        25 => "25",
        26 => "26",
        27..=29 => "27-29",
        30 => "30",
        31 => "31",
        _ => ">31",
    }
}

fn bal_class(b: u128, t: u128) -> &'static str {
    if t == 0 {
        return "T0";
    }
    if b == 0 {
        "zero"
    } else if b < t - 1 {
        "below"
    } else if b == t - 1 {
        "T-1"
    } else if b == t {
        "T"
    } else if b == t + 1 {
        "T+1"
    } else if b % t == 0 {
        "kT"
    } else if b % t == t - 1 {
        "kT-1"
    } else {
        "kT+r"
    }
}

fn weight_class(w: Option<u64>) -> &'static str {
    match w {
        None => "none",
        Some(0) => "w0",
        Some(1) => "w1",
        Some(x) if x < (1 << 32) => "wsmall",
        Some(_) => "wlarge",
    }
}

struct G<'a> {
    ses: &'a mut Session,
    sut: &'a mut S,
    rng: Rng,
    /// coins minted so far in this case, per denom (the bank's Uint128 balances must not overflow: Σ minted <= u128::MAX)
    minted: BTreeMap<u64, u128>,
}

impl<'a> G<'a> {
    fn step(&mut self, line: String) -> String {
        self.ses.step(self.sut, &line)
    }
    /// `mint` through the per-denom cap; zero-amount entries are kept (the bank drops them)
    fn mint(&mut self, to: u64, coins: &[(u64, u128)], hold: bool) -> String {
        let mut cs: Vec<(u64, u128)> = vec![];
        for (d, n) in coins {
            let m = self.minted.entry(*d).or_insert(0);
            let n = (*n).min(u128::MAX - *m);
            *m += n;
            cs.push((*d, n));
        }
        self.step(format!("mint to={to} coins={}{}", fmt_pairs(&cs), if hold { " hold=1" } else { "" }))
    }
    fn alive(&self) -> bool {
        self.sut.w.is_some()
    }
    fn me(&self) -> u64 {
        self.sut.w.as_ref().map(|w| w.splits_id).unwrap_or(0)
    }

    /// header for a fresh world; returns whether instantiation succeeded
    fn start(&mut self, tag: &str, mode: &str, admin: Option<u64>, gadmin: Option<u64>, members: &[(u64, u64)]) -> bool {
        let (s, g) = match mode {
            "addr" => (1001, 1000),
            "inst" => (1000, 1001),
            _ => (1000, 999),
        };
        let h = format!("case {tag} mode={mode} self={s} group={g} admin={} gadmin={} members={}", fmt_opt(&admin), fmt_opt(&gadmin), fmt_pairs(members));
        self.ses.begin_case(self.sut, &h);
        self.minted.clear();
        let ok = self.alive();
        let total: u128 = members.iter().map(|m| m.1 as u128).sum();
        self.ses.mark(format!("inst:{mode}:{}:n{}:{}:{}", if ok { "ok" } else { "err" }, size_class(members.len()), if total == 0 { "T0" } else if total > u64::MAX as u128 { "Tover" } else { "Tpos" }, admin.is_some()));
        ok
    }

    /// amount that brings the contract's balance of `d` to a chosen relation with the total weight
    fn deposit_amount(&mut self, d: u64) -> u128 {
        let t = self.sut.cur.total as u128;
        let cur = self.sut.cur.bal(self.me(), d);
        if t == 0 {
            return self.rng.range(1, 1000) as u128;
        }
        let k = match self.rng.below(4) {
            0 => 1,
            1 => 2,
            2 => self.rng.range(3, 1000) as u128,
            _ => self.rng.sized_u128(30).max(1),
        };
        let target = match self.rng.below(9) {
            0 => t - 1,
            1 => t,
            2 => t + 1,
            3 => k * t,
            4 => k * t + (t - 1),
            5 => k * t + self.rng.next_u128() % t,
            6 => t / 2,
            7 => 2 * t - 1,
            _ => self.rng.sized_u128(100),
        };
        if target > cur {
            target - cur
        } else {
            self.rng.range(1, 50) as u128
        }
    }

    fn deposit(&mut self, denoms: &[u64]) {
        let me = self.me();
        let mut coins: Vec<(u64, u128)> = vec![];
        for d in denoms {
            let n = self.deposit_amount(*d);
            coins.push((*d, n));
        }
        if self.rng.chance(1, 40) {
            coins.push((4, 0)); // a zero coin: dropped by the bank
        }
        if self.rng.chance(1, 3) {
            // a real transfer from a funded account
            let nz: Vec<(u64, u128)> = coins.iter().filter(|c| c.1 > 0).cloned().collect();
            let have_before: Vec<u128> = nz.iter().map(|c| self.sut.cur.bal(DEPOSITOR, c.0)).collect();
            self.mint(DEPOSITOR, &nz, false);
            // send what was really minted (the cap may have clamped it)
            let coins: Vec<(u64, u128)> = coins.iter().map(|c| match nz.iter().position(|x| x.0 == c.0) {
                Some(i) if c.1 > 0 => (c.0, self.sut.cur.bal(DEPOSITOR, c.0) - have_before[i]),
                _ => *c,
            }).collect();
            self.step(format!("send from={DEPOSITOR} to={me} coins={}", fmt_pairs(&coins)));
            self.ses.mark("deposit:send");
        } else {
            let hold = self.rng.chance(1, 4);
            self.mint(me, &coins, hold);
            self.ses.mark(if hold { "deposit:mint:same-block" } else { "deposit:mint" });
        }
    }

    fn pick_sender(&mut self, valid: bool) -> (u64, &'static str) {
        let cur = self.sut.cur.clone();
        let members = &cur.members;
        // the contract itself never signs transactions
        let me = self.me();
        let pos: Vec<u64> = members.iter().filter(|m| m.1 > 0 && m.0 != me).map(|m| m.0).collect();
        let zero: Vec<u64> = members.iter().filter(|m| m.1 == 0 && m.0 != me).map(|m| m.0).collect();
        if valid {
            match cur.sadmin {
                Some(adm) => (adm, "admin"),
                None => {
                    if !zero.is_empty() && self.rng.chance(1, 4) {
                        (*self.rng.pick(&zero), "member0")
                    } else if !pos.is_empty() {
                        (*self.rng.pick(&pos), "member+")
                    } else if !zero.is_empty() {
                        (*self.rng.pick(&zero), "member0")
                    } else {
                        (STRANGER, "stranger")
                    }
                }
            }
        } else {
            match (cur.sadmin, self.rng.below(4)) {
                (Some(_), 0) if !pos.is_empty() => (*self.rng.pick(&pos), "member-while-admin"),
                (Some(_), 1) if !zero.is_empty() => (*self.rng.pick(&zero), "member0-while-admin"),
                (None, 0) => (ADMIN, "former-admin"),
                (_, 2) => (cur.gadmin.unwrap_or(GADMIN), "group-admin"),
                (_, 3) if self.rng.chance(1, 2) => (self.sut.w.as_ref().map(|w| addr_id(w.group.as_str())).unwrap_or(STRANGER), "group-contract"),
                _ => (STRANGER, "stranger"),
            }
        }
    }

    fn distribute(&mut self, valid_sender: bool) -> bool {
        let me = self.me();
        let cur = self.sut.cur.clone();
        let (sender, sclass) = self.pick_sender(valid_sender);
        let held: Vec<u64> = cur.bank.iter().filter(|((a_, _), n)| *a_ == me && **n != 0).map(|((_, d), _)| *d).collect();
        let (denoms, dclass): (String, &str) = match self.rng.below(17) {
            0..=3 => ("none".into(), "implicit"),
            4 | 5 => (fmt_list(&held), "explicit-all"),
            6 => {
                let mut h = held.clone();
                self.rng.shuffle(&mut h);
                h.truncate((h.len() + 1) / 2);
                (fmt_list(&h), "explicit-subset")
            }
            7 => {
                let mut h = held.clone();
                h.push(9);
                h.insert(0, 8);
                (fmt_list(&h), "explicit-with-empty-denoms")
            }
            8 => {
                let mut h = held.clone();
                if let Some(x) = h.first().cloned() {
                    h.push(x);
                }
                (fmt_list(&h), "explicit-duplicate")
            }
            9 => ("-".into(), "explicit-empty"),
            10 => ("9".into(), "explicit-unknown"),
            12 => {
                // entries that differ from a held denom only by case / surrounding blanks: they name OTHER denoms (nobody holds them)
                let mut h = held.clone();
                let k = self.rng.range(1, 2) as usize;
                for _ in 0..k {
                    h.push(*self.rng.pick(&DN_ALIASES));
                }
                self.rng.shuffle(&mut h);
                (fmt_list(&h), "explicit-with-alias-denoms")
            }
            13 => {
                let alias = *self.rng.pick(&DN_ALIASES);
                (format!("{alias}"), "explicit-alias-only")
            }
            14 | 15 => {
                let mut h = held.clone();
                self.rng.shuffle(&mut h);
                (fmt_list(&h), "explicit-shuffled")
            }
            _ => {
                let mut h = held.clone();
                h.reverse();
                (fmt_list(&h), "explicit-reversed")
            }
        };
        // sometimes coins ride along with the call itself: one coin, several denoms, the same denom twice, a zero coin next to a
        // real one, only zero coins (the bank refuses), a denom the explicit list does not select, more than the sender has
        let mut funds: Vec<(u64, u128)> = vec![];
        let mut fclass = "nofunds";
        if self.rng.chance(1, 6) {
            let d = self.rng.below(3);
            let n = if cur.total > 0 && self.rng.chance(1, 2) { cur.total as u128 } else { self.rng.range(1, 500) as u128 };
            let shape = self.rng.below(8);
            match shape {
                0 => {
                    funds.push((d, n));
                    funds.push(((d + 1) % 3, self.rng.range(1, 500) as u128));
                    fclass = "funds-multi";
                }
                1 => {
                    funds.push((d, n));
                    funds.push((d, self.rng.range(1, 9) as u128));
                    fclass = "funds-dup-denom";
                }
                2 => {
                    funds.push((d, n));
                    funds.push(((d + 1) % 3, 0));
                    fclass = "funds-zero-coin";
                }
                3 => {
                    funds.push((d, 0));
                    fclass = "funds-all-zero";
                }
                4 => {
                    // a denom the call does not select (stays in the contract)
                    let sel_now: Vec<u64> = if denoms == "none" { vec![] } else { kv_list(&format!("x={denoms}"), "x").unwrap().iter().map(|x| *x as u64).collect() };
                    let un = (0..4u64).find(|x| !sel_now.contains(x)).unwrap_or(d);
                    funds.push((un, n));
                    fclass = if denoms == "none" { "funds" } else { "funds-unselected" };
                }
                _ => {
                    funds.push((d, n));
                    fclass = "funds";
                }
            }
            if self.rng.chance(5, 6) {
                let nz: Vec<(u64, u128)> = funds.iter().filter(|f| f.1 > 0).cloned().collect();
                if !nz.is_empty() {
                    self.mint(sender, &nz, false);
                    // the cap may have clamped the mint: attach only what the sender really has
                    for f in funds.iter_mut() {
                        f.1 = f.1.min(self.sut.cur.bal(sender, f.0));
                    }
                }
            } else if fclass != "funds-all-zero" {
                fclass = "funds-uncovered";
            }
        }
        let cur = self.sut.cur.clone();
        let t = cur.total as u128;
        let sel: Vec<u64> = if denoms == "none" {
            held.iter().cloned().chain(funds.iter().map(|f| f.0)).collect()
        } else {
            kv_list(&format!("x={denoms}"), "x").unwrap().iter().map(|x| *x as u64).collect()
        };
        let best = sel.iter().map(|d| cur.bal(me, *d).saturating_add(funds.iter().filter(|f| f.0 == *d).map(|f| f.1).sum::<u128>())).max().unwrap_or(0);
        let hold = self.rng.chance(1, 5);
        let out = self.step(format!("distribute sender={sender} funds={} denoms={denoms}{}", fmt_pairs(&funds), if hold { " hold=1" } else { "" }));
        let ok = out.starts_with("ok");
        if fclass != "nofunds" {
            self.ses.mark(format!("funds:{fclass}:{}", if ok { "ok" } else { "err" }));
        }
        // boundary classes for the coverage floor
        if valid_sender && fclass == "nofunds" && t > 0 && !cur.members.is_empty() {
            if cur.members.len() <= PROP_MAX_MEMBERS && (best == t - 1 || best == t || best == t + 1) && dclass != "explicit-duplicate" {
                self.ses.mark(format!("bound:bal:{}:{}", bal_class(best, t), if ok { "ok" } else { "err" }));
            }
            if best >= t && (cur.members.len() == 25 || cur.members.len() == 26) && dclass != "explicit-duplicate" && cur.weight(me).is_none() {
                self.ses.mark(format!("bound:members:{}:{}", cur.members.len(), if ok { "ok" } else { "err" }));
            }
        }
        self.ses.mark(format!(
            "dist:{}:{sclass}:n{}:{dclass}:{}:{fclass}:{}",
            if ok { "ok" } else { "err" },
            size_class(cur.members.len()),
            bal_class(best, t),
            weight_class(cur.weight(sender))
        ));
        self.ses.count(if ok { "distribute:ok" } else { "distribute:err" });
        if !ok {
            let entitled = match cur.sadmin {
                Some(adm) => adm == sender,
                None => cur.weight(sender).is_some(),
            };
            let why = if !entitled {
                "not-entitled"
            } else if t == 0 {
                "no-weight"
            } else if cur.members.is_empty() {
                "no-members"
            } else if cur.members.len() > PROP_MAX_MEMBERS {
                "too-many"
            } else if fclass == "funds-uncovered" || fclass == "funds-all-zero" {
                "funds-uncovered"
            } else if best < t {
                "nothing"
            } else {
                "bank-or-other"
            };
            self.ses.count(&format!("refused:{why}"));
            self.ses.mark(format!("refused:{why}"));
        }
        ok
    }

    fn update_members(&mut self, valid: bool) {
        let cur = self.sut.cur.clone();
        let sender = if valid { cur.gadmin.unwrap_or(GADMIN) } else { *self.rng.pick(&[STRANGER, ADMIN, cur.members.first().map(|m| m.0).unwrap_or(STRANGER)]) };
        let mut add: Vec<(u64, u64)> = vec![];
        let mut remove: Vec<u64> = vec![];
        let profile = self.rng.below(5);
        let kind = self.rng.below(10);
        let kclass = match kind {
            0 | 1 => {
                // change weights of existing members (incl. to / from zero)
                for _ in 0..self.rng.range(1, 3) {
                    if let Some(m) = cur.members.get(self.rng.below(cur.members.len().max(1) as u64) as usize) {
                        if !add.iter().any(|x| x.0 == m.0) {
                            add.push((m.0, pick_weight(&mut self.rng, profile)));
                        }
                    }
                }
                "reweight"
            }
            2 | 3 => {
                for _ in 0..self.rng.range(1, 4) {
                    let id = self.rng.range(10, 99);
                    if !add.iter().any(|x| x.0 == id) {
                        add.push((id, pick_weight(&mut self.rng, profile)));
                    }
                }
                "add"
            }
            4 | 5 => {
                for _ in 0..self.rng.range(1, 3) {
                    if let Some(m) = cur.members.get(self.rng.below(cur.members.len().max(1) as u64) as usize) {
                        remove.push(m.0);
                    }
                }
                if self.rng.chance(1, 3) {
                    remove.push(self.rng.range(10, 99)); // possibly not a member
                }
                "remove"
            }
            6 => {
                // add and remove the same address: remove wins
                let id = self.rng.range(10, 99);
                add.push((id, pick_weight(&mut self.rng, profile)));
                remove.push(id);
                "add+remove-same"
            }
            7 => {
                let id = self.rng.range(10, 99);
                add.push((id, 1));
                add.push((id, 2));
                "duplicate-add"
            }
            8 => {
                // grow towards / across the 25 / 30 boundaries
                let want = *self.rng.pick(&[24usize, 25, 26, 30, 31]);
                let mut id = 100;
                while cur.members.len() + add.len() < want {
                    if !cur.members.iter().any(|m| m.0 == id) {
                        add.push((id, pick_weight(&mut self.rng, 2)));
                    }
                    id += 1;
                }
                "grow"
            }
            _ => {
                // shrink to a boundary
                let want = *self.rng.pick(&[0usize, 1, 25]);
                for m in cur.members.iter().skip(want) {
                    remove.push(m.0);
                }
                "shrink"
            }
        };
        self.rng.shuffle(&mut add);
        let hold = self.rng.chance(1, 3);
        let out = self.step(format!("update_members sender={sender} add={} remove={}{}", fmt_pairs(&add), fmt_list(&remove), if hold { " hold=1" } else { "" }));
        self.ses.mark(format!("upd:{kclass}:{}:{}{}", if valid { "admin" } else { "other" }, if out.starts_with("ok") { "ok" } else { "err" }, if hold { ":same-block" } else { "" }));
    }

    fn admin_change(&mut self) {
        let cur = self.sut.cur.clone();
        let which = self.rng.below(2);
        let valid = self.rng.chance(3, 4);
        let new: Option<u64> = match self.rng.below(4) {
            0 => None,
            1 => Some(ADMIN),
            2 => cur.members.first().map(|m| m.0),
            _ => Some(GADMIN),
        };
        if which == 0 {
            let sender = if valid { cur.sadmin.unwrap_or(ADMIN) } else { STRANGER };
            let out = self.step(format!("splits_admin sender={sender} new={}", fmt_opt(&new)));
            self.ses.mark(format!("sadmin:{}:{}:{}", cur.sadmin.is_some(), new.is_some(), out.starts_with("ok")));
        } else {
            let sender = if valid { cur.gadmin.unwrap_or(GADMIN) } else { STRANGER };
            let out = self.step(format!("group_admin sender={sender} new={}", fmt_opt(&new)));
            self.ses.mark(format!("gadmin:{}:{}:{}", cur.gadmin.is_some(), new.is_some(), out.starts_with("ok")));
        }
    }

    fn queries(&mut self) {
        let cur = self.sut.cur.clone();
        let start: Option<u64> = match self.rng.below(3) {
            0 => None,
            1 => cur.members.get(self.rng.below(cur.members.len().max(1) as u64) as usize).map(|m| m.0),
            _ => Some(self.rng.range(5, 120)),
        };
        let limit: Option<u64> = match self.rng.below(6) {
            0 => None,
            1 => Some(0),
            2 => Some(30),
            3 => Some(31),
            4 => Some(1000),
            _ => Some(self.rng.range(1, 29)),
        };
        self.step(format!("q_members start={} limit={}", fmt_opt(&start), fmt_opt(&limit)));
        self.ses.mark(format!("q_members:{}:{}:n{}", start.is_some(), fmt_opt(&limit.map(|l| l.min(32))), size_class(cur.members.len())));
        let who = if self.rng.chance(1, 2) { cur.members.first().map(|m| m.0).unwrap_or(STRANGER) } else { self.rng.range(5, 99) };
        self.step(format!("q_member addr={who}"));
        self.ses.mark(format!("q_member:{}", weight_class(cur.weight(who))));
    }
}

// ------------------------------------------------------------------------------------------------ round-3 scenarios

impl<'a> G<'a> {
    fn group_id(&self) -> u64 {
        self.sut.w.as_ref().map(|w| addr_id(w.group.as_str())).unwrap_or(0)
    }

    /// one message the contract does not have (or a variant of the crate's schema this file has no name for)
    fn raw(&mut self, name: &str, sender: u64, funds: &[(u64, u128)], k: u128) -> String {
        let known_in_schema = schema_variants(&self.sut.schema).iter().any(|v| v.0 == name);
        let out = self.step(format!("exec_raw sender={sender} funds={} v={name} k={k}", fmt_pairs(funds)));
        let res = if out.contains(" ## ok") { "ok" } else { "err" };
        self.ses.mark(format!("raw:{}:{}:{res}", if known_in_schema { "schema-variant" } else { "absent" }, if funds.is_empty() { "nofunds" } else { "funds" }));
        if known_in_schema {
            self.ses.mark(format!("surface:unnamed-variant:{name}:{res}"));
        }
        out
    }

    /// every variant of the schema without a named op, and a rotating choice of messages nobody has, by several senders
    fn raw_round(&mut self, n_hyp: usize) {
        let cur = self.sut.cur.clone();
        let me = self.me();
        let unnamed: Vec<String> = schema_variants(&self.sut.schema).into_iter().map(|v| v.0).filter(|n| !KNOWN_EXEC.contains(&n.as_str())).collect();
        let senders: Vec<u64> = vec![cur.sadmin.unwrap_or(ADMIN), cur.members.first().map(|m| m.0).unwrap_or(STRANGER), STRANGER, CREATOR];
        for name in &unnamed {
            for sd in &senders {
                for k in [1u128, cur.bal(me, 0).max(1), cur.total.max(1) as u128] {
                    self.raw(name, *sd, &[], k);
                }
            }
        }
        for _ in 0..n_hyp {
            let name = *self.rng.pick(&HYPOTHETICAL);
            let sd = *self.rng.pick(&senders);
            let with_funds = self.rng.chance(1, 3);
            let funds: Vec<(u64, u128)> = if with_funds {
                let n = self.rng.range(1, 50) as u128;
                self.mint(sd, &[(0, n)], false);
                vec![(0, n.min(self.sut.cur.bal(sd, 0)))]
            } else {
                vec![]
            };
            let k = if self.rng.chance(1, 2) { 1 } else { cur.bal(me, 0).max(1) };
            self.raw(name, sd, &funds, k);
        }
    }

    fn migrate(&mut self, sender: u64, from: &str) -> String {
        let out = self.step(format!("migrate sender={sender} from={from}"));
        let res = if out.contains(" ## ok") { "ok" } else { "err" };
        self.ses.mark(format!("migrate:{from}:{}:{res}", if sender == CREATOR { "wasm-admin" } else { "other" }));
        out
    }

    /// scripted: a funded contract, then every unknown message and every kind of migration, then a distribution that must be
    /// exactly what it would have been
    fn scenario_surface(&mut self, mode: &str) {
        let members = vec![(10u64, 1u64), (11, 2), (12, 0)];
        if !self.start("surface", mode, Some(ADMIN), Some(GADMIN), &members) {
            self.ses.end_case();
            return;
        }
        let me = self.me();
        self.mint(me, &[(0, 1000), (1, 7)], false);
        self.raw_round(HYPOTHETICAL.len());
        for name in HYPOTHETICAL {
            self.raw(name, ADMIN, &[], 1000);
        }
        self.migrate(CREATOR, "same");
        self.migrate(STRANGER, "same");
        self.migrate(ADMIN, "old");
        self.migrate(CREATOR, "newer");
        self.migrate(CREATOR, "other");
        self.migrate(CREATOR, "old");
        let out = self.step(format!("distribute sender={ADMIN} funds=- denoms=none"));
        self.ses.mark(format!("surface:distribute-after:{}", out.starts_with("ok")));
        self.raw_round(3);
        self.ses.end_case();
    }

    /// scripted: who is entitled follows the group and the admin AS THEY ARE NOW, also within one block
    fn scenario_handover(&mut self, mode: &str, hold: bool) {
        let h = if hold { " hold=1" } else { "" };
        let tag = if hold { "same-block" } else { "next-block" };
        // (a) no admin: a member distributes, is removed, is refused; a freshly added (zero-weight) member is entitled at once
        if self.start("handover-member", mode, None, Some(GADMIN), &[(10, 3), (11, 2)]) {
            let me = self.me();
            self.mint(me, &[(0, 50)], hold);
            let o1 = self.step(format!("distribute sender=10 funds=- denoms=none{h}"));
            self.mint(me, &[(0, 50)], hold);
            self.step(format!("update_members sender={GADMIN} add=12:0 remove=10{h}"));
            let o2 = self.step(format!("distribute sender=10 funds=- denoms=none{h}"));
            let o3 = self.step(format!("distribute sender=12 funds=- denoms=none{h}"));
            self.ses.mark(format!("handover:member:{tag}:{}{}{}", o1.starts_with("ok") as u8, o2.starts_with("ok") as u8, o3.starts_with("ok") as u8));
            // weights as they are now: total 2 after the removal
            self.mint(me, &[(0, 7)], hold);
            self.step(format!("update_members sender={GADMIN} add=11:5,13:1 remove=-{h}"));
            let o4 = self.step(format!("distribute sender=13 funds=- denoms=0{h}"));
            self.ses.mark(format!("sameblock:update-then-distribute:{tag}:{}", if o4.starts_with("ok") { "ok" } else { "err" }));
        }
        self.ses.end_case();
        // (b) the admin is a member that is removed between two distributions: still the admin; other members are not entitled
        if self.start("handover-admin", mode, Some(10), Some(GADMIN), &[(10, 3), (11, 2)]) {
            let me = self.me();
            self.mint(me, &[(0, 50)], hold);
            let o1 = self.step(format!("distribute sender=10 funds=- denoms=none{h}"));
            self.step(format!("update_members sender={GADMIN} add=- remove=10{h}"));
            self.mint(me, &[(0, 50)], hold);
            let o2 = self.step(format!("distribute sender=11 funds=- denoms=none{h}"));
            let o3 = self.step(format!("distribute sender=10 funds=- denoms=none{h}"));
            // the admin hands over to nobody: from now on the members decide
            self.mint(me, &[(0, 50)], hold);
            self.step(format!("splits_admin sender=11 new=11{h}"));
            self.step(format!("splits_admin sender=10 new=-{h}"));
            let o4 = self.step(format!("distribute sender=10 funds=- denoms=none{h}"));
            let o5 = self.step(format!("distribute sender=11 funds=- denoms=none{h}"));
            self.ses.mark(format!(
                "handover:admin:{tag}:{}{}{}{}{}",
                o1.starts_with("ok") as u8, o2.starts_with("ok") as u8, o3.starts_with("ok") as u8, o4.starts_with("ok") as u8, o5.starts_with("ok") as u8
            ));
        }
        self.ses.end_case();
        // (c) the group contract itself is a member and calls (inst mode: it is contract1)
        if mode == "inst" && self.start("group-contract-member", mode, None, Some(GADMIN), &[(10, 1), (1001, 1)]) {
            let me = self.me();
            let g = self.group_id();
            self.mint(me, &[(0, 10)], hold);
            let o = self.step(format!("distribute sender={g} funds=- denoms=none{h}"));
            self.ses.mark(format!("sender:group-contract:member:{}", if o.starts_with("ok") { "ok" } else { "err" }));
        }
        if mode == "inst" {
            self.ses.end_case();
        }
    }

    /// scripted: funds attached to the call in every shape
    fn scenario_funds(&mut self, mode: &str) {
        if !self.start("funds", mode, None, Some(GADMIN), &[(10, 2), (11, 1)]) {
            self.ses.end_case();
            return;
        }
        let me = self.me();
        self.mint(10, &[(0, 100), (1, 100), (2, 100)], false);
        let run = |g: &mut G, name: &str, funds: &str, denoms: &str| {
            let o = g.step(format!("distribute sender=10 funds={funds} denoms={denoms}"));
            g.ses.mark(format!("funds:scripted:{name}:{}", if o.starts_with("ok") { "ok" } else { "err" }));
        };
        run(self, "multi", "0:3,1:6", "none"); // two denoms ride along and are distributed at once
        run(self, "unselected", "0:9,2:5", "0"); // denom 2 is attached but not selected: it stays in the contract
        let left = self.sut.cur.bal(me, 2);
        self.ses.mark(format!("funds:scripted:unselected-kept:{}", left == 5));
        run(self, "zero-coin", "0:3,1:0", "none"); // the bank drops the zero coin
        run(self, "all-zero", "0:0", "none"); // nothing but zero coins: the bank refuses the transfer
        run(self, "dup-denom", "0:2,0:1", "none"); // the same denom twice: both arrive
        run(self, "uncovered", "0:1000", "none"); // more than the sender has
        run(self, "below-total", "1:2", "1"); // arrives but is less than the total weight: refused, funds stay with the sender
        self.ses.end_case();
    }

    /// scripted: bank denoms are case-sensitive byte strings — IBC vouchers (`ibc/<UPPER-CASE HEX>`), mixed-case token-factory denoms,
    /// a lower-cased twin, list entries with surrounding blanks / other case (which name denoms nobody holds)
    fn scenario_case_denoms(&mut self, mode: &str) {
        if !self.start("case-denoms", mode, Some(ADMIN), Some(GADMIN), &[(10, 50), (11, 30), (12, 20), (13, 0)]) {
            self.ses.end_case();
            return;
        }
        let me = self.me();
        self.mint(me, &[(0, 1234), (DN_IBC_UP, 5678), (DN_FACTORY_MIXED, 777), (DN_IBC_LOW, 345)], false);
        let run = |g: &mut G, name: &str, denoms: &str| -> bool {
            let o = g.step(format!("distribute sender={ADMIN} funds=- denoms={denoms}"));
            g.ses.mark(format!("denoms:{name}:{}", if o.starts_with("ok") { "ok" } else { "err" }));
            o.starts_with("ok")
        };
        // listed next to ustars: both are paid 50/30/20 x floor(balance/100)
        run(self, "upper:with-others", &format!("0,{DN_IBC_UP}"));
        let c = self.sut.cur.clone();
        self.ses.mark(format!("denoms:upper:paid-exactly:{}", c.bal(10, DN_IBC_UP) == 2800 && c.bal(11, DN_IBC_UP) == 1680 && c.bal(12, DN_IBC_UP) == 1120 && c.bal(13, DN_IBC_UP) == 0 && c.bal(me, DN_IBC_UP) == 78));
        // listed alone
        self.mint(me, &[(DN_IBC_UP, 500)], false);
        run(self, "upper:alone", &format!("{DN_IBC_UP}"));
        // an unsorted list with the mixed-case token-factory denom
        self.mint(me, &[(DN_IBC_UP, 300), (0, 400)], false);
        run(self, "mixed:unsorted", &format!("{DN_IBC_UP},{DN_FACTORY_MIXED},0"));
        let c = self.sut.cur.clone();
        self.ses.mark(format!("denoms:mixed:paid-exactly:{}", c.bal(10, DN_FACTORY_MIXED) == 350 && c.bal(me, DN_FACTORY_MIXED) == 77));
        // two denoms that differ only in case are two denoms: both are paid, each from its own balance
        self.mint(me, &[(DN_IBC_UP, 300)], false);
        let before = (self.sut.cur.bal(10, DN_IBC_UP), self.sut.cur.bal(10, DN_IBC_LOW));
        run(self, "case-twins", &format!("{DN_IBC_LOW},{DN_IBC_UP}"));
        let c = self.sut.cur.clone();
        self.ses.mark(format!("denoms:case-twins:both-paid:{}", c.bal(10, DN_IBC_UP) > before.0 && c.bal(10, DN_IBC_LOW) == before.1 + 150));
        // entries with surrounding blanks / other case name denoms nobody holds: alone they select nothing …
        self.mint(me, &[(0, 500), (DN_IBC_UP, 400)], false);
        for a_ in DN_ALIASES {
            run(self, &format!("alias-{a_}:alone"), &format!("{a_}"));
        }
        // … next to a held denom they are skipped and do NOT make `ustars` selected
        let ustars_before = self.sut.cur.bal(me, 0);
        run(self, "alias:with-upper", &format!("30,{DN_IBC_UP},32,31"));
        self.ses.mark(format!("denoms:alias:ustars-untouched:{}", self.sut.cur.bal(me, 0) == ustars_before));
        self.ses.end_case();
    }

    /// scripted: balances at the top of Uint128
    fn scenario_huge(&mut self, mode: &str, profile: u64) {
        let members: Vec<(u64, u64)> = match profile {
            0 => vec![(10, 1), (11, 2), (12, 0)],
            1 => vec![(10, 1 << 62), (11, (1 << 62) - 1), (12, 1)],
            _ => vec![(10, u64::MAX - 1), (11, 1)],
        };
        if !self.start("huge", mode, Some(ADMIN), Some(GADMIN), &members) {
            self.ses.end_case();
            return;
        }
        let me = self.me();
        let r = self.rng.range(0, 5) as u128;
        self.mint(me, &[(3, u128::MAX - r), (0, 1u128 << 127)], false);
        let o = self.step(format!("distribute sender={ADMIN} funds=- denoms=none"));
        self.ses.mark(format!("huge:p{profile}:{}", if o.starts_with("ok") { "ok" } else { "err" }));
        // only the remainder is left; a further mint is clamped by the cap
        self.distribute(true);
        self.mint(me, &[(3, 1u128 << 100)], false);
        self.distribute(true);
        self.ses.end_case();
    }

    /// the two literal clauses the code as it is does not satisfy (docs/C15.md, `C15_*_counterexample`, corpus/C15/*.json):
    /// reproduced on the real contracts in every run
    fn scenario_counterexamples(&mut self) {
        if self.start("counterexample-remainder", "addr", Some(ADMIN), Some(GADMIN), &[(10, 1), (1001, 9)]) {
            self.step("mint to=1001 coins=0:100".to_string());
            let o = self.step(format!("distribute sender={ADMIN} funds=- denoms=none"));
            let kept = self.sut.cur.bal(1001, 0);
            let total = self.sut.cur.total as u128;
            self.ses.mark(format!("counterexample:remainder:{}", if o.starts_with("ok") && kept >= total { "reproduced" } else { "gone" }));
            if !(o.starts_with("ok") && kept >= total) {
                self.ses.note("the self-member remainder counter-example no longer reproduces: C15_remainder_self_member_counterexample / docs need a second look");
            }
        }
        self.ses.end_case();
        if self.start("counterexample-double-pay", "inst", Some(ADMIN), Some(GADMIN), &[(1000, 9), (1001, 1)]) {
            self.step("mint to=1000 coins=0:100".to_string());
            let o = self.step(format!("distribute sender={ADMIN} funds=- denoms=0,0"));
            let got = self.sut.cur.bal(1001, 0);
            self.ses.mark(format!("counterexample:double-pay:{}", if o.starts_with("ok") && got == 20 { "reproduced" } else { "gone" }));
            if !(o.starts_with("ok") && got == 20) {
                self.ses.note("the self-member-first double payment no longer reproduces: C15_exact_amount_self_first_counterexample / docs need a second look");
            }
        }
        self.ses.end_case();
    }

    /// scripted boundary grid: exactly 24 / 25 / 26 members × balance T−1 / T / T+1, entitled caller, no funds, implicit list
    fn scenario_bounds(&mut self, mode: &str) {
        for size in [24usize, 25, 26] {
            for rel in [0u8, 1, 2] {
                let members = gen_members(&mut self.rng, size, 2, None);
                let members: Vec<(u64, u64)> = members.into_iter().map(|m| (m.0, m.1.max(1))).collect();
                if !self.start("bounds", mode, Some(ADMIN), Some(GADMIN), &members) {
                    self.ses.end_case();
                    continue;
                }
                let me = self.me();
                let t = self.sut.cur.total as u128;
                let amt = match rel {
                    0 => t - 1,
                    1 => t,
                    _ => t + 1,
                };
                if amt > 0 {
                    self.mint(me, &[(0, amt)], false);
                }
                let o = self.step(format!("distribute sender={ADMIN} funds=- denoms=none"));
                let ok = o.starts_with("ok");
                if size <= PROP_MAX_MEMBERS {
                    self.ses.mark(format!("bound:bal:{}:{}", ["T-1", "T", "T+1"][rel as usize], if ok { "ok" } else { "err" }));
                }
                if rel >= 1 {
                    self.ses.mark(format!("bound:members:{size}:{}", if ok { "ok" } else { "err" }));
                }
                self.ses.end_case();
            }
        }
    }
}

fn main() {
    let mut ses = Session::new("C15");
    let mut sut = S::new();
    if ses.maybe_replay(&mut sut) {
        ses.finish(&mut sut);
    }
    let rng = ses.rng.fork();
    let n_grid = ses.scale(2, 60);
    let n_hist = ses.scale(1200, 45_000);
    // ---- coverage floor: without these the run would be vacuous (docs/HARNESS.md); all are reached by scripted scenarios
    for c in [
        "dist:ok:admin", "dist:ok:member+", "dist:ok:member0",
        "refused:not-entitled", "refused:no-weight", "refused:too-many", "refused:nothing", "refused:funds-uncovered",
        "bound:bal:T-1:err", "bound:bal:T:ok", "bound:bal:T+1:ok", "bound:members:25:ok", "bound:members:26:err",
        "raw:absent:nofunds:err", "raw:absent:funds:err", "migrate:same:wasm-admin:ok", "migrate:old:wasm-admin:ok", "migrate:newer:wasm-admin:err",
        "surface:distribute-after:true",
        "handover:member:same-block:101", "handover:member:next-block:101", "handover:admin:same-block:10101", "handover:admin:next-block:10101",
        "sameblock:update-then-distribute:same-block:ok", "sender:group-contract:member:ok",
        "funds:scripted:multi:ok", "funds:scripted:unselected:ok", "funds:scripted:zero-coin:ok", "funds:scripted:all-zero:err",
        "funds:scripted:dup-denom:ok", "funds:scripted:uncovered:err", "funds:scripted:unselected-kept:true",
        "huge:p0:ok", "huge:p1:ok", "huge:p2:ok",
        "denoms:upper:with-others:ok", "denoms:upper:paid-exactly:true", "denoms:upper:alone:ok", "denoms:mixed:unsorted:ok", "denoms:mixed:paid-exactly:true",
        "denoms:case-twins:ok", "denoms:case-twins:both-paid:true", "denoms:alias-30:alone:err", "denoms:alias-31:alone:err", "denoms:alias-32:alone:err",
        "denoms:alias-33:alone:err", "denoms:alias:with-upper:ok", "denoms:alias:ustars-untouched:true",
        "counterexample:remainder:reproduced", "counterexample:double-pay:reproduced",
        "self-member:w2", "self-member-first:0,0:true", "inst:addr:ok", "inst:inst:ok", "upd:reweight:admin:ok",
    ] {
        ses.require(c);
    }
    let surface: Vec<String> = schema_variants(&sut.schema).into_iter().map(|v| v.0).collect();
    let unnamed: Vec<String> = surface.iter().filter(|n| !KNOWN_EXEC.contains(&n.as_str())).cloned().collect();
    ses.note(format!("execute surface from the crate's JSON schema at run time: {:?}; without a named op (sent through exec_raw): {:?}", surface, unnamed));
    for k in KNOWN_EXEC {
        ses.mark(format!("surface:named:{k}:{}", surface.iter().any(|n| n == k)));
    }
    let mut g = G { ses: &mut ses, sut: &mut sut, rng, minted: BTreeMap::new() };

    // ---- 0. round-3 scripted scenarios (every seed, every tier)
    g.scenario_counterexamples();
    for mode in ["addr", "inst"] {
        g.scenario_surface(mode);
        g.scenario_handover(mode, true);
        g.scenario_handover(mode, false);
        g.scenario_funds(mode);
        g.scenario_case_denoms(mode);
        g.scenario_bounds(mode);
        for p in 0..3 {
            g.scenario_huge(mode, p);
        }
    }

    // ---- 1. the size × mode × weight-profile grid: instantiate, deposit at a chosen relation to the total weight,
    //         distribute (entitled and not), distribute again (now only the remainder is left), deposit, distribute
    for _round in 0..n_grid {
        for &size in &[0usize, 1, 2, 3, 7, 24, 25, 26, 29, 30, 31, 35] {
            for mode in ["addr", "inst"] {
                for profile in [0u64, 1, 2, 3, 4, 5] {
                    let members = gen_members(&mut g.rng, size, profile, None);
                    let admin = if g.rng.chance(1, 3) { Some(ADMIN) } else { None };
                    if !g.start("grid", mode, admin, Some(GADMIN), &members) {
                        g.ses.end_case();
                        continue;
                    }
                    let nd = g.rng.range(1, 3);
                    let ds: Vec<u64> = (0..nd).collect();
                    g.deposit(&ds);
                    if g.rng.chance(1, 6) {
                        g.raw_round(1);
                    }
                    g.distribute(false);
                    g.distribute(true);
                    g.distribute(true);
                    g.queries();
                    let d3 = g.rng.below(3);
                    g.deposit(&[d3]);
                    g.distribute(true);
                    g.ses.end_case();
                }
            }
        }
    }

    // ---- 2. instantiate corner cases
    {
        // the group address is not a contract
        g.start("bad-group", "bad", None, None, &[]);
        g.ses.end_case();
        // duplicate members in the group's instantiate message
        g.start("dup-members", "addr", None, Some(GADMIN), &[(10, 1), (11, 2), (10, 3)]);
        g.ses.end_case();
        g.start("dup-members", "inst", None, Some(GADMIN), &[(10, 1), (11, 2), (10, 3)]);
        g.ses.end_case();
        // total weight exactly u64::MAX and one above
        g.start("u64max", "addr", None, Some(GADMIN), &[(10, u64::MAX - 1), (11, 1)]);
        if g.alive() {
            g.deposit(&[0]);
            g.distribute(true);
            g.step(format!("update_members sender={GADMIN} add=12:1 remove=-"));
            g.step(format!("update_members sender={GADMIN} add=10:5,12:1 remove=-"));
            g.step(format!("update_members sender={GADMIN} add=12:1,10:5 remove=-"));
            g.distribute(true);
        }
        g.ses.end_case();
        g.start("u64over", "addr", None, Some(GADMIN), &[(10, u64::MAX), (11, 1)]);
        g.ses.end_case();
        g.start("u64over", "inst", None, Some(GADMIN), &[(10, u64::MAX), (11, 1)]);
        g.ses.end_case();
    }

    // ---- 3. the splits contract is a member of its own group (it pays itself)
    for i in 0..g.ses.scale(12, 600) {
        let w_self = *g.rng.pick(&[0u64, 1, 9, 1000]);
        let size = g.rng.range(1, 4) as usize;
        let profile = g.rng.below(4);
        let members = gen_members(&mut g.rng, size, profile, Some((1001, w_self)));
        let admin = if i % 2 == 0 { Some(ADMIN) } else { None };
        if g.start("self-member", "addr", admin, Some(GADMIN), &members) {
            g.deposit(&[0, 1]);
            g.distribute(true);
            g.deposit(&[0]);
            g.distribute(true);
            g.distribute(true);
            g.ses.mark(format!("self-member:w{}", w_self.min(2)));
        }
        g.ses.end_case();
    }

    // ---- 3b. … and is paid FIRST (inst mode: splits = contract0 < group = contract1, the group contract being the
    //          other member): with a denom listed twice the self-payments are no-ops and the duplicate goes through
    for i in 0..g.ses.scale(6, 300) {
        let w_self = *g.rng.pick(&[9u64, 1, 1000]);
        let w_other = g.rng.range(1, 3);
        let members = vec![(1000u64, w_self), (1001u64, w_other)];
        if g.start("self-member-first", "inst", Some(ADMIN), Some(GADMIN), &members) {
            let me = g.me();
            let t = (w_self + w_other) as u128;
            let amt = t * g.rng.range(1, 20) as u128 + g.rng.below(t as u64) as u128;
            g.step(format!("mint to={me} coins=0:{amt}"));
            let dl = if i % 3 == 0 { "0" } else { "0,0" };
            let out = g.step(format!("distribute sender={ADMIN} funds=- denoms={dl}"));
            g.ses.mark(format!("self-member-first:{dl}:{}", out.starts_with("ok")));
            g.distribute(true);
        }
        g.ses.end_case();
    }

    // ---- 4. histories: deposits, weight changes, admin changes and distributions interleaved
    for _ in 0..n_hist {
        let size = match g.rng.below(20) {
            0 => 1,
            1 => 24,
            2 | 3 => 25,
            4 => 26,
            5 => 30,
            6 => 31,
            _ => g.rng.range(1, 12) as usize,
        };
        let profile = g.rng.below(7);
        let mode = if g.rng.chance(1, 2) { "addr" } else { "inst" };
        let members = gen_members(&mut g.rng, size, profile, None);
        let admin = match g.rng.below(4) {
            0 => Some(ADMIN),
            1 => members.first().map(|m| m.0),
            _ => None,
        };
        let gadmin = if g.rng.chance(1, 12) { None } else { Some(GADMIN) };
        if !g.start("history", mode, admin, gadmin, &members) {
            g.ses.end_case();
            continue;
        }
        let len = g.rng.range(6, 22);
        for _ in 0..len {
            match g.rng.below(20) {
                0..=5 => {
                    let nd = g.rng.range(1, 3);
                    let mut ds: Vec<u64> = vec![0, 1, 2, 3, DN_IBC_UP, DN_FACTORY_MIXED, DN_IBC_LOW];
                    g.rng.shuffle(&mut ds);
                    ds.truncate(nd as usize);
                    g.deposit(&ds);
                }
                6..=12 => {
                    if g.rng.chance(3, 5) {
                        let mut ds: Vec<u64> = vec![0, 1, 2, 3, DN_IBC_UP, DN_IBC_LOW];
                        g.rng.shuffle(&mut ds);
                        ds.truncate(g.rng.range(1, 2) as usize);
                        g.deposit(&ds);
                    }
                    let valid = g.rng.chance(7, 8);
                    g.distribute(valid);
                }
                13..=16 => {
                    let valid = g.rng.chance(5, 6);
                    g.update_members(valid);
                }
                17 => g.admin_change(),
                18 => {
                    if g.rng.chance(1, 2) {
                        g.queries()
                    } else if g.rng.chance(2, 3) {
                        g.raw_round(2)
                    } else {
                        let who = *g.rng.pick(&[CREATOR, CREATOR, STRANGER, ADMIN]);
                        let from = *g.rng.pick(&["same", "old", "newer", "other"]);
                        g.migrate(who, from);
                    }
                }
                _ => {
                    // a member moves its own coins around (not a deposit)
                    let cur = g.sut.cur.clone();
                    if let Some(((a_, d), n)) = cur.bank.iter().find(|((a_, _), n)| *a_ != g.me() && **n > 0).map(|(k, v)| (*k, *v)) {
                        let amt = if g.rng.chance(1, 5) { n + 1 } else { g.rng.range(1, n.min(1 << 60) as u64) as u128 };
                        let to = if g.rng.chance(1, 2) { g.me() } else { STRANGER };
                        let out = g.step(format!("send from={a_} to={to} coins={d}:{amt}"));
                        g.ses.mark(format!("send:{}:{}", amt > n, out.starts_with("ok")));
                    }
                }
            }
        }
        // always end on a funded distribution by an entitled caller
        g.deposit(&[0]);
        g.distribute(true);
        g.ses.end_case();
    }

    let unreliable = sut.events_unreliable;
    if unreliable > 0 {
        ses.mark("events-unreliable");
        ses.note(format!("cw-multi-test transfer events disagreed with the balance deltas (or could not be parsed) {unreliable} times: message-level `transfer-shape` skipped there, balance-level monitors unaffected"));
    }
    ses.note("groups of 0..35 members; weights 0, 1, small, 2^32.., near 2^62 (sums up to and over u64::MAX); balances T-1, T, T+1, kT, kT+T-1, kT+r, T/2, 2T-1, random up to 2^100; denoms 0..3 (+ unknown 8, 9); explicit / implicit / duplicate / empty denom lists; funds attached to the call; admin set / unset; the contract as a member of its own group; funds in several denoms / zero coins / unselected denoms; same-block sequences (hold=1); balances up to u128::MAX; unknown execute messages and migrations under the frame monitors");
    ses.finish(&mut sut);
}
